#!/bin/bash
# runs every registered quick (or $1=thorough) check on the current tree; prints one line per property
cd "$(dirname "$0")"
TIER=${1:-quick}
rc=0
for p in $(python3 -c "import json; print(' '.join(c['property_id'] for c in json.load(open('MANIFEST.json'))['checks']))"); do
  out=$(./check $p --tier $TIER 2>&1); r=$?
  echo "$out" | grep -E "tier=|VIOLATION|KNOWN-FINDING" | cut -c1-200
  [ $r -ne 0 ] && rc=1
done
exit $rc
