#!/bin/bash
# Line / region coverage of /repo's library sources under the correspondence generators (quick tier, seed 1).
# Not a check: a measurement of how far the generators reach into the implementation, used to find input classes
# the correspondence does not exercise (the differential tie is only as strong as its generators).
# Needs the nightly toolchain's llvm-tools (llvm-profdata, llvm-cov).  Writes coverage/REPORT.txt.
set -u
HERE="$(cd "$(dirname "$0")" && pwd)"
T=${COV_TARGET:-/tmp/verif_cov}
B=$(dirname "$(rustc +nightly --print target-libdir)")/bin
mkdir -p "$T/prof"; rm -f "$T"/prof/*
( cd "$HERE/../harness" && CARGO_NET_OFFLINE=true CARGO_TARGET_DIR="$T/target" RUSTFLAGS="-C instrument-coverage" \
    LLVM_PROFILE_FILE="$T/prof/build-%p.profraw" cargo +nightly build --offline 2>&1 | tail -1 )
rm -f "$T"/prof/build-*
for p in C01 C02 C03 C04 C05 C06 C07 C08 C09 C10 C11 C12 C13 C14 C15 C16 C17 C18; do
  ( cd "$T" && LLVM_PROFILE_FILE="$T/prof/$p-%p.profraw" timeout 900 "$T/target/debug/verif-harness" gen $p ${1:-quick} 1 > /dev/null 2>&1 ) &
done
wait
"$B/llvm-profdata" merge -sparse "$T"/prof/*.profraw -o "$T/all.profdata"
SRCS=$(find /repo -name "*.rs" -path "*/src/*" | grep -v "/target/" | grep -v /examples/ | grep -v /benches/ | sort)
{
  echo "# coverage of /repo library sources by the correspondence generators (tier ${1:-quick}, seed 1), $(git -C /repo rev-parse --short HEAD)"
  "$B/llvm-cov" report "$T/target/debug/verif-harness" -instr-profile="$T/all.profdata" $SRCS | sed 's/  */ /g' | cut -d' ' -f1-13
  echo
  echo "# lines never executed"
  for f in $SRCS; do
    "$B/llvm-cov" show "$T/target/debug/verif-harness" -instr-profile="$T/all.profdata" "$f" 2>/dev/null | grep -E "^ +[0-9]+\| +0\|" | sed "s#^#${f#/repo/}:#" | cut -c1-170
  done
} > "$HERE/REPORT.txt"
rm -rf "$T/prof"
echo "written $HERE/REPORT.txt"
