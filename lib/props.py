"""Per-property tables for ./check: harness generator, evidence rule, in-kernel anchor terms."""
import re

TRUSTED_BASE = [
    "Coq 8.16.1 kernel and its VM (vm_compute: in-kernel anchor, primality certificate, constant facts); native_compute not used",
    "axioms: none (Print Assumptions of every property theorem must say 'Closed under the global context')",
    "OCaml extraction with ExtrOcamlBasic only (bool, option, unit, list, prod, sumbool -> OCaml types; nat/positive/N/Z stay inductive), ocamlopt 4.13.1, ocaml/driver.ml",
    "translator gen/gen_params.py (regular expressions over named constants, attributes and label strings of the Rust sources)",
    "Rust harness /verif/harness (case generation from one splitmix64 stream, catch_unwind, canonical printing) and lib/props.py, ./check",
    "hand-written Gallina model of the repository's logic and of strobe-rs 0.10.0 / keccak (coq/model); tied to the code by the correspondence run, not verified against the Rust",
]

TABLE = {}


def reg(pid, harness, rule, assumptions=None, trusted_extra=None):
    TABLE[pid] = {"harness": harness, "rule": rule, "assumptions": assumptions or [], "trusted_extra": trusted_extra or []}


reg("C16", "C16",
    "seeded sharings over a lattice of thresholds (0,1,2,3,5,8; up to 128 thorough) x message/coin lengths at STROBE block "
    "boundaries (0,1,15,16,17,165,166,167,331,332,333,...) x default/custom transcript; per sharing: the shares, a recovery from a "
    "shuffled selection with duplicates, a re-sharing mixed with old shares, a t-1 subset. A case is non-trivial when the "
    "implementation output is not a bare 'err'; distinct = different case line",
    ["the STROBE MAC has no findable collisions (reduction form in the theorems)",
     "the rejection sampler of Fp::random terminates (premise `polys_of = Ok (Some _)`; observed on every generated case)"])


def nontrivial(prop, c):
    imp = c.get("impl") or ""
    return imp not in ("err", "none", "") and not imp.startswith("driver-error")


def hexbytes(h):
    if h == "-":
        return []
    return [int(h[i:i + 2], 16) for i in range(0, len(h), 2)]


def coq_bytes(h):
    b = hexbytes(h)
    return "([" + "; ".join(str(x) for x in b) + "]%N : list N)"


def coq_list(items):
    return "[" + "; ".join(items) + "]"


def parse_coq_value(text):
    """parse '= [[1%N; 2%N]; []] : type' into nested python lists of ints"""
    text = text.strip()
    m = re.match(r"=\s*(.*)", text, re.S)
    if m:
        text = m.group(1)
    # cut the trailing ': type'
    depth = 0
    end = len(text)
    for i, ch in enumerate(text):
        if ch in "[(":
            depth += 1
        elif ch in "])":
            depth -= 1
        elif ch == ":" and depth == 0:
            end = i
            break
    text = text[:end]
    toks = re.findall(r"\[|\]|;|\(|\)|,|\d+|true|false|[A-Za-z_][A-Za-z_0-9]*", text.replace("%N", "").replace("%Z", "").replace("%nat", ""))
    pos = [0]

    def val():
        t = toks[pos[0]]
        if t == "[":
            pos[0] += 1
            items = []
            while toks[pos[0]] != "]":
                items.append(val())
                if toks[pos[0]] == ";":
                    pos[0] += 1
            pos[0] += 1
            return items
        if t == "(":
            pos[0] += 1
            items = []
            while toks[pos[0]] != ")":
                items.append(val())
                if toks[pos[0]] == ",":
                    pos[0] += 1
            pos[0] += 1
            return tuple(items)
        pos[0] += 1
        if t.isdigit():
            return int(t)
        return t

    return val()


def anchor_terms(prop, cases, model_out, k):
    """(coq term, expected python value) for up to k cases, cheapest first"""
    picks = []
    for c, m in zip(cases, model_out):
        w = c["case"].split(" ")
        if len(c["case"]) > 6000:
            continue
        if w[0] == "adss.recover" and len(w) <= 6:
            term = "anchor_adss_recover " + coq_list([coq_bytes(x) for x in w[1:]])
            if m.startswith("ok "):
                exp = [hexbytes(x) for x in m.split(" ")[1:]]
            elif m == "err":
                exp = []
            else:
                continue
            picks.append((term, exp))
        elif w[0] == "star.derive":
            term = "anchor_star_derive %s %s %s%%N" % (coq_bytes(w[1]), coq_bytes(w[2]), w[3])
            exp = [hexbytes(x.split("=")[1]) for x in m.split(" ")]
            picks.append((term, exp))
        elif w[0] == "sharks.recover" and len(w) <= 8:
            term = "anchor_sharks_recover %s%%N %s" % (w[1], coq_list([coq_bytes(x) for x in w[2:]]))
            if m.startswith("ok "):
                exp = [hexbytes(m.split(" ")[1])]
            elif m == "err":
                exp = []
            else:
                continue
            picks.append((term, exp))
        elif w[0] == "fp.bin":
            term = "anchor_fp_bin %s %s %s" % ({"add": "0", "sub": "1", "mul": "2"}[w[1]] + "%N", coq_bytes(w[2]), coq_bytes(w[3]))
            picks.append((term, hexbytes(m)))
        if len(picks) >= k:
            break
    return picks
