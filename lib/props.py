"""Per-property tables for ./check: harness generator, evidence rule, in-kernel anchor terms."""
import re

TRUSTED_BASE = [
    "Coq 8.16.1 kernel and its VM (vm_compute: in-kernel anchor, primality certificate, constant facts); native_compute not used",
    "axioms: none (Print Assumptions of every property theorem must say 'Closed under the global context')",
    "OCaml extraction with ExtrOcamlBasic only (bool, option, unit, list, prod, sumbool -> OCaml types; nat/positive/N/Z stay inductive), ocamlopt 4.13.1, ocaml/driver.ml",
    "translator gen/gen_params.py (regular expressions over named constants, attributes and label strings of the Rust sources)",
    "translator gen/gen_limbs.py (rustc -Zunpretty=expanded output of star-sharks -> coq/model/LimbGen.v: the limb code and constants ff_derive generates; stable toolchain with RUSTC_BOOTSTRAP=1 or cargo +nightly); the transcription of ff-0.13's mac/adc/sbb in coq/model/LimbPrim.v",
    "Rust harness /verif/harness (case generation from one splitmix64 stream, catch_unwind, canonical printing) and lib/props.py, ./check",
    "hand-written Gallina model of the repository's logic and of strobe-rs 0.10.0 / keccak (coq/model); tied to the code by the correspondence run, not verified against the Rust",
]

TABLE = {}


def reg(pid, harness, rule, assumptions=None, trusted_extra=None, agree=False):
    # agree=True: the property itself says "agrees with an independent big-integer model", so a
    # model/implementation disagreement is a failing input of the property, not only a broken tie
    TABLE[pid] = {"harness": harness, "rule": rule, "assumptions": assumptions or [], "trusted_extra": trusted_extra or [], "agree": agree}


reg("C16", "C16",
    "seeded sharings over a lattice of thresholds (0,1,2,3,5,8; up to 128 thorough) x message/coin lengths at STROBE block "
    "boundaries (0,1,15,16,17,165,166,167,331,332,333,...) x default/custom transcript; per sharing: the shares, a recovery from a "
    "shuffled selection with duplicates, a re-sharing mixed with old shares, a t-1 subset; added after the seeded campaigns: the tag altered in two bytes by one mask, the same sharing under another transcript and back (history on one thread), recovery through filter / skip_while / flat_map, thresholds 256 / 257 (thorough). A case is non-trivial when the "
    "implementation output is not a bare 'err'; distinct = different case line",
    ["the STROBE MAC has no findable collisions (reduction form in the theorems)",
     "the rejection sampler of Fp::random terminates (premise `polys_of = Ok (Some _)`; observed on every generated case)"])


reg("C06", "C06",
    "seeded dealings with a recorded random source (scripts: uniform, counter, all-ones bursts, leading zeros, tiny top limbs) over "
    "thresholds 0..40 (to 600 thorough) x secrets of 0..4 (16) field elements drawn from a boundary lattice (0,1,2^64+-1,2^128+-1,p-1,"
    "(p-1)/2, out-of-range, trailing partial chunk); per dealing: iterator shares, one random-point share, recoveries from t shuffled, "
    "with duplicates, all shares, t-1 padded with repeats, and shares of unequal length; fixed blocks: thresholds 256 / 257, share points 2^128 apart forced through the random source, shares taken with nth / skip / step_by, out-of-range elements at every position, forced draws 0 / 1 / -1 / -2 / 2^128 for the random point. Non-trivial = implementation output is not a bare err",
    ["the random source is whatever the caller supplies; the model consumes the same recorded words"], agree=True)
reg("C07", "C07",
    "every pair of a boundary lattice (0,1,2,3,12450,2^64-1,2^64,2^64+1,2^127..,2^128-1,2^128,p-1,p-2,(p-1)/2,(p+1)/2) plus seeded uniform "
    "elements under add/sub/mul; neg/double/square/invert/sqrt/pow (limb-boundary and full-width exponents) on every value; decoding of "
    "canonical strings, p, p+1, high-limb-set and random 24-byte strings; Fp::random limb triples; the published constants; secrets with an out-of-range element at every position handed to the dealer; "
    "limb level: every pair of ~40 internal Montgomery forms (0,1,2,12450,2^64-1,2^64,2^128-1,2^128,p-1, limb and carry boundaries, the published constants, seeded uniform) under add/sub/mul, "
    "neg/double/square/to_repr/is_odd/invert/sqrt/pow_vartime on each, from_repr, From<u64>, rounds of random - internal limbs of every result compared. "
    "Non-trivial = result is not none",
    ["the limb model is tied to ff_derive's output by translation of the macro-expanded source (straight-line parts) and by the limb-exact run on these operands (loop-shaped helpers)"], agree=True)


reg("C01", "C01",
    "seeded groups: thresholds 1,2,3,5,8 (to 64 thorough) x measurement lengths 0,1,5,15..17,32,158,159,166,167,400 (4096) x epochs incl. empty x "
    "n = t..2t clients with associated data None / empty / 1 B .. multi-block x locally derived or uniformly random client randomness; "
    "selections: all, a shuffled t-subset, a repeat placed between distinct shares inside the first t, all plus repeats, reversed with leading "
    "repeats; threshold 32 (64, 96 thorough); one generator used for three batches (local randomness, outside randomness, reassigned measurement). Observables: every report's bytes, recovery result, derived key, every strictly parsed payload. Non-trivial = recovery ok",
    ["fresh share points come from the OS RNG; the model evaluates the polynomial at the points the implementation drew",
     "sampler termination (premise of the theorem; observed on every case)"])
reg("C02", "C02",
    "per group (t in 2,3,4,5,8; to 64 thorough): every (t-1)-subset (t<=5), sampled sub-threshold sets padded with repeats, every forged threshold "
    "0..k, t+1, 2^32-1 on first / all shares, sub-threshold sets padded with foreign shares (other measurement / epoch / threshold) in every "
    "position class; scan of every report for client randomness, r0, r1, key, measurement; interpolated coefficients vs the model "
    "(non-zero, pairwise distinct, different across measurements); thresholds 256 and 258 (degree, key in the clear); epochs that are not text and differ in one invalid byte, measurements agreeing on 32 bytes / differing by a trailing zero, each completing t-1 own shares; the Shamir layer given non-adjacent repeats; generator reuse; forced draws for the share point. Non-trivial = case line distinct and implementation answered",
    ["pseudo-randomness of the coefficients and absence of secrets in the clear are measured on the generated cases, not proved",
     "MAC collision resistance (explicit MacCoincidence disjunct)"])
reg("C03", "C03",
    "pairs / triples of reports of one measurement whose associated data (1 B .. 1000 B) differs in a few positions spread over the cipher blocks; "
    "per group: XOR of ciphertexts vs XOR of payloads on the first 166 bytes (known finding) and on every 8-byte window beyond, scan of the "
    "report for associated data (head, middle, tail windows), every 16-byte window of the report tried as decryption key (every 5th group); empty measurements; ciphertext equal to payload on 4 consecutive positions; the sharing key (interpolated) searched in every report and required not to follow from fewer than t points (one group at threshold 34); C, D, tag and their XORs tried as key seed; reports of a measurement with a common 32-byte prefix / trailing zero / neighbouring non-text epoch must not open or pool; generator reuse. "
    "Non-trivial = distinct case line",
    ["a failure inside the class 'positions < 166' is the listed known finding; anything else is a violation"])
reg("C04", "C04",
    "families of triples that must be told apart: every split of short strings into measurement||epoch, thresholds differing in one bit / 0 / "
    "extremes, prefixes of one another, empty and zero-byte components, swapped components; plus groups of independent clients of one triple "
    "with different associated data (equal tags, equal share fields, distinct points not all below 2^64, the WASM key opens every report); long measurements agreeing on 16..400 leading bytes, trailing zeros; generator reuse. Non-trivial = distinct case line",
    ["distinctness of share points is a statement about OS randomness: measured on the generated clients, not proved",
     "injectivity holds up to the explicit DigestCollision event"])
reg("C05", "C05",
    "three sharings (different message, coins, threshold) per group; six mixture classes with the first share from sharing 0; single-byte "
    "faults (bit flip, +1, 0x00, 0xff) at sampled (thorough: all) positions of every field (threshold, point, value, C, D, J) of the first "
    "and of the second share; the whole share point of the first share replaced by 0, p-1, another share's; fixed witnesses of both known findings; a fixed group with a 40-byte message and 45-byte coins. Non-trivial = distinct case line",
    ["MAC collision resistance (explicit MacCoincidence disjunct)"])
reg("C08", "C08",
    "honest shares / reports / Shamir shares over the C01 generators; malformed stream: every prefix, every length field set to "
    "0,1,23,24,25,47,48,64,2^31-1,2^31,2^32-5..2^32-1 and own value +-1,+-24, bit/byte faults at every offset (sampled for long strings), "
    "trailing bytes, splices, random strings; expected accept/reject and canonical re-encoding from an independent parser of the layout "
    "(harness/src/layout.rs); the shortest honest shares (message, coins of 0 / 1 / 16 bytes, threshold widths), a Shamir chunk with 1..23 surplus bytes, minimal strings all of whose length prefixes are satisfied. Non-trivial = decoder accepted",
    [])
reg("C09", "C09",
    "the malformed streams of C08 (decoders), degenerate share lists for recovery (no y, thresholds 0 and 2^32-1), every call under catch_unwind "
    "with overflow checks on; forged share points inside an honest quorum (0, p-1, a copied point; a y-less share with its own point first / middle / last); lines of unequal length and non-ASCII characters at byte offsets 0..15 for the grouping call; Client::unblind on undecodable answers (known finding); a panic is a property failure. Non-trivial = decoder accepted or recovery answered ok",
    ["aborts inside dependencies (allocation failure) are outside the model"])


GGM_RULE = ("histories on a fresh key (real OS secrets, read back through the hook): every 5th (thorough: every) single puncture with sibling/cousin "
    "evaluations and a double puncture; ordered pairs (sibling-first at every level, cousins; thorough: 5 partners for all 256); subsets of four "
    "8-leaf sub-domains (aligned, top, unaligned, bit-reversed) in seeded orders (thorough: all 256 subsets each); long sequences "
    "(random, sibling-first, descending, subtree-last) up to complete puncturing with wrong-length inputs (0, 2, 32, 33, 65, 97, 256, 257 bytes) sprinkled in. Per step: result code, "
    "64-bit digest of the retained key material; final state in full; full 256-input sweeps after each puncture on short histories and every "
    "16th. Non-trivial = history with at least one successful puncture")
reg("C10", "C10", GGM_RULE, ["distinctness of values holds up to an explicit PRG collision"])
reg("C11", "C11", GGM_RULE + "; retained nodes are read out of the key state (hook verif_key_state) after every puncture",
    ["one-wayness of the PRG (STROBE) is assumed, not proved: the theorem is the structural absence of path nodes"])


reg("C17", "C17",
    "create_share over measurements (arbitrary bytes incl. invalid UTF-8 and empty), thresholds 1,2,3,5, epoch strings incl. empty and non-ASCII; "
    "every output checked field by field against the core derivations and compared byte for byte with the model (share point read back); "
    "group_shares on: t distinct shares, a repeat ahead of t distinct ones, t-1 padded, another epoch, a foreign share first, undecodable / empty / "
    "three-zero-byte input, trailing newline, non-canonical padding; white-space epochs and epochs differing only in white space; the other-epoch call directly after the clients'-epoch call; thresholds 256 / 300 / 511; a non-adjacent repeat; a threshold-1 share moved to a point >= 2^128; sharing keys with a zero first / last byte (searched). Non-trivial = JSON produced or key returned",
    ["star-wasm is called natively (rlib), not through wasm-bindgen glue"])
reg("C18", "C18",
    "multisets of honest reports for one epoch and threshold (1..4): 2..10 (thorough: ..60) groups of sizes t-1, t, t+1, random, associated data "
    "absent / non-empty / empty per client, shuffled; the implementation runs under rayon pools of 1,2,3,4,8,16 threads, each on a re-shuffled input; "
    "output compared as a multiset (sorted) with the sequential model and with the expected one-entry-per-qualifying-measurement; one submission of over a thousand reports per run; epoch labels with white space; associated data above 1 KiB. Non-trivial = some output",
    ["rayon scheduling and HashMap iteration order are not modelled; results are compared as multisets under several pool sizes",
     "tags of different measurements are assumed distinct (digest collision otherwise)"])


PP_TB = ["group oracle: ristretto255 operations are answered by curve25519-dalek through `verif-harness oracle` (valid/mul/add/hash on 32-byte encodings); "
         "the theorems assume GrpLaws (prime-order group laws on encodings) as an explicit premise"]
reg("C12", "C12",
    "inputs of length 0,1,15,64,165,166,167,200,400 on servers with tag sets {0,1,2} / {5,255}, verifiable and not; per input 3 independently blinded "
    "requests x every tag: blinded point, evaluation, unblinding, direct evaluation of the unblinded input point, finalised output; outputs compared across "
    "requests (equal), tags / a neighbouring input / inputs with a trailing NUL, newline, CR-LF / an independently keyed server (different); tag lists out of order and with repeats; every answer checked against the key the public key commits to; requests after punctures of other tags; inputs that are prefixes of one another in sequence, compared with a fresh thread; unblinding through the 32-byte constructor; finalisation on a fresh thread; a server replaced in place. Non-trivial = an evaluation or output was produced",
    ["freshness of the blinding scalar is OS randomness (measured: blinded points pairwise distinct)", "ell is proved prime and sc_inv proved the inverse mod ell (C12_ell_prime, C12_scalar_inverse); only GrpLaws remains a premise"], PP_TB)
reg("C13", "C13",
    "per group an honest verifiable evaluation (also restored from JSON) and every single-component replacement: proof scalars +-1, 0, swapped; "
    "output = identity, input point, output under another tag / for another point / of another server, +G, flipped bytes; input likewise; tag; "
    "public key of another server; every public-key component replaced by identity / other server's / flipped / undecodable; proofs issued for another "
    "tag / by another server; commitments t2 = sG + c.pk recomputed for every proof issued (pairwise distinct), also for proofs issued by 4 concurrent server threads; proof scalars written as value + group order; output, input and key points with the top bit of the encoding set; the honest evaluation of the neutral request. Non-trivial = distinct case line",
    ["special soundness is proved; full soundness additionally needs the random-oracle argument for the challenge hash (tested by the replacement campaign, not proved)", "nonce freshness is OS randomness (measured)"], PP_TB)
reg("C14", "C14",
    "seeded histories (depth 12..40; thorough 40..400) over {evaluate (verifiable or not), puncture, clone, export+import into a fresh instance, "
    "export+import into an existing instance} on up to 5 instances, tag sets {0,1},{0,255},{2,6},{0..4,128,254,255},{7} with registered, unregistered, "
    "adjacent and extreme tags, tag lists out of order and with a repeated tag; exported key states loaded back (honest, every strict prefix, targeted damage, trailing bytes); scripted openings (resync of an instance holding an earlier state; clone-and-diverge). Per op result compared with the "
    "model; final key material of every instance compared in full. Non-trivial = history with a successful evaluation",
    ["the exported key-state bytes (bincode of key, public key, bitvec prefixes, punctured list) are modelled and compared by digest on every export; "
     "the reader of the exported bytes is modelled in the canonical form bincode/bitvec write (head index 0, exact word count, two PRG keys) and import(export s) = s is proved; "
     "bitvec's tolerance of a non-zero head index or surplus words is not modelled"], PP_TB)
reg("C15", "C15",
    "public keys over tag-set sizes 0,1,2,8,255,256 (thorough 0..256): binary round trip, equality, interchangeability in verification, every truncation "
    "(small keys), lengths at and around both limits, huge / duplicate / trailing entries, random strings; proofs: canonical and non-canonical scalars, "
    "short, long; JSON round trip of points and evaluations incl. truncated and damaged JSON, point arrays of 0..31 and 33 numbers, the neutral element, == on restored points and keys (also for 32 bytes that are no point). Non-trivial = loader accepted",
    ["JSON: the compact grammar serde_json emits is modelled (round trip proved, output compared byte for byte); serde_json's acceptance of insignificant whitespace is not modelled"], PP_TB)


def nontrivial(prop, c):
    imp = c.get("impl") or ""
    if prop in ("C10", "C11"):
        return "ok#" in imp
    if prop in ("C12", "C13", "C14"):
        return "ok:" in imp or imp in ("true",) or len(imp) >= 64
    return imp not in ("err", "none", "") and not imp.startswith("driver-error")


def hexbytes(h):
    if h == "-":
        return []
    return [int(h[i:i + 2], 16) for i in range(0, len(h), 2)]


def coq_bytes(h):
    b = hexbytes(h)
    return "([" + "; ".join(str(x) for x in b) + "]%N : list N)"


def coq_list(items):
    return "[" + "; ".join(items) + "]"


def parse_coq_value(text):
    """parse '= [[1%N; 2%N]; []] : type' into nested python lists of ints"""
    text = text.strip()
    m = re.match(r"=\s*(.*)", text, re.S)
    if m:
        text = m.group(1)
    # cut the trailing ': type'
    depth = 0
    end = len(text)
    for i, ch in enumerate(text):
        if ch in "[(":
            depth += 1
        elif ch in "])":
            depth -= 1
        elif ch == ":" and depth == 0:
            end = i
            break
    text = text[:end]
    toks = re.findall(r"\[|\]|;|\(|\)|,|\d+|true|false|[A-Za-z_][A-Za-z_0-9]*", text.replace("%N", "").replace("%Z", "").replace("%nat", ""))
    pos = [0]

    def val():
        t = toks[pos[0]]
        if t == "[":
            pos[0] += 1
            items = []
            while toks[pos[0]] != "]":
                items.append(val())
                if toks[pos[0]] == ";":
                    pos[0] += 1
            pos[0] += 1
            return items
        if t == "(":
            pos[0] += 1
            items = []
            while toks[pos[0]] != ")":
                items.append(val())
                if toks[pos[0]] == ",":
                    pos[0] += 1
            pos[0] += 1
            return tuple(items)
        pos[0] += 1
        if t.isdigit():
            return int(t)
        return t

    return val()


def anchor_terms(prop, cases, model_out, k):
    """(coq term, expected python value) for up to k cases, cheapest first"""
    picks = []
    for c, m in zip(cases, model_out):
        w = c["case"].split(" ")
        if len(c["case"]) > 6000:
            continue
        if w[0] == "adss.recover" and len(w) <= 6:
            term = "anchor_adss_recover " + coq_list([coq_bytes(x) for x in w[1:]])
            if m.startswith("ok "):
                exp = [hexbytes(x) for x in m.split(" ")[1:]]
            elif m == "err":
                exp = []
            else:
                continue
            picks.append((term, exp))
        elif w[0] == "star.derive":
            term = "anchor_star_derive %s %s %s%%N" % (coq_bytes(w[1]), coq_bytes(w[2]), w[3])
            exp = [hexbytes(x.split("=")[1]) for x in m.split(" ")]
            picks.append((term, exp))
        elif w[0] == "sharks.recover" and len(w) <= 8:
            term = "anchor_sharks_recover %s%%N %s" % (w[1], coq_list([coq_bytes(x) for x in w[2:]]))
            if m.startswith("ok "):
                exp = [hexbytes(m.split(" ")[1])]
            elif m == "err":
                exp = []
            else:
                continue
            picks.append((term, exp))
        elif w[0] == "ggm.run" and 1 <= len(w) - 5 <= 5 and " | " in m:
            ops = []
            for t in w[5:]:
                ops.append(("GEval " if t[0] == "e" else "GPunct ") + coq_bytes(t[1:] if len(t) > 1 else "-"))
            term = "anchor_ggm %s %s %s %s %s" % (coq_bytes(w[1]), coq_bytes(w[2]), coq_bytes(w[3]), coq_bytes(w[4]), coq_list(ops))
            res, state = m.split(" | ")
            exp = []
            for r in res.split(" "):
                if r.startswith("v:"):
                    exp.append(hexbytes(r[2:]))
                elif r.startswith("E:"):
                    exp.append([1])
                else:
                    exp.append([0])
            pf = state.split("] [")[0].lstrip("[")
            for ent in (pf.split(",") if pf else []):
                bits, seed = ent.split(":")
                exp.append([int(ch) for ch in bits])
                exp.append(hexbytes(seed))
            picks.append((term, exp))
        elif w[0] == "star.scn" and len(c["case"]) < 1500 and m.startswith("wire=") and int(w[3]) <= 2:
            n = int(w[5])
            cl = []
            for i in range(n):
                a, x = w[6 + 2 * i], w[7 + 2 * i]
                aux = "None" if a == "~" else "(Some %s)" % coq_bytes(a)
                cl.append("(%s, mkfp (Z.of_N (le_of_bytes %s)))" % (aux, coq_bytes(x)))
            sel = w[6 + 2 * n:]
            rnd = "None" if w[4] == "L" else "(Some %s)" % coq_bytes(w[4])
            term = "anchor_star_scn %s %s %s%%N %s %s %s" % (coq_bytes(w[1]), coq_bytes(w[2]), w[3], rnd, coq_list(cl), coq_list([x + "%nat" for x in sel]))
            parts = dict(p.split("=", 1) for p in m.split(" ") if "=" in p)
            exp = [hexbytes(x) for x in parts["wire"].split(",")]
            exp.append(hexbytes(parts["rec"][3:]) if parts["rec"].startswith("ok:") else [])
            exp.append(hexbytes(parts["key"]))
            picks.append((term, exp))
        elif w[0] == "fp.bin":
            term = "anchor_fp_bin %s %s %s" % ({"add": "0", "sub": "1", "mul": "2"}[w[1]] + "%N", coq_bytes(w[2]), coq_bytes(w[3]))
            picks.append((term, hexbytes(m)))
        if len(picks) >= k:
            break
    return picks
