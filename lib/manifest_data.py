HOOK_COMMITS = ["c3ec995"]
NOTES = ("All checks share one Coq development and one harness; ./check --setup builds everything from files on disk. "
         "Fix commits in /repo (F1-F7) are listed in known_findings.json as fixed entries.")
NOT_APPLICABLE = {}
CHECKS = {
    "C06": {
        "text": "Theorems over the Gallina model of sharks: Lagrange interpolation at zero in the code's shape over the field Fp (root bound by "
                "synthetic division), recovery from any collection with t distinct points (order, duplicates, surplus), refusal of too few / "
                "unequal / threshold 0, dealer structure (constant terms = decoded secret elements, other coefficients = consecutive draws), "
                "refusal of out-of-range secrets, non-zero random points. The model IS the independent big-integer implementation; it is "
                "compared bit-exactly with the Rust under a recorded random source on every run.",
        "note": "Trusted: Coq kernel, extraction, harness, the model's reading of ff_derive's random (validated by correspondence).",
    },
    "C07": {
        "text": "prime(2^128+12451) by a kernel-checked Pratt certificate; Fp is a field (field_theory), inversion/pow/sqrt meet their "
                "specifications (Fermat proved from the generator), one canonical 24-byte encoding, rejection exactly of length<>24 or value>=p, "
                "generator of order p-1 and non-residue, ROOT_OF_UNITY=-1, DELTA=g^2, TWO_INV - all over the constants regenerated from the "
                "source attributes. The ff_derive limb arithmetic itself is compared with the model on a boundary lattice squared (translation-"
                "validation flavour), not proved.",
        "note": "Trusted: Coq kernel + vm_compute for the certificate; the tie to ff_derive's generated code is the differential run.",
    },
    "C16": {
        "text": "Theorems over the Gallina model of adss (any message/coin length, any threshold, any permutation F in place of Keccak-f): "
                "recovery from t distinct points returns the shared (t, M, R); everything but the share point is a function of (t,M,R,T); "
                "threshold 0 never recovers; re-sharing lies on the same polynomial. The model is tied to the Rust by a bit-exact "
                "differential run on every check.",
        "note": "Trusted: Coq kernel, extraction (ExtrOcamlBasic), the hand-written model validated by correspondence, gen_params.py, the harness. "
                "Assumed: sampler termination as an explicit premise; MAC collision events appear as explicit disjuncts, never as hypotheses.",
    },
}
