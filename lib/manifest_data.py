HOOK_COMMITS = ["c3ec995"]
NOTES = ("All checks share one Coq development and one harness; ./check --setup builds everything from files on disk. "
         "Fix commits in /repo (F1-F7) are listed in known_findings.json as fixed entries.")
NOT_APPLICABLE = {}
CHECKS = {
    "C12": {
        "text": "Proved over any group satisfying explicit prime-order laws: unblinding an evaluation of the blinded point equals the evaluation of the unblinded point for every invertible blinding; the server's answer is exponent*point with exponent 1/(key+PRF(tag)) under every history; blinding hides the point iff r<>1; different exponents give different outputs; answers do not depend on which other tags were punctured before (C12_history_independent); finalize is the labelled digest of input, tag and unblinded point. ell is proved prime (Pratt certificate) and the model's scalar inversion is proved to be the inverse mod ell. The model (scalars, hashes, transcripts concrete; group operations through a dalek oracle) is bit-exact with the Rust on every run.",
        "note": 'Partial: the group laws of ristretto255 encodings are a premise (GrpLaws); freshness of blinding is measured.',
    },
    "C13": {
        "text": "Completeness of the batched DLEQ proof proved for any batch, key, nonce, hash and group satisfying the laws; special soundness proved (two accepting transcripts with different challenges on one commitment force z = k*m; with ell proved prime any two different challenges do); binary round trip of proofs proved; malformed proofs rejected. The model's verifier is bit-exact with the Rust's, and every single-component replacement, including a rogue prover that hashes the honest public key, is tried against the Rust on every run (a false accept is reported with the tuple); nonce freshness measured by recomputing every commitment.",
        "note": 'Partial: turning special soundness into soundness needs the random-oracle argument for the challenge hash, not proved here.',
    },
    "C14": {
        "text": "Refinement proved: for every operation history over a family of instances (evaluate, puncture, clone, export+import), each instance equals its creation state with its lineage's punctures applied; key / public key never change; an instance answers iff point decodable, tag registered and not punctured in its lineage, always with the same value (uses the GGM history theorem at depth 8). Histories incl. resync of existing instances are run against the Rust and the model on every check; key material and the exported key-state bytes (bincode of key, public key, GGM prefixes as bitvec, punctured list) are compared byte for byte through a digest; the reader of those bytes is modelled too and import(export s) = s is proved (C14_export_import), so the state copy used by the history theorem is what the byte-level reader computes; the premise of that theorem is proved for every reachable state (C14_export_import_reachable).",
        "note": 'The reader accepts the canonical form bincode/bitvec write (head index 0, exact word count); every strict prefix and targeted damages of an export are refused by model and Rust alike.',
    },
    "C15": {
        "text": "Proved: decode(encode)=id for public keys (sorted one-byte tags, up to 256) and proofs (canonical scalars); inputs above the limits are refused; every key fits under the limit declared in the source (regenerated constant). JSON forms of points and evaluations are modelled (serde_json's compact output; base64 output, number arrays) and decode(encode)=id proved; the Rust's serde_json output is compared byte for byte with the model and damaged JSON (truncation, bad base64, 256, leading zero, extra/missing element, non-canonical scalar) must be refused by both.",
        "note": "JSON: the canonical (whitespace-free) grammar is modelled; serde_json's tolerance of whitespace is not.",
    },
    "C17": {
        "text": "Proved for any F: create_share's output is the fixed JSON frame around base64 of exactly the key, a share and the tag of the core derivations; base64 decode(encode) = id for all byte strings, only canonical encodings accepted, alphabet needs no JSON escaping; group_shares = base64 + share decoding + share_recover + derive_ske_key, yields nothing on undecodable input, never panics; composition theorem: group_shares over the share fields of t honest create_share outputs (distinct points) returns exactly base64 of the key create_share reported; another epoch gives the same key only on a truncated-digest collision.",
        "note": 'The string API is called natively; wasm-bindgen glue is not modelled.',
    },
    "C18": {
        "text": "Proved for any F: the aggregator applied to ANY list of honest reports (any number of measurements, any interleaving) returns exactly one entry per tag held by >= threshold reports, in first-occurrence order, carrying the measurement and, per client of that tag, its associated data with empty reported as absent (C18_aggregate); a permutation of the input permutes tags, keeps which tags qualify and permutes each tag's clients (C18_perm_*); 'exactly the associated data' is refuted for empty associated data (known finding). Thread-count independence: sequential model vs the Rust under 6 pool sizes and shuffles on every run.",
        "note": "Partial for schedules: rayon's contract is not modelled. Known finding C18/empty-aux.",
    },
    "C10": {
        "text": "Theorems for ANY depth, ANY PRG, ANY puncture history (unbounded, any order, repetitions): an input evaluates iff never punctured, and then to its fresh-key value; fresh punctures succeed and add exactly that input; repeated punctures are refused without change; wrong lengths refused without change; values distinct up to an explicit PRG collision; at the code's depth (8 bits, Lsb0) different bytes are different inputs. Invariant: for every leaf the list of retained prefixes covering it is a singleton (unpunctured) or empty (punctured), with the node's own seed. The model is bit-exact (STROBE PRG) and compared with the Rust step by step including a digest of the retained key material.",
        "note": "GGM::setup's secrets are read back through the verif-hooks accessor; the model starts from them.",
    },
    "C11": {
        "text": 'Theorems for ANY depth / PRG / history: no retained prefix is a prefix of a punctured input; every unpunctured input has exactly one retained ancestor with its own seed; retained seeds are exactly node seeds; the root is never stored; the exported server state consists of exactly key, public key, retained prefixes with seeds and punctured list (C11_export_contents). The Rust key material is read through the hook after every puncture and compared with the model state (digest per step, full state at the end); exported key-state bytes compared on every export.',
        "note": 'Partial: that the remaining seeds do not let one recompute a punctured value is one-wayness of the PRG (assumed).',
    },
    "C03": {
        "text": "The keystream clause is refuted by proof: for any permutation F, ciphertext byte i < 166 is payload byte i XOR a key-only byte, "
                "so two reports of one measurement leak the XOR of their payloads on the first block (theorem C03_keystream_reuse_refuted; known "
                "finding, reported as KNOWN-FINDING). Outside that class (positions >= 166, associated data in the clear, a report window that "
                "decrypts) the check searches the Rust on every run and reports a violation.",
        "note": "Partial: 'reveals nothing' beyond the refuted clause is measured, not proved; keys are shared by design (theorem C03_shared_key).",
    },
    "C04": {
        "text": "Proved for any F: all clients of one (measurement, epoch, threshold, randomness) have the same tag, the same key and the same share "
                "fields except the point; the WASM entry point derives the same material; randomness / tag / key-seed / key derivations are injective "
                "up to an explicit digest collision, because measurement, epoch and threshold enter as separately framed STROBE operations.",
        "note": "Partial: share-point freshness is OS randomness (measured). Collision events are explicit disjuncts.",
    },
    "C01": {
        "text": "Theorem C01_recovery over the Gallina model, for any permutation F in place of Keccak-f: every report survives to_bytes/from_bytes, "
                "every collection of reports (subset, permutation, repeats, surplus) with t distinct shares recovers the shared value, and every report "
                "then opens to exactly (measurement, associated data) with None/empty/non-empty kept apart; any threshold 1 <= t < 2^32, any lengths "
                "that fit the 32-bit framing, any client randomness. Rests on Lagrange-at-zero over the proved field, STROBE enc/dec and MAC round "
                "trips (any F), and the codec round trips. Tied to the Rust by the bit-exact scenario run.",
        "note": "Premise: the coefficient sampler returned (observed). Share points are inputs of the model (OS RNG in the code).",
    },
    "C02": {
        "text": "Proved: fewer distinct points than the first share's threshold => Err (any padding); threshold 0 => Err; a rewritten threshold yields Err or an explicit MAC coincidence; dealer structure (t coefficients, consecutive separate draws); perfect secrecy of the polynomial layer: for ANY t-1 distinct non-zero points and ANY candidate secret there is a polynomial of at most t coefficients through those share values with that secret, and t points determine the polynomial. Measured on every run: non-zero / distinct coefficients, no secret in the clear.",
        "note": 'Partial: pseudo-randomness of the STROBE-derived coefficients is not a theorem. MacCoincidence is a concrete pair, never a hypothesis.',
    },
    "C05": {
        "text": "Proved for any F: recovery from ANY collection whose first share is honest returns that sharing or exhibits a MAC coincidence; an honest tag binds (t, M, R, T) up to a MAC coincidence; whatever is returned verifies under the first share's threshold and MAC; an altered tag is always rejected; non-first fields are ignored; never panics; the mechanism of the empty-sharing finding is a theorem (with M and R empty nothing depends on the sharing key). Fault campaign against the Rust on every run.",
        "note": 'Known findings C05/t1-share-point and C05/short-sharing (message and coins shorter than 16 bytes together) are listed in known_findings.json.',
    },
    "C08": {
        "text": 'Proved: decode(encode v) = v for Shamir shares, adss shares and reports; chunk helper round trip; an accepted chunk is the slice its header delimits; out-of-range elements rejected exactly; canonical form: whatever string a decoder accepts, re-encoding the decoded value gives the canonical string, which decodes to the same value (sharks, adss share, report); all four decoders total (no Panic outcome). Re-encoding also checked against an independent parser on every run.',
        "note": 'Model carries every slice operation of the Rust as a possibly-panicking primitive.',
    },
    "C09": {
        "text": "The model marks every panicking primitive of the Rust (slice indexing, unwrap) with an outcome Panic; theorems show it unreachable for "
                "all inputs for load_bytes, the three decoders, sharks recover and adss recover. The Rust is run under catch_unwind on the malformed "
                "streams; a panic is reported with the input. WASM grouping call: proved total. ppoprf loaders / eval / verify: total functions in the model, correspondence and panic capture on the Rust. Client::unblind on an undecodable answer panics (refuted clause, known finding C09/unblind-undecodable).",
        "note": "Partial: aborts inside dependencies are outside the model.",
    },
    "C06": {
        "text": "Theorems over the Gallina model of sharks: Lagrange interpolation at zero in the code's shape over the field Fp (root bound by "
                "synthetic division), recovery from any collection with t distinct points (order, duplicates, surplus), refusal of too few / "
                "unequal / threshold 0, dealer structure (constant terms = decoded secret elements, other coefficients = consecutive draws), "
                "refusal of out-of-range secrets, non-zero random points. The model IS the independent big-integer implementation; it is "
                "compared bit-exactly with the Rust under a recorded random source on every run. In addition the evaluation and interpolation "
                "loops instantiated with the limb operations that ff_derive generates (translated from the macro-expanded source) are proved to "
                "return, for all inputs, the Montgomery form of what the big-integer instantiation returns (C06_limbs_evaluate, "
                "C06_limbs_interpolate), and the unwrap inside interpolate is proved unreachable.",
        "note": "Trusted: Coq kernel, extraction, harness, gen_limbs.py, the model's reading of ff_derive's random (validated by correspondence).",
    },
    "C07": {
        "text": "prime(2^128+12451) by a kernel-checked Pratt certificate; Fp is a field (field_theory), inversion/pow/sqrt meet their "
                "specifications (Fermat proved from the generator), one canonical 24-byte encoding, rejection exactly of length<>24 or value>=p, "
                "generator of order p-1 and non-residue, ROOT_OF_UNITY=-1, DELTA=g^2, TWO_INV - all over the constants regenerated from the "
                "source attributes. The 64-bit limb code ff_derive generates for Fp (mul_assign, square, mont_reduce, the invert / sqrt "
                "addition chains, every constant: translated from rustc's macro-expanded source into Gallina on every run; add/sub/neg/double/"
                "from_repr/to_repr/random/pow_vartime: hand-modelled) is PROVED, for all limb triples below the modulus, to return limbs below "
                "the modulus that are the Montgomery form of the big-integer result (C07_limbs_*: ring operations, equality, invert, sqrt, "
                "pow_vartime, Montgomery reduction with its dropped carry, the 24-byte codec byte for byte, From<u64>, random, the constants, "
                "and a lifting theorem for every expression over the operators); the limb model is compared limb for limb with the Rust's "
                "internal representation on every run.",
        "note": "Trusted: Coq kernel + vm_compute for the certificate and the chain exponents; gen_limbs.py (reads rustc -Zunpretty=expanded "
                "output; stable toolchain with RUSTC_BOOTSTRAP=1 or cargo +nightly); the transcription of ff's mac/adc/sbb; the hand-modelled "
                "loop helpers (fingerprint of their expanded text recorded, limb-exact differential run).",
    },
    "C16": {
        "text": "Theorems over the Gallina model of adss (any message/coin length, any threshold, any permutation F in place of Keccak-f): "
                "recovery from t distinct points returns the shared (t, M, R); everything but the share point is a function of (t,M,R,T); "
                "threshold 0 never recovers; re-sharing lies on the same polynomial. The model is tied to the Rust by a bit-exact "
                "differential run on every check.",
        "note": "Known finding C16/short-sharing (message + coins shorter than 16 bytes: points of a sharing under another transcript are accepted when the wrong key decrypts alike; mechanism proved). Trusted: Coq kernel, extraction (ExtrOcamlBasic), the hand-written model validated by correspondence, gen_params.py, the harness. "
                "Assumed: sampler termination as an explicit premise; MAC collision events appear as explicit disjuncts, never as hypotheses.",
    },
}
