HOOK_COMMITS = ["c3ec995"]
NOTES = ("All checks share one Coq development and one harness; ./check --setup builds everything from files on disk. "
         "Fix commits in /repo (F1-F7) are listed in known_findings.json as fixed entries.")
NOT_APPLICABLE = {}
CHECKS = {
    "C16": {
        "text": "Theorems over the Gallina model of adss (any message/coin length, any threshold, any permutation F in place of Keccak-f): "
                "recovery from t distinct points returns the shared (t, M, R); everything but the share point is a function of (t,M,R,T); "
                "threshold 0 never recovers; re-sharing lies on the same polynomial. The model is tied to the Rust by a bit-exact "
                "differential run on every check.",
        "note": "Trusted: Coq kernel, extraction (ExtrOcamlBasic), the hand-written model validated by correspondence, gen_params.py, the harness. "
                "Assumed: sampler termination as an explicit premise; MAC collision events appear as explicit disjuncts, never as hypotheses.",
    },
}
