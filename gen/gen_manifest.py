#!/usr/bin/env python3
"""Writes MANIFEST.json from lib/manifest_data.py (kept in one place so it stays valid)."""
import json, os, sys
ROOT = os.path.dirname(os.path.dirname(os.path.abspath(__file__)))
sys.path.insert(0, os.path.join(ROOT, "lib"))
import manifest_data as D

props = [json.loads(l)["id"] for l in open(os.path.join(ROOT, "properties.jsonl"))]
checks = []
for pid in props:
    if pid in D.CHECKS:
        c = D.CHECKS[pid]
        checks.append({
            "property_id": pid,
            "quick_cmd": "./check %s --tier quick" % pid,
            "thorough_cmd": "./check %s --tier thorough" % pid,
            "evidence_file": "evidence/%s.json" % pid,
            "replay_cmd_template": "./check %s --replay {path}" % pid,
            "engine": "coq-model+correspondence",
            "level_claimed": {"category": "proof", "text": c["text"], "design_ref": c.get("design_ref", "DESIGN.md section 8")},
            "level_note": c["note"],
            "technique": c.get("technique", "machine-checked proof in Coq 8.16 over an executable Gallina model + differential correspondence against the Rust"),
        })
na = [{"property_id": pid, "reason": D.NOT_APPLICABLE.get(pid, "check not built yet in this round; see DESIGN.md")} for pid in props if pid not in D.CHECKS]
m = {
    "version": 1,
    "setup_cmd": "./check --setup",
    "hooks": {
        "guard": "cargo feature verif-hooks (crate ppoprf)",
        "enable": "the harness depends on ppoprf with features = [\"key-sync\", \"verif-hooks\"] (harness/Cargo.toml)",
        "baseline_off_cmd": "cd /repo && cargo test --workspace --no-fail-fast --offline",
        "source_commits": D.HOOK_COMMITS,
        "add_only": True,
    },
    "engines": [{"name": "coq-model+correspondence", "path": "check", "serves_properties": [c["property_id"] for c in checks],
                 "kind_free_text": "Coq 8.16.1 development (coq/), extracted OCaml model (ocaml/), Rust harness (harness/), Python driver (check)"}],
    "checks": checks,
    "not_applicable": na,
    "notes": D.NOTES,
}
json.dump(m, open(os.path.join(ROOT, "MANIFEST.json"), "w"), indent=1)
print("MANIFEST.json: %d checks, %d not claimed" % (len(checks), len(na)))
