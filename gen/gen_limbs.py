#!/usr/bin/env python3
"""Translator: the arithmetic that ff_derive *generates* for `star_sharks::Fp` -> coq/model/LimbGen.v

`#[derive(PrimeField)]` expands into straight-line 64-bit limb code (schoolbook multiplication,
squaring, Montgomery reduction, the addition chains of `invert` and `sqrt`) and a set of constants
(MODULUS_LIMBS, R, R2, INV, TWO_INV, GENERATOR, ROOT_OF_UNITY, ROOT_OF_UNITY_INV, DELTA, S, ...).
None of that text exists in /repo: it is produced by the proc macro from the three attributes on
`struct Fp`.  This translator asks rustc for the expanded source of the crate as it is *now*
(`cargo rustc -p star-sharks --lib -- -Zunpretty=expanded`, stable toolchain with RUSTC_BOOTSTRAP=1,
falling back to `cargo +nightly`), parses the bodies of `mul_assign`, `square`, `mont_reduce`,
`invert` and `sqrt` statement by statement and writes them as Gallina let-chains over the primitives
of model/LimbPrim.v; the theorems of proofs/LimbFacts.v are then re-checked against that text.

The loop-shaped helpers (`add_nocarry`, `sub_noborrow`, `cmp_native`, `is_valid`, `reduce`, `neg`,
`add_assign`, `sub_assign`, `double`, `from_repr`, `to_repr`, `random`) are modelled by hand in
model/FpLimbs.v; for those the translator records a fingerprint of the expanded body and reports a
warning when it differs from the one the hand model was written against (the limb-exact
correspondence run then decides whether behaviour changed).

The output is only rewritten when its content changes.  A cache keyed on the inputs of the macro
(share_ff.rs, the crate manifest, Cargo.lock) avoids re-running rustc when nothing changed.
exit 0: ok (warnings on stdout as `warning: ...`), exit 2: the expanded code could not be obtained or parsed.
"""
import hashlib
import json
import os
import re
import subprocess
import sys

REPO = os.environ.get("VERIF_REPO", "/repo")
HERE = os.path.dirname(os.path.abspath(__file__))
OUT = os.path.normpath(os.path.join(HERE, "..", "coq", "model", "LimbGen.v"))
CACHE_DIR = os.path.normpath(os.path.join(HERE, "..", "harness", "target", "expand"))
STAMP = os.path.join(CACHE_DIR, "stamp.json")


class Bad(Exception):
    pass


def input_hash():
    h = hashlib.sha256()
    for rel in ["sharks/src/share_ff.rs", "sharks/src/lib.rs", "sharks/Cargo.toml", "Cargo.lock", "Cargo.toml"]:
        p = os.path.join(REPO, rel)
        try:
            h.update(open(p, "rb").read())
        except OSError:
            h.update(b"<missing %s>" % rel.encode())
    h.update(open(os.path.abspath(__file__), "rb").read())
    return h.hexdigest()


def expand():
    os.makedirs(CACHE_DIR, exist_ok=True)
    env = dict(os.environ, CARGO_NET_OFFLINE="true", CARGO_TARGET_DIR=os.path.join(CACHE_DIR, "target"))
    attempts = [
        (["cargo", "rustc", "--offline", "-p", "star-sharks", "--lib", "--", "-Zunpretty=expanded"], dict(env, RUSTC_BOOTSTRAP="1")),
        (["cargo", "+nightly", "rustc", "--offline", "-p", "star-sharks", "--lib", "--", "-Zunpretty=expanded"], env),
    ]
    errs = []
    for cmd, e in attempts:
        try:
            p = subprocess.run(cmd, cwd=REPO, env=e, capture_output=True, text=True, timeout=900)
        except Exception as ex:  # noqa
            errs.append(str(ex))
            continue
        if p.returncode == 0 and "fn mont_reduce" in p.stdout:
            return p.stdout
        errs.append(p.stderr[-600:])
    raise Bad("could not expand star-sharks: " + " | ".join(errs))


def body_after(text, header_re, what):
    """the brace-balanced body following the first match of header_re"""
    m = re.search(header_re, text, re.S)
    if not m:
        raise Bad("not found in the expanded source: " + what)
    i = text.index("{", m.end() - 1)
    depth, j = 0, i
    while True:
        c = text[j]
        if c == "{":
            depth += 1
        elif c == "}":
            depth -= 1
            if depth == 0:
                return text[i + 1:j]
        j += 1


def norm(s):
    return re.sub(r"\s+", " ", s).strip()


def const_limbs(text, name):
    m = re.search(r"const %s: Fp\s*=\s*Fp\(\[([^\]]*)\]\)" % name, text, re.S)
    if not m:
        raise Bad("constant %s" % name)
    xs = [int(re.sub(r"u64|\s", "", x)) for x in m.group(1).split(",") if x.strip()]
    if len(xs) != 3:
        raise Bad("constant %s does not have 3 limbs" % name)
    return xs


def const_num(text, name, ty):
    m = re.search(r"const %s: %s\s*=\s*(\d+)(?:u64|u32)?\s*;" % (name, ty), text)
    if not m:
        raise Bad("constant %s" % name)
    return int(m.group(1))


# ---------------------------------------------------------------- expressions
TOK = re.compile(r"\s*(::ff::derive::mac|::ff::derive::adc|::ff::derive::sbb|MODULUS_LIMBS\.0|self\.0|other\.0|\.wrapping_mul|>>|<<|[A-Za-z_][A-Za-z_0-9]*|\d+(?:usize|u64|u32)?|[()\[\],|*])")


def tokens(s):
    out, i = [], 0
    s = s.strip()
    while i < len(s):
        m = TOK.match(s, i)
        if not m:
            raise Bad("cannot tokenise expression: %r at %r" % (s, s[i:i + 20]))
        out.append(m.group(1))
        i = m.end()
    return out


class P:
    def __init__(self, toks, src):
        self.t, self.i, self.src = toks, 0, src

    def peek(self):
        return self.t[self.i] if self.i < len(self.t) else None

    def eat(self, x=None):
        v = self.peek()
        if v is None or (x is not None and v != x):
            raise Bad("expression %r: expected %r, found %r" % (self.src, x, v))
        self.i += 1
        return v

    def expr(self):  # |
        a = self.shift()
        while self.peek() == "|":
            self.eat()
            a = "(lor64 %s %s)" % (a, self.shift())
        return a

    def shift(self):
        a = self.post()
        while self.peek() in (">>", "<<"):
            op = self.eat()
            b = self.post()
            a = "(%s %s %s)" % ("shr64" if op == ">>" else "shl64", a, b)
        return a

    def index(self):
        self.eat("[")
        n = int(re.sub(r"usize|u64|u32", "", self.eat()))
        self.eat("]")
        return n

    def post(self):
        a = self.atom()
        while self.peek() == ".wrapping_mul":
            self.eat()
            self.eat("(")
            b = self.expr()
            self.eat(")")
            a = "(wmul64 %s %s)" % (a, b)
        return a

    def atom(self):
        v = self.eat()
        if v == "(":
            a = self.expr()
            self.eat(")")
            return a
        if v in ("::ff::derive::mac", "::ff::derive::adc", "::ff::derive::sbb"):
            self.eat("(")
            args = [self.expr()]
            while self.peek() == ",":
                self.eat()
                args.append(self.expr())
            self.eat(")")
            return "(%s %s)" % (v.split("::")[-1], " ".join(args))
        if v == "self.0":
            return "a%d" % self.index()
        if v == "other.0":
            return "b%d" % self.index()
        if v == "MODULUS_LIMBS.0":
            return "m%d" % self.index()
        if re.fullmatch(r"\d+(?:usize|u64|u32)?", v):
            return re.sub(r"usize|u64|u32", "", v)
        if v == "INV":
            return "INV"
        if re.fullmatch(r"[A-Za-z_][A-Za-z_0-9]*", v):
            return v
        raise Bad("expression %r: unexpected %r" % (self.src, v))


def tr_expr(s):
    p = P(tokens(s), s)
    e = p.expr()
    if p.peek() is not None:
        raise Bad("expression %r: trailing %r" % (s, p.peek()))
    return e


def tr_straight(body, what):
    """statements of a straight-line limb function -> (list of Gallina let lines, final call args or assigned limbs)"""
    lines, final, assigned = [], None, {}
    for st in [norm(x) for x in body.split(";")]:
        if not st or st in ("ret", "let mut ret = *self", "self.reduce()"):
            if st == "self.reduce()":
                final = ("reduce", [assigned[i] for i in range(3)])
            continue
        m = re.fullmatch(r"let \((_|[a-z][a-z0-9]*), (_|[a-z][a-z0-9]*)\) = (.*)", st)
        if m:
            lines.append("let '(%s, %s) := %s in" % (m.group(1), m.group(2), tr_expr(m.group(3))))
            continue
        m = re.fullmatch(r"let (?:mut )?([a-z][a-z0-9]*) = (.*)", st)
        if m:
            lines.append("let %s := %s in" % (m.group(1), tr_expr(m.group(2))))
            continue
        m = re.fullmatch(r"(?:self|ret)\.mont_reduce\((.*)\)", st)
        if m:
            final = ("mont_reduce", [tr_expr(x) for x in m.group(1).split(",")])
            continue
        m = re.fullmatch(r"self\.0\[(\d+)(?:usize)?\] = ([a-z][a-z0-9]*)", st)
        if m:
            assigned[int(m.group(1))] = m.group(2)
            continue
        raise Bad("%s: statement not understood: %r" % (what, st))
    if final is None:
        raise Bad("%s: no final mont_reduce / reduce" % what)
    return lines, final


def tr_chain(body, what):
    """addition chain `let tN = tM.square();` / `let tN = tA * tB;` -> list of Gallina chain steps"""
    m = re.search(r"let (?:inv|sqrt) =\s*\{(.*?)\};", body, re.S)
    if not m:
        raise Bad("%s: chain block not found" % what)
    steps, n, result = [], 0, None
    for st in [norm(x) for x in m.group(1).split(";")]:
        if not st:
            continue
        if st == "let t0 = self":
            continue
        mm = re.fullmatch(r"let t(\d+) = t(\d+)\.square\(\)", st)
        if mm:
            n += 1
            if int(mm.group(1)) != n:
                raise Bad("%s: chain not numbered consecutively at %r" % (what, st))
            steps.append("CSq %d" % int(mm.group(2)))
            continue
        mm = re.fullmatch(r"let t(\d+) = t(\d+) \* t(\d+)", st)
        if mm:
            n += 1
            if int(mm.group(1)) != n:
                raise Bad("%s: chain not numbered consecutively at %r" % (what, st))
            steps.append("CMul %d %d" % (int(mm.group(2)), int(mm.group(3))))
            continue
        mm = re.fullmatch(r"t(\d+)", st)
        if mm:
            result = int(mm.group(1))
            continue
        raise Bad("%s: chain statement not understood: %r" % (what, st))
    if result != n:
        raise Bad("%s: chain result is t%s, last step is t%d" % (what, result, n))
    return steps


# fingerprints of the helpers that are modelled by hand (model/FpLimbs.v)
HAND = {
    "cmp_native": r"fn cmp_native\(&self, other: &Fp\)[^{]*",
    "is_valid": r"fn is_valid\(&self\)[^{]*",
    "add_nocarry": r"fn add_nocarry\(&mut self, other: &Fp\)\s*",
    "sub_noborrow": r"fn sub_noborrow\(&mut self, other: &Fp\)\s*",
    "reduce": r"fn reduce\(&mut self\)\s*",
    "neg": r"fn neg\(self\) -> Fp\s*",
    "add_assign": r"fn add_assign\(&mut self, other: &Fp\)\s*",
    "sub_assign": r"fn sub_assign\(&mut self, other: &Fp\)\s*",
    "double": r"fn double\(&self\) -> Self\s*",
    "from_repr": r"fn from_repr\(r: FpRepr\)[^{]*",
    "to_repr": r"fn to_repr\(&self\) -> FpRepr\s*",
    "random": r"fn random\(mut rng: impl ::ff::derive::rand_core::RngCore\) -> Self\s*",
    "is_zero_vartime": r"fn is_zero_vartime\(&self\) -> bool\s*",
    "from_u64": r"fn from\(val: u64\) -> Fp\s*",
}
EXPECTED_FILE = os.path.join(HERE, "limb_fingerprints.json")


def generate(text):
    warnings = []
    consts = {n: const_limbs(text, n) for n in ["MODULUS_LIMBS", "R", "R2", "TWO_INV", "GENERATOR", "ROOT_OF_UNITY", "ROOT_OF_UNITY_INV", "DELTA"]}
    inv = const_num(text, "INV", "u64")
    s_ = const_num(text, "S", "u32")
    bits = const_num(text, "MODULUS_BITS", "u32")
    shave = const_num(text, "REPR_SHAVE_BITS", "u32")
    mul_lines, mul_final = tr_straight(body_after(text, r"fn mul_assign\(&mut self, other: &Fp\)\s*\{", "mul_assign"), "mul_assign")
    sq_lines, sq_final = tr_straight(body_after(text, r"fn square\(&self\) -> Self\s*\{", "square"), "square")
    mr_lines, mr_final = tr_straight(body_after(text, r"fn mont_reduce\(&mut self,[^)]*\)\s*\{", "mont_reduce"), "mont_reduce")
    m = re.search(r"fn mont_reduce\(&mut self,([^)]*)\)", text, re.S)
    mr_args = re.findall(r"(?:mut )?(r\d+): u64", m.group(1))
    if mul_final[0] != "mont_reduce" or sq_final[0] != "mont_reduce" or mr_final[0] != "reduce":
        raise Bad("unexpected final statements")
    inv_chain = tr_chain(body_after(text, r"fn invert\(&self\)[^{]*\{", "invert"), "invert")
    sqrt_chain = tr_chain(body_after(text, r"fn sqrt\(&self\)[^{]*\{", "sqrt"), "sqrt")
    # how invert / sqrt wrap their chain
    inv_body = norm(body_after(text, r"fn invert\(&self\)[^{]*\{", "invert"))
    sqrt_body = norm(body_after(text, r"fn sqrt\(&self\)[^{]*\{", "sqrt"))
    if "CtOption::new(inv, !self.is_zero())" not in inv_body:
        warnings.append("invert: result wrapper changed")
    if "CtOption::new(sqrt, (sqrt * &sqrt).ct_eq(self))" not in sqrt_body:
        warnings.append("sqrt: result wrapper changed")
    # fingerprints of the hand-modelled helpers
    fps = {}
    for name, hdr in HAND.items():
        try:
            fps[name] = hashlib.sha256(norm(body_after(text, hdr + r"\{", name)).encode()).hexdigest()[:12]
        except Bad:
            fps[name] = "missing"
    try:
        expected = json.load(open(EXPECTED_FILE))
    except OSError:
        expected = {}
    for name, fp in fps.items():
        if expected.get(name) != fp:
            warnings.append("hand-modelled helper %s: expanded body has fingerprint %s, the model was written against %s" % (name, fp, expected.get(name)))
    if os.environ.get("VERIF_LIMBS_PIN") == "1":
        json.dump(fps, open(EXPECTED_FILE, "w"), indent=1, sort_keys=True)

    def trip(xs):
        return "(%d, %d, %d)" % tuple(xs)

    o = []
    o.append("(* GENERATED by gen/gen_limbs.py from the macro-expanded source of star-sharks (ff_derive output for `struct Fp`).")
    o.append("   Do not edit: regenerated by every check. *)")
    o.append("From Coq Require Import ZArith List.")
    o.append("Import ListNotations.")
    o.append("From StarV Require Import LimbPrim.")
    o.append("Open Scope Z_scope.")
    o.append("")
    for n, xs in consts.items():
        o.append("Definition %s : limbs := %s." % (n, trip(xs)))
    o.append("Definition INV : Z := %d." % inv)
    o.append("Definition GEN_S : Z := %d." % s_)
    o.append("Definition GEN_MODULUS_BITS : Z := %d." % bits)
    o.append("Definition GEN_REPR_SHAVE_BITS : Z := %d." % shave)
    o.append("")
    o.append("(* fn mont_reduce(&mut self, %s) *)" % ", ".join(mr_args))
    o.append("Definition gl_mont_reduce (%s : Z) : limbs :=" % " ".join(mr_args))
    o.append("  let '(m0, m1, m2) := MODULUS_LIMBS in")
    for l in mr_lines:
        o.append("  " + l)
    o.append("  reduce MODULUS_LIMBS (%s, %s, %s)." % tuple(mr_final[1]))
    o.append("")
    o.append("(* impl MulAssign<&Fp> for Fp: fn mul_assign(&mut self, other: &Fp) *)")
    o.append("Definition gl_mul (a b : limbs) : limbs :=")
    o.append("  let '(a0, a1, a2) := a in let '(b0, b1, b2) := b in")
    for l in mul_lines:
        o.append("  " + l)
    o.append("  gl_mont_reduce %s." % " ".join(mul_final[1]))
    o.append("")
    o.append("(* fn square(&self) -> Self *)")
    o.append("Definition gl_square (a : limbs) : limbs :=")
    o.append("  let '(a0, a1, a2) := a in")
    for l in sq_lines:
        o.append("  " + l)
    o.append("  gl_mont_reduce %s." % " ".join(sq_final[1]))
    o.append("")
    for nm, ch in (("invert_chain", inv_chain), ("sqrt_chain", sqrt_chain)):
        o.append("(* the addition chain of `%s`: step k defines t_k from earlier t's (t_0 = self); the result is the last *)" % nm.split("_")[0])
        o.append("Definition %s : list cstep :=" % nm)
        rows = ["; ".join(ch[i:i + 8]) for i in range(0, len(ch), 8)]
        o.append("  [ " + ";\n    ".join(rows) + " ].")
        o.append("")
    return "\n".join(o) + "\n", warnings, fps


def main():
    h = input_hash()
    try:
        st = json.load(open(STAMP))
    except Exception:
        st = {}
    if st.get("hash") == h and os.path.exists(OUT) and hashlib.sha256(open(OUT, "rb").read()).hexdigest() == st.get("out") and os.environ.get("VERIF_LIMBS_PIN") != "1":
        for w in st.get("warnings", []):
            print("WARNING " + w)
        print("LimbGen.v up to date (inputs of the macro unchanged)")
        return 0
    try:
        text = expand()
        content, warnings, _ = generate(text)
    except Bad as e:
        print("gen_limbs: " + str(e))
        return 2
    old = open(OUT).read() if os.path.exists(OUT) else None
    if old != content:
        open(OUT, "w").write(content)
        print("LimbGen.v rewritten")
    else:
        print("LimbGen.v unchanged")
    for w in warnings:
        print("WARNING " + w)
    os.makedirs(CACHE_DIR, exist_ok=True)
    json.dump({"hash": h, "out": hashlib.sha256(content.encode()).hexdigest(), "warnings": warnings}, open(STAMP, "w"))
    return 0


if __name__ == "__main__":
    sys.exit(main())
