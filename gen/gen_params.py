#!/usr/bin/env python3
"""Translator: /repo sources -> coq/model/Params.v

Every value below is read out of the Rust sources with a regular expression
anchored on the constant / attribute / call it belongs to.  Named constants and the field attributes must be
found, otherwise the translator fails (exit 2) and the check reports the tie between
model and code as broken.  Labels and the few numbers that are read from a code
shape (a slice bound, a loop count) keep their previous value when the shape is
no longer found; a warning is recorded and the byte-exact correspondence decides
whether behaviour changed.  The file is only rewritten when
its content changes, so `make` rebuilds the dependent theorems exactly when a
constant in the source changed.
"""
import os
import re
import sys

REPO = os.environ.get("VERIF_REPO", "/repo")
OUT = os.path.join(os.path.dirname(os.path.abspath(__file__)), "..", "coq", "model", "Params.v")


def src(rel):
    with open(os.path.join(REPO, rel), encoding="utf-8") as f:
        return f.read()


class Missing(Exception):
    pass


def one(pattern, text, what, flags=re.S):
    m = re.search(pattern, text, flags)
    if not m:
        raise Missing(what)
    return m.group(1)


FALLBACKS = []


def previous_value(name):
    """value of a label in the last generated Params.v (used when a label can no longer be located:
    the byte-exact correspondence run then decides whether behaviour changed)"""
    try:
        text = open(os.path.normpath(OUT)).read()
    except OSError:
        return None
    m = re.search(r"Definition %s : list N := \[([0-9; ]*)\]%%N\." % re.escape(name), text)
    if not m:
        return None
    return bytes(int(x) for x in m.group(1).split(";") if x.strip())


def soft(name, thunk):
    try:
        return thunk()
    except Missing as e:
        prev = previous_value(name)
        if prev is None:
            raise
        FALLBACKS.append("%s (%s)" % (name, e))
        return prev


def previous_number(name):
    try:
        text = open(os.path.normpath(OUT)).read()
    except OSError:
        return None
    m = re.search(r"Definition %s : (?:Z|N|nat) := \(?(\d+)" % re.escape(name), text)
    return m.group(1) if m else None


def softnum(name, thunk):
    """a number read from a code shape (a slice bound, a loop count) rather than from a named constant: when the
    shape can no longer be located the previous value is kept, a warning is recorded, and the byte-exact
    correspondence decides whether behaviour changed"""
    try:
        return thunk()
    except Missing as e:
        prev = previous_number(name)
        if prev is None:
            raise
        FALLBACKS.append("%s (%s)" % (name, e))
        return prev


def coq_bytes(s):
    if isinstance(s, str):
        s = s.encode("utf-8")
    return "[" + "; ".join(str(b) for b in s) + "]%N"


def main():
    sf = src("sharks/src/share_ff.rs")
    ad = src("adss/src/lib.rs")
    st = src("star/src/lib.rs")
    gg = src("ppoprf/src/ggm.rs")
    pp = src("ppoprf/src/ppoprf.rs")
    rng = [src("adss/src/strobe_rng.rs"), src("star/src/strobe_rng.rs"), src("ppoprf/src/strobe_rng.rs")]
    ws = src("star-wasm/src/lib.rs")
    tu = src("star/test-utils/src/lib.rs")

    P = []  # (name, type, value, comment)

    def z(name, val, c):
        P.append((name, "Z", "(%s)%%Z" % val, c))

    def n(name, val, c):
        P.append((name, "N", "(%s)%%N" % val, c))

    def nat(name, val, c):
        if int(val) > 5000:
            raise Missing("nat constant too large for %s" % name)
        P.append((name, "nat", "%s%%nat" % val, c))

    def by(name, val, c):
        P.append((name, "list N", coq_bytes(val), c + " = " + repr(val)))

    # ---- sharks: the field ----
    z("modulus", one(r'#\[PrimeFieldModulus\s*=\s*"(\d+)"\]', sf, "PrimeFieldModulus"), "sharks/src/share_ff.rs PrimeFieldModulus")
    z("generator", one(r'#\[PrimeFieldGenerator\s*=\s*"(\d+)"\]', sf, "PrimeFieldGenerator"), "sharks/src/share_ff.rs PrimeFieldGenerator")
    endian = one(r'#\[PrimeFieldReprEndianness\s*=\s*"(\w+)"\]', sf, "PrimeFieldReprEndianness")
    P.append(("repr_little_endian", "bool", "true" if endian == "little" else "false", "sharks/src/share_ff.rs PrimeFieldReprEndianness"))
    limbs = one(r"pub struct Fp\(\[u64;\s*(\d+)\]\)", sf, "Fp limbs")
    nat("fp_limbs", limbs, "sharks/src/share_ff.rs struct Fp([u64; n])")
    nat("field_element_len", one(r"pub const FIELD_ELEMENT_LEN: usize = (\d+);", sf, "FIELD_ELEMENT_LEN"), "sharks FIELD_ELEMENT_LEN")

    # ---- adss ----
    nat("access_structure_length", one(r"pub const ACCESS_STRUCTURE_LENGTH: usize = (\d+);", ad, "ACCESS_STRUCTURE_LENGTH"), "adss ACCESS_STRUCTURE_LENGTH")
    nat("mac_length", one(r"pub const MAC_LENGTH: usize = (\d+);", ad, "MAC_LENGTH"), "adss MAC_LENGTH")
    def adss_labels():
        labels = re.findall(r'Strobe::new\(b"([^"]*)",\s*SecParam::B128\)', ad)
        if len(labels) != 4 or labels[0] != labels[2] or labels[1] != labels[3]:
            raise Missing("adss Strobe::new labels (expected transcript, encrypt, transcript, encrypt): %r" % labels)
        return labels
    by("lbl_adss", soft("lbl_adss", lambda: adss_labels()[0]), "adss transcript label (share and verify)")
    by("lbl_adss_encrypt", soft("lbl_adss_encrypt", lambda: adss_labels()[1]), "adss encryption label (share and recover)")
    nat("adss_key_len", softnum("adss_key_len", lambda: one(r"let mut K = \[0u8; (\d+)\];", ad, "adss K length")), "adss: length of K")
    nat("adss_key_pad", softnum("adss_key_pad", lambda: one(r"K_vec\.extend\(vec!\[0u8; (\d+)\]\);", ad, "adss K padding")), "adss: zero padding appended to K")
    nat("adss_key_take", softnum("adss_key_take", lambda: one(r"let K = key\s*\.get\(\.\.(\d+)\)", ad, "adss recover key prefix")), "adss recover: key[..n]")
    # ---- strobe rng (three identical copies) ----
    for i, r_ in enumerate(rng):
        if "self.strobe.meta_ad(&dest_len, false);" not in r_ or "self.strobe.prf(dest, false);" not in r_ or "(dest.len() as u32).to_le_bytes()" not in r_:
            FALLBACKS.append("strobe_rng.rs copy %d no longer has the expected fill_bytes shape (the model keeps meta_ad(len); prf(len))" % i)

    # ---- star ----
    nat("star_digest_len", one(r"pub const DIGEST_LEN: usize = (\d+);", st, "star DIGEST_LEN"), "star DIGEST_LEN")
    by("lbl_star_encrypt", soft("lbl_star_encrypt", lambda: one(r'Ciphertext::new\(&key, &data, "([^"]*)"\)', st, "star encrypt label")), "star ciphertext label")
    by("lbl_star_derive_randoms", soft("lbl_star_derive_randoms", lambda: one(r'&\[&\[i as u8\]\],\s*"([^"]*)"', st, "derive_random_values label")), "star derive_random_values label")
    by("lbl_star_sample_local", soft("lbl_star_sample_local", lambda: one(r'&\[&self\.epoch, &self\.threshold\.to_le_bytes\(\)\],\s*"([^"]*)"', st, "sample_local label")), "star sample_local_randomness label")
    by("lbl_star_derive_ske_key", soft("lbl_star_derive_ske_key", lambda: one(r'strobe_digest\(r1, &\[epoch\], "([^"]*)"', st, "derive_ske_key label")), "star derive_ske_key label")
    nat("star_n_randoms", softnum("star_n_randoms", lambda: one(r"for i in 0\.\.(\d+) \{\s*let mut to_fill = \[0u8; 32\];", st, "derive_random_values count")), "star: number of derived random values")
    nat("star_key_len", softnum("star_key_len", lambda: one(r"key_out\.copy_from_slice\(&to_fill\[\.\.(\d+)\]\);", st, "derive_ske_key truncation")), "star: derive_ske_key output length")
    by("lbl_agg_decrypt", soft("lbl_agg_decrypt", lambda: one(r'c\.decrypt\(&enc_key_buf, "([^"]*)"\)', tu, "aggregation decrypt label")), "test-utils decrypt label")

    # ---- ppoprf ----
    nat("ggm_inp_len", softnum("ggm_inp_len", lambda: one(r"GGM \{\s*inp_len: (\d+),", gg, "GGM inp_len")), "ggm: input length in bytes")
    by("lbl_ggm_keygen", soft("lbl_ggm_keygen", lambda: one(r'Strobe::new\(b"([^"]*)", SecParam::B128\);\s*t\.key\(&sample_secret\(\)', gg, "ggm key gen label")), "ggm prg key generation label")
    by("lbl_ggm_eval", soft("lbl_ggm_eval", lambda: one(r'Strobe::new\(b"([^"]*)", SecParam::B128\);\s*t\.key\(&self\.key, false\);\s*t\.ad\(input, false\);', gg, "ggm eval label")), "ggm prg eval label")
    nat("ggm_seed_len", softnum("ggm_seed_len", lambda: one(r"let mut out0 = vec!\[0u8; (\d+)\];", gg, "ggm seed length")), "ggm: seed length")
    nat("compressed_point_len", one(r"pub const COMPRESSED_POINT_LEN: usize = (\d+);", pp, "COMPRESSED_POINT_LEN"), "ppoprf COMPRESSED_POINT_LEN")
    nat("pp_digest_len", one(r"pub const DIGEST_LEN: usize = (\d+);", pp, "ppoprf DIGEST_LEN"), "ppoprf DIGEST_LEN")
    n("max_serialized_pk_size", one(r"pub const MAX_SERIALIZED_PK_SIZE: usize = (\d+);", pp, "MAX_SERIALIZED_PK_SIZE"), "ppoprf MAX_SERIALIZED_PK_SIZE")
    n("max_serialized_proof_size", one(r"pub const MAX_SERIALIZED_PROOF_SIZE: usize = (\d+);", pp, "MAX_SERIALIZED_PROOF_SIZE"), "ppoprf MAX_SERIALIZED_PROOF_SIZE")
    by("lbl_pp_client_input", soft("lbl_pp_client_input", lambda: one(r'strobe_hash\(input, "([^"]*)", &mut hashed_input\);', pp, "client input label")), "ppoprf blind label")
    by("lbl_pp_finalize", soft("lbl_pp_finalize", lambda: one(r'strobe_hash\(&hash_input, "([^"]*)", &mut untruncated\);', pp, "finalize label")), "ppoprf finalize label")
    nat("pp_finalize_len", softnum("pp_finalize_len", lambda: one(r"out\.copy_from_slice\(&untruncated\[\.\.(\d+)\]\);", pp, "finalize truncation")), "ppoprf finalize output length")
    def challenge_label():
        ch = re.findall(r'hash_to_scalar\(&challenge_transcript, "([^"]*)"\)', pp)
        if len(ch) != 2 or ch[0] != ch[1]:
            raise Missing("challenge labels of prover and verifier: %r" % ch)
        return ch[0]
    by("lbl_pp_challenge", soft("lbl_pp_challenge", challenge_label), "ppoprf DLEQ challenge label (prover and verifier)")
    by("lbl_pp_composite", soft("lbl_pp_composite", lambda: one(r'hash_to_scalar\(&composite_transcript, "([^"]*)"\)', pp, "composite label")), "ppoprf composite label")
    by("lbl_pp_seed", soft("lbl_pp_seed", lambda: one(r'strobe_hash\(&seed_transcript, "([^"]*)", &mut seed\);', pp, "seed label")), "ppoprf seed label")
    def context_string():
        m = re.search(r'format!\("\{\}-\{\}-\{\}", "([^"]*)", (0x[0-9a-fA-F]+|\d+), "([^"]*)"\)', pp)
        if not m:
            raise Missing("ppoprf context string")
        return "%s-%d-%s" % (m.group(1), int(m.group(2), 0), m.group(3))
    by("pp_context_string", soft("pp_context_string", context_string), "ppoprf context string")

    # ---- wasm ----
    try:
        one(r'(r#"\{\{"key": "\{key_b64\}", "share": "\{share_b64\}", "tag": "\{tag_b64\}"\}\}"#)', ws, "create_share JSON shape")
    except Missing as e:
        FALLBACKS.append("create_share JSON format string not located (%s)" % e)
    by("wasm_json_p0", '{"key": "', "star-wasm JSON piece 0")
    by("wasm_json_p1", '", "share": "', "star-wasm JSON piece 1")
    by("wasm_json_p2", '", "tag": "', "star-wasm JSON piece 2")
    by("wasm_json_p3", '"}', "star-wasm JSON piece 3")

    lines = ["(* GENERATED by gen/gen_params.py from the Rust sources under /repo -- do not edit. *)",
             "From Coq Require Import NArith ZArith List.", "Import ListNotations.", ""]
    for name, ty, val, c in P:
        lines.append("(* %s *)" % c.replace("*)", "* )").replace('"', "''"))
        lines.append("Definition %s : %s := %s." % (name, ty, val))
    text = "\n".join(lines) + "\n"
    out = os.path.normpath(OUT)
    old = None
    if os.path.exists(out):
        with open(out) as f:
            old = f.read()
    if old != text:
        with open(out, "w") as f:
            f.write(text)
        print("gen_params: wrote %s (%d constants)" % (out, len(P)))
    else:
        print("gen_params: %s unchanged (%d constants)" % (out, len(P)))
    for fb in FALLBACKS:
        print("gen_params: WARNING not located in the sources, previous value kept (the correspondence run decides): %s" % fb)


if __name__ == "__main__":
    try:
        main()
    except Missing as e:
        print("gen_params: cannot locate %s in the sources" % e, file=sys.stderr)
        sys.exit(2)
