//! C12..C15 (and the ppoprf part of C09): PPOPRF client / server / proofs / serialisation,
//! plus the group oracle the extracted model calls for ristretto255 operations.
use crate::g_ggm::{key_state, state_str};
use crate::util::*;
use curve25519_dalek::constants::{RISTRETTO_BASEPOINT_COMPRESSED, RISTRETTO_BASEPOINT_POINT};
use curve25519_dalek::ristretto::{CompressedRistretto, RistrettoPoint};
use curve25519_dalek::scalar::Scalar;
use curve25519_dalek::traits::Identity;
use ppoprf::ppoprf::{Client, CurveScalar, Evaluation, Point, ProofDLEQ, Server, ServerKeyState, ServerPublicKey};
use ppoprf::{PPRFError, PPRF};
use std::collections::{BTreeMap, BTreeSet};
use std::io::{BufRead, Write};

pub fn oracle() {
  let stdin = std::io::stdin();
  let stdout = std::io::stdout();
  let mut out = stdout.lock();
  for line in stdin.lock().lines() {
    let line = line.unwrap();
    let w: Vec<&str> = line.split(' ').collect();
    let pt = |h: &str| -> Option<RistrettoPoint> { CompressedRistretto::from_slice(&unhex(h)).ok()?.decompress() };
    let ans = match w[0] {
      "valid" => if pt(w[1]).is_some() { "1".to_string() } else { "0".to_string() },
      "mul" => {
        let mut k = [0u8; 32];
        k.copy_from_slice(&unhex(w[1]));
        match pt(w[2]) {
          Some(p) => hex((Scalar::from_bytes_mod_order(k) * p).compress().as_bytes()),
          None => "ff".repeat(32),
        }
      }
      "add" => match (pt(w[1]), pt(w[2])) {
        (Some(a), Some(b)) => hex((a + b).compress().as_bytes()),
        _ => "ff".repeat(32),
      },
      "hash" => {
        let mut u = [0u8; 64];
        u.copy_from_slice(&unhex(w[1]));
        hex(RistrettoPoint::from_uniform_bytes(&u).compress().as_bytes())
      }
      "base" => hex(RISTRETTO_BASEPOINT_COMPRESSED.as_bytes()),
      "id" => hex(RistrettoPoint::identity().compress().as_bytes()),
      _ => "?".to_string(),
    };
    writeln!(out, "{}", ans).unwrap();
    out.flush().unwrap();
  }
}

fn err_name(e: &PPRFError) -> &'static str {
  match e {
    PPRFError::BadTag { .. } => "BadTag",
    PPRFError::NoPrefixFound => "NoPrefixFound",
    PPRFError::AlreadyPunctured => "AlreadyPunctured",
    PPRFError::BadInputLength { .. } => "BadInputLength",
    PPRFError::Bincode(_) => "Bincode",
    PPRFError::SerializedDataTooBig => "TooBig",
    PPRFError::BadPointEncoding => "BadPointEncoding",
    _ => "Other",
  }
}

pub fn scalar_of(bytes: &[u8]) -> Option<Scalar> {
  let arr: [u8; 32] = bytes.try_into().ok()?;
  Option::from(Scalar::from_canonical_bytes(arr))
}
fn export(s: &Server) -> Vec<u8> {
  bincode::serialize(&s.get_private_key()).expect("key state serializes")
}
fn import_into(dst: &mut Server, bytes: &[u8]) {
  let st: ServerKeyState = bincode::deserialize(bytes).expect("key state parses");
  dst.set_private_key(st);
}
fn sk_of(s: &Server) -> Scalar {
  scalar_of(&export(s)[..32]).expect("canonical key")
}
fn pk_bytes(s: &Server) -> Vec<u8> {
  s.get_public_key().serialize_to_bincode().unwrap()
}
fn server_str(s: &Server) -> String {
  format!("{{pk={} ggm={}}}", hex(&pk_bytes(s)), state_str(&key_state(s.verif_pprf())))
}
fn tagged_key(s: &Server, md: u8) -> Option<Scalar> {
  let mut tag = [0u8; 32];
  s.verif_pprf().eval(&[md], &mut tag).ok()?;
  Some(sk_of(s) + Scalar::from_bytes_mod_order(tag))
}
fn combined_pv(pkb: &[u8], md: u8) -> Option<RistrettoPoint> {
  // independent reading of the documented bincode layout: base (32) | u64 n | (tag, point)*
  let n = u64::from_le_bytes(pkb[32..40].try_into().ok()?) as usize;
  let base = CompressedRistretto::from_slice(&pkb[..32]).ok()?.decompress()?;
  for i in 0..n {
    let o = 40 + 33 * i;
    if pkb[o] == md {
      return Some(base + CompressedRistretto::from_slice(&pkb[o + 1..o + 33]).ok()?.decompress()?);
    }
  }
  None
}

pub struct World {
  pub servers: Vec<Server>,
  registered: Vec<BTreeSet<u8>>,
  punctured: Vec<BTreeSet<u8>>,
  memo: Vec<BTreeMap<(u8, Vec<u8>), Vec<u8>>>,
  pk0: Vec<Vec<u8>>,
  pub ops: Vec<String>,
  pub obs: Vec<String>,
  pub verdict: Result<(), String>,
  pub commitments: Vec<Vec<u8>>,
}

impl World {
  pub fn new(mds: &[u8]) -> (World, String) {
    let s = Server::new(mds.to_vec()).expect("server");
    let ks = key_state(s.verif_pprf());
    let fresh_ok = ks.prgs.len() == 2 && ks.prefixes.len() == 2 && ks.punctured.is_empty();
    let seed_of = |i: usize| ks.prefixes.get(i).map(|p| hex(&p.1)).unwrap_or_else(|| hex(&[0u8; 32]));
    let prg_of = |i: usize| ks.prgs.get(i).map(|p| hex(&p.key)).unwrap_or_else(|| hex(&[0u8; 32]));
    let head = format!("srv.run {} {} {} {} {} {}", hex(sk_of(&s).as_bytes()), prg_of(0), prg_of(1), seed_of(0), seed_of(1), hex(mds));
    let fresh_verdict = if fresh_ok {
      Ok(())
    } else {
      Err(format!("a freshly created server (tags {:?}) does not hold the two depth-1 nodes and nothing punctured: {} retained nodes, {} punctured inputs", mds, ks.prefixes.len(), ks.punctured.len()))
    };
    let pk = pk_bytes(&s);
    (
      World {
        servers: vec![s],
        registered: vec![mds.iter().copied().collect()],
        punctured: vec![BTreeSet::new()],
        memo: vec![BTreeMap::new()],
        pk0: vec![pk],
        ops: vec![],
        obs: vec![],
        verdict: fresh_verdict,
        commitments: vec![],
      },
      head,
    )
  }
  fn fail(&mut self, m: String) {
    if self.verdict.is_ok() {
      self.verdict = Err(m);
    }
  }
  pub fn eval(&mut self, i: usize, md: u8, p: &[u8], verifiable: bool) -> Option<Evaluation> {
    let pt = Point::from(p);
    let r = guarded(|| self.servers[i].eval(&pt, md, verifiable));
    let valid = CompressedRistretto::from_slice(p).ok().and_then(|c| c.decompress()).is_some();
    match r {
      None => {
        self.ops.push(format!("e:{}:{}:{}:{}:-", i, md, hex(p), if verifiable { "v" } else { "n" }));
        self.obs.push("panic".into());
        self.fail("Server::eval panicked".into());
        None
      }
      Some(Err(e)) => {
        self.ops.push(format!("e:{}:{}:{}:{}:-", i, md, hex(p), if verifiable { "v" } else { "n" }));
        self.obs.push(format!("E:{}", err_name(&e)));
        if valid && self.registered[i].contains(&md) && !self.punctured[i].contains(&md) {
          self.fail(format!("instance {} refused registered, unpunctured tag {}", i, md));
        }
        None
      }
      Some(Ok(ev)) => {
        let outb = ev.output.as_bytes().to_vec();
        let mut rhex = "-".to_string();
        let mut prhex = "-".to_string();
        if let Some(pr) = &ev.proof {
          let pb = pr.serialize_to_bincode().unwrap();
          prhex = hex(&pb);
          if let (Some(c), Some(s), Some(tk)) = (scalar_of(&pb[..32]), scalar_of(&pb[32..]), tagged_key(&self.servers[i], md)) {
            rhex = hex((s + c * tk).as_bytes());
            if let Some(pv) = combined_pv(&pk_bytes(&self.servers[i]), md) {
              let t2 = (s * RISTRETTO_BASEPOINT_POINT + c * pv).compress().as_bytes().to_vec();
              if self.commitments.contains(&t2) {
                self.fail("two proofs share a commitment (nonce reuse)".into());
              }
              self.commitments.push(t2);
            }
          }
        }
        self.ops.push(format!("e:{}:{}:{}:{}:{}", i, md, hex(p), if verifiable { "v" } else { "n" }, rhex));
        self.obs.push(format!("ok:{}:{}", hex(&outb), prhex));
        if !self.registered[i].contains(&md) {
          self.fail(format!("instance {} answered for unregistered tag {}", i, md));
        }
        if self.punctured[i].contains(&md) {
          self.fail(format!("instance {} answered for punctured tag {}", i, md));
        }
        if !valid {
          self.fail("an undecodable point was evaluated".into());
        }
        if verifiable != ev.proof.is_some() {
          self.fail("proof presence does not match the request".into());
        }
        // the answer is the evaluation under the key the public key commits to for this tag: k*output = point with
        // k*G = base + tag entry; and an honest proof verifies
        if valid {
          if let (Some(tk), Some(pv), Some(o), Some(q)) = (
            tagged_key(&self.servers[i], md),
            combined_pv(&pk_bytes(&self.servers[i]), md),
            CompressedRistretto::from_slice(&outb).ok().and_then(|c| c.decompress()),
            CompressedRistretto::from_slice(p).ok().and_then(|c| c.decompress()),
          ) {
            if tk * RISTRETTO_BASEPOINT_POINT == pv && tk * o != q {
              self.fail(format!("the answer of instance {} for tag {} is not the evaluation under the key its public key commits to for that tag", i, md));
            }
          }
          if ev.proof.is_some() {
            let pk = self.servers[i].get_public_key();
            if guarded(|| Client::verify(&pk, &pt, &ev, md)) != Some(true) {
              self.fail(format!("an honest verifiable evaluation of instance {} for tag {} does not verify under its public key", i, md));
            }
          }
        }
        match self.memo[i].get(&(md, p.to_vec())) {
          Some(prev) if *prev != outb => self.fail(format!("the answer of instance {} for tag {} changed", i, md)),
          _ => {}
        }
        self.memo[i].insert((md, p.to_vec()), outb);
        Some(ev)
      }
    }
  }
  /// verifiable evaluations issued by several server threads at once: every proof commitment t2 = s*G + c*pk_tag
  /// must be new (a nonce shared between threads exposes the key). Evaluation does not change the key, so these
  /// calls are not part of the compared history.
  pub fn threaded_proofs(&mut self, i: usize, md: u8, p: &[u8], threads: usize, per: usize) {
    let pt = Point::from(p);
    let srv = &self.servers[i];
    let proofs: Vec<Vec<u8>> = std::thread::scope(|sc| {
      let hs: Vec<_> = (0..threads)
        .map(|_| {
          let pt = pt.clone();
          sc.spawn(move || {
            (0..per)
              .filter_map(|_| srv.eval(&pt, md, true).ok())
              .filter_map(|ev| ev.proof.map(|pr| pr.serialize_to_bincode().unwrap()))
              .collect::<Vec<_>>()
          })
        })
        .collect();
      hs.into_iter().flat_map(|h| h.join().unwrap_or_default()).collect()
    });
    let pv = match combined_pv(&pk_bytes(&self.servers[i]), md) {
      Some(v) => v,
      None => return,
    };
    for pb in proofs {
      if let (Some(c), Some(s)) = (scalar_of(&pb[..32]), scalar_of(&pb[32..])) {
        let t2 = (s * RISTRETTO_BASEPOINT_POINT + c * pv).compress().as_bytes().to_vec();
        if self.commitments.contains(&t2) {
          self.fail(format!("two proofs issued by concurrent server threads (tag {}) share a commitment: nonce reuse", md));
        }
        self.commitments.push(t2);
      }
    }
  }
  pub fn puncture(&mut self, i: usize, md: u8) {
    self.ops.push(format!("p:{}:{}", i, md));
    match guarded(|| self.servers[i].puncture(md)) {
      None => {
        self.obs.push("panic".into());
        self.fail("puncture panicked".into());
      }
      Some(Ok(())) => {
        self.obs.push("ok".into());
        if self.punctured[i].contains(&md) {
          self.fail(format!("tag {} punctured twice on instance {}", md, i));
        }
        self.punctured[i].insert(md);
      }
      Some(Err(e)) => {
        self.obs.push(format!("E:{}", err_name(&e)));
        if !self.punctured[i].contains(&md) {
          self.fail(format!("puncturing fresh tag {} was refused", md));
        }
      }
    }
    self.check_pk(i);
  }
  fn check_pk(&mut self, i: usize) {
    if pk_bytes(&self.servers[i]) != self.pk0[i] {
      self.fail(format!("the public key of instance {} changed", i));
    }
  }
  pub fn clone_inst(&mut self, i: usize) {
    self.ops.push(format!("c:{}", i));
    self.obs.push("done".into());
    let c = self.servers[i].clone();
    self.servers.push(c);
    self.registered.push(self.registered[i].clone());
    self.punctured.push(self.punctured[i].clone());
    self.memo.push(self.memo[i].clone());
    self.pk0.push(self.pk0[i].clone());
  }
  /// export src, import into dst (a fresh, differently keyed instance when dst == len)
  pub fn sync(&mut self, src: usize, dst: usize) {
    self.ops.push(format!("y:{}:{}", src, dst));
    let bytes = export(&self.servers[src]);
    // the exported bytes themselves (digest): nothing beyond what the model encodes may be in them
    let mut h: u64 = 0xcbf29ce484222325;
    for b in &bytes {
      h = (h ^ *b as u64).wrapping_mul(0x100000001b3);
    }
    self.obs.push(format!("done#{:016x}", h));
    if dst == self.servers.len() {
      // the importer is alternately an unrelated instance and a replica configured with the exporter's own tag list
      // (the realistic set-up: same epoch tags, own key, then sync)
      let own: Vec<u8> = if self.servers.len() % 2 == 1 { self.registered[src].iter().copied().collect() } else { vec![9, 200] };
      let mut fresh = Server::new(own).expect("server");
      import_into(&mut fresh, &bytes);
      self.servers.push(fresh);
      self.registered.push(self.registered[src].clone());
      self.punctured.push(self.punctured[src].clone());
      self.memo.push(self.memo[src].clone());
      self.pk0.push(self.pk0[src].clone());
    } else {
      import_into(&mut self.servers[dst], &bytes);
      self.registered[dst] = self.registered[src].clone();
      self.punctured[dst] = self.punctured[src].clone();
      self.memo[dst] = self.memo[src].clone();
      self.pk0[dst] = self.pk0[src].clone();
    }
    // indistinguishable from the exporter at the moment of export: same key material
    if server_str(&self.servers[dst]) != server_str(&self.servers[src]) || export(&self.servers[dst]) != bytes {
      self.fail(format!("instance {} restored from instance {} differs from it", dst, src));
    }
  }
  pub fn finish(self, head: String) -> (String, String, Result<(), String>) {
    let fin: Vec<String> = self.servers.iter().map(server_str).collect();
    // C11 at the server level: no retained node covers a punctured tag, in every instance
    let mut v = self.verdict;
    for (i, s) in self.servers.iter().enumerate() {
      let ks = key_state(s.verif_pprf());
      for md in &self.punctured[i] {
        let xb: bitvec::vec::BitVec<usize, bitvec::order::Lsb0> = bitvec::vec::BitVec::<u8, bitvec::order::Lsb0>::from_slice(&[*md]).iter().map(|b| *b).collect();
        if ks.prefixes.iter().any(|(p, _)| xb.starts_with(&p.bits)) && v.is_ok() {
          v = Err(format!("forward security: instance {} retains a node covering punctured tag {}", i, md));
        }
      }
    }
    (format!("{} {}", head, self.ops.join(" ")), format!("{} | {}", self.obs.join(" "), fin.join(" ")), v)
  }
}

fn blind(input: &[u8]) -> (Vec<u8>, Scalar) {
  let (p, r) = Client::blind(input);
  (p.as_bytes().to_vec(), Scalar::from(r))
}

/// C14 (and the server-level part of C11): histories over a family of instances
pub fn gen_c14(seed: u64, thorough: bool, only: Option<u64>, out: &mut Out) {
  let n: u64 = if thorough { 200 } else { 24 };
  for hi in 0..n {
    if only.map_or(false, |o| o != hi) {
      continue;
    }
    let mut r = Prng::for_case(seed, "C14", hi);
    // (the last two: tags configured out of order, and a tag listed twice)
    let tagsets: [&[u8]; 8] = [&[0, 1], &[0, 255], &[2, 6], &[0, 1, 2, 3, 4, 128, 254, 255], &[7], &[9, 7, 3], &[3, 4, 3, 5], &[5, 37, 200, 232, 69]];
    let mds: Vec<u8> = tagsets[(hi % 8) as usize].to_vec();
    let (mut w, head) = World::new(&mds);
    let inputs: Vec<Vec<u8>> = vec![b"some_test_input".to_vec(), vec![], r.bytes(200)];
    let pts: Vec<Vec<u8>> = inputs.iter().map(|i| blind(i).0).collect();
    let depth = if thorough { 40 + r.below(360) as usize } else { 12 + r.below(28) as usize };
    let pool: Vec<u8> = {
      let mut p = mds.clone();
      p.extend([0u8, 1, 3, 5, 127, 129, 255]);
      p.push(mds[0].wrapping_add(1));
      p
    };
    // a tag listed twice is punctured once and must be gone; tags listed out of order answer under their own keys
    if hi % 8 >= 5 {
      for &md in &mds {
        w.eval(0, md, &pts[0], true);
      }
      w.puncture(0, mds[0]);
      for &md in &mds {
        w.eval(0, md, &pts[0], false);
      }
    }
    // scripted openings that the random walk would rarely find
    match hi % 6 {
      0 => {
        // resync an instance that already holds an earlier state of the same key
        w.sync(0, 1);
        w.puncture(0, mds[0]);
        w.sync(0, 1);
        w.eval(1, mds[0], &pts[0], false);
      }
      2 => {
        // a replica configured with the same tags takes over the exporter's state: its proofs must verify under the
        // (imported) public key, for every tag
        w.sync(0, 1);
        for &md in &mds {
          w.eval(1, md, &pts[0], true);
        }
        w.puncture(0, mds[0]);
        w.sync(0, 2);
        for &md in &mds {
          w.eval(2, md, &pts[1], true);
        }
      }
      1 => {
        w.eval(0, *mds.last().unwrap(), &pts[0], true);
        w.puncture(0, mds[0]);
        w.eval(0, *mds.last().unwrap(), &pts[0], true);
        w.clone_inst(0);
        w.puncture(1, *mds.last().unwrap());
        w.eval(0, *mds.last().unwrap(), &pts[0], false);
        w.eval(1, *mds.last().unwrap(), &pts[0], false);
      }
      _ => {}
    }
    for _ in 0..depth {
      let ninst = w.servers.len();
      let i = r.below(ninst as u64) as usize;
      match r.below(12) {
        0..=5 => {
          let md = *r.pick(&pool);
          let p = r.pick(&pts).clone();
          w.eval(i, md, &p, r.below(3) == 0);
        }
        6..=8 => {
          let md = *r.pick(&pool);
          w.puncture(i, md);
        }
        9 => {
          if ninst < 5 {
            w.clone_inst(i);
          }
        }
        10 => {
          if ninst < 5 {
            w.sync(i, ninst);
          }
        }
        _ => {
          let j = r.below(ninst as u64) as usize;
          if j != i {
            w.sync(i, j);
          }
        }
      }
    }
    let (c, o, v) = w.finish(head);
    out.case(c, o, v);
  }
}

fn fnv(bytes: &[u8]) -> u64 {
  let mut h: u64 = 0xcbf29ce484222325;
  for b in bytes {
    h = (h ^ *b as u64).wrapping_mul(0x100000001b3);
  }
  h
}
/// what loading an exported key state into a fresh server gives: re-export digest, or err
fn ks_obs(bytes: &[u8]) -> String {
  let b = bytes.to_vec();
  guarded(move || match bincode::deserialize::<ServerKeyState>(&b) {
    Ok(st) => {
      let mut fresh = Server::new(vec![9, 200]).expect("server");
      fresh.set_private_key(st);
      format!("ok {:016x}", fnv(&export(&fresh)))
    }
    Err(_) => "err".to_string(),
  })
  .unwrap_or_else(|| "panic".to_string())
}
/// The exported key state as a byte string: loading an honest export gives a server that exports the same
/// bytes; every strict prefix and a few targeted damages are refused.
pub fn gen_keystate(seed: u64, thorough: bool, out: &mut Out) {
  let n = if thorough { 24 } else { 6 };
  for gi in 0..n {
    let mut r = Prng::for_case(seed, "KS", gi);
    let tagsets: [&[u8]; 6] = [&[0, 1], &[0, 255], &[0, 1, 2, 3, 4, 128, 254, 255], &[7], &[9, 7, 3], &[3, 4, 3, 5]];
    let mds = tagsets[(gi % 6) as usize].to_vec();
    let mut s = Server::new(mds.clone()).expect("server");
    let np = r.below(4) as usize + (gi as usize % 2);
    for _ in 0..np {
      let md = if r.below(2) == 0 { *r.pick(&mds) } else { r.below(256) as u8 };
      let _ = s.puncture(md);
    }
    let b = export(&s);
    let honest = ks_obs(&b);
    let v = if honest == format!("ok {:016x}", fnv(&b)) { Ok(()) } else { Err(format!("a server restored from an export ({} punctures) exports a different state", np)) };
    out.case(format!("ks.load {}", hex(&b)), honest, v);
    let cuts: Vec<usize> = if thorough { (0..b.len()).collect() } else {
      let mut c: Vec<usize> = vec![0, 1, 31, 32, 33, 63, 64, 71, 72, 73, b.len() - 1, b.len() - 8, b.len() - 9];
      for _ in 0..24 { c.push(r.below(b.len() as u64) as usize); }
      c.sort(); c.dedup(); c
    };
    for k in cuts {
      let o = ks_obs(&b[..k]);
      let v = if o == "err" { Ok(()) } else { Err(format!("a key state cut to {} of {} bytes was loaded", k, b.len())) };
      out.case(format!("ks.load {}", hex(&b[..k])), o, v);
    }
    // targeted damage
    let order = b.windows(19).position(|w| w == b"bitvec::order::Lsb0");
    let mut dmg: Vec<(String, Vec<u8>)> = vec![];
    if let Some(p) = order {
      let mut x = b.clone(); x[p + 18] = b'1'; dmg.push(("bit order name".into(), x));
      let mut x = b.clone(); x[p + 19] = 32; dmg.push(("element width".into(), x));
      let mut x = b.clone(); x[p + 21] = 65; dmg.push(("bit count above the stored words".into(), x));
    }
    {
      // the group order itself: the smallest non-canonical scalar
      let ell: [u8; 32] = [0xed, 0xd3, 0xf5, 0x5c, 0x1a, 0x63, 0x12, 0x58, 0xd6, 0x9c, 0xf7, 0xa2, 0xde, 0xf9, 0xde, 0x14, 0, 0, 0, 0, 0, 0, 0, 0, 0, 0, 0, 0, 0, 0, 0, 0x10];
      let mut x = b.clone(); x[..32].copy_from_slice(&ell); dmg.push(("non-canonical key scalar".into(), x));
    }
    for (what, x) in dmg {
      let o = ks_obs(&x);
      let v = if o == "err" { Ok(()) } else { Err(format!("a key state with a damaged {} was loaded", what)) };
      out.case(format!("ks.load {}", hex(&x)), o, v);
    }
    // trailing bytes are ignored by the loader
    let mut x = b.clone(); x.extend_from_slice(&[1, 2, 3]);
    let o = ks_obs(&x);
    out.case(format!("ks.load {}", hex(&x)), o, Ok(()));
  }
}

/// C12: outputs depend on (server key, tag, input) only; blinding is fresh and removable
/// Two servers that hold the same key (the only public way: one imports the other's exported state) give the same
/// output for every registered, unpunctured tag and the same refusal for every other tag - after punctures that leave
/// retained prefixes of every length and shape (non-palindromic ones in particular).
fn leader_follower(seed: u64, thorough: bool, out: &mut Out) {
  for k in 0..(if thorough { 12u64 } else { 3 }) {
    let mut r = Prng::for_case(seed, "leader-follower", k);
    let mds: Vec<u8> = (0..=255u8).collect();
    let mut leader = Server::new(mds.clone()).expect("server");
    let punct: Vec<u8> = match k { 0 => vec![3], 1 => vec![6, 1, 200], 2 => vec![0, 255, 13, 128], _ => (0..(1 + r.below(6))).map(|_| r.below(256) as u8).collect() };
    for &md in &punct {
      let _ = guarded(|| leader.puncture(md));
    }
    let mut follower = Server::new(vec![9, 200]).expect("server");
    import_into(&mut follower, &export(&leader));
    let (bp, _) = blind(b"leader and follower");
    let pt = Point::from(&bp[..]);
    let mut verdict: Result<(), String> = Ok(());
    for md in 0..=255u8 {
      let a = guarded(|| leader.eval(&pt, md, false)).map(|x| x.ok().map(|e| e.output.as_bytes().to_vec()));
      let b = guarded(|| follower.eval(&pt, md, false)).map(|x| x.ok().map(|e| e.output.as_bytes().to_vec()));
      if a != b && verdict.is_ok() {
        verdict = Err(format!("tag {}: same server key (imported after punctures {:?}), same input, different answer from the two servers", md, punct));
      }
      if punct.contains(&md) && a != Some(None) && verdict.is_ok() {
        verdict = Err(format!("punctured tag {} is still answered", md));
      }
    }
    out.case(format!("selfcheck c12 leader-follower {}", k), "ok".to_string(), verdict);
  }
}

pub fn gen_c12(seed: u64, thorough: bool, only: Option<u64>, out: &mut Out) {
  if only.is_none() {
    leader_follower(seed, thorough, out);
  }
  let n: u64 = if thorough { 120 } else { 12 };
  let mut finals: BTreeMap<Vec<u8>, String> = BTreeMap::new();
  for gi in 0..n {
    if only.map_or(false, |o| o != gi) {
      continue;
    }
    let mut r = Prng::for_case(seed, "C12", gi);
    let mds: Vec<u8> = match gi % 4 { 0 => vec![0, 1, 2], 1 => vec![5, 255], 2 => vec![9, 7, 3], _ => vec![3, 3, 7] };
    let (mut w, head) = World::new(&mds);
    let ilen = *r.pick(&[0usize, 1, 15, 64, 165, 166, 167, 200, 400]);
    let input = r.blob(ilen);
    let mut blinded_seen: BTreeSet<Vec<u8>> = BTreeSet::new();
    let verifiable = gi % 3 == 0;
    let mut per_tag: BTreeMap<u8, Vec<u8>> = BTreeMap::new();
    // the unblinded input point, through the public API
    let (b0, r0) = blind(&input);
    let h = Client::unblind(&Point::from(&b0[..]), &CurveScalar::from(r0)).as_bytes().to_vec();
    out.case(format!("cl.h2g {}", hex(&input)), hex(&h), Ok(()));
    let mut verdict = Ok(());
    // requests for inputs of which one is a prefix of the other, made one after the other on this thread: each is the
    // blinding of its OWN input point (unblinding the request with its scalar gives the point of that input)
    {
      let mut longer = input.clone();
      longer.extend_from_slice(b"-0017");
      let shorter: Vec<u8> = input[..input.len() / 2].to_vec();
      for inp in [longer.clone(), input.clone(), shorter.clone(), vec![], input.clone()] {
        let (bq, rq) = blind(&inp);
        out.case(format!("cl.blind {} {}", hex(&inp), hex(rq.as_bytes())), hex(&bq), Ok(()));
        let back = Client::unblind(&Point::from(&bq[..]), &CurveScalar::from(rq)).as_bytes().to_vec();
        let (b1, r1) = { let f = inp.clone(); std::thread::spawn(move || blind(&f)).join().unwrap() };
        let fresh = Client::unblind(&Point::from(&b1[..]), &CurveScalar::from(r1)).as_bytes().to_vec();
        if back != fresh {
          verdict = Err(format!("the request for an input of {} bytes, made after a request for an input sharing its first bytes, is not a blinding of that input's point", inp.len()));
        }
      }
    }
    for rep in 0..3 {
      let (b, rs) = blind(&input);
      out.case(format!("cl.blind {} {}", hex(&input), hex(rs.as_bytes())), hex(&b), Ok(()));
      if !blinded_seen.insert(b.clone()) {
        verdict = Err("two blinded requests for one input coincide".to_string());
      }
      if b == h {
        verdict = Err("a blinded request equals the unblinded input point".to_string());
      }
      for &md in &mds {
        if let Some(ev) = w.eval(0, md, &b, verifiable) {
          let ub = Client::unblind(&ev.output, &CurveScalar::from(rs));
          out.case(format!("cl.unblind {} {}", hex(ev.output.as_bytes()), hex(rs.as_bytes())), format!("ok {}", hex(ub.as_bytes())), Ok(()));
          // a client that kept its blinding as 32 bytes between request and response unblinds to the same point
          let ub2 = Client::unblind(&ev.output, &CurveScalar::from(rs.to_bytes()));
          if ub2.as_bytes() != ub.as_bytes() {
            verdict = Err(format!("unblinding with the blinding scalar restored from its 32 bytes gives another point (tag {})", md));
          }
          // ... also from a non-canonical byte string for the same scalar (r + 8*l: top bit set), and the SAME scalar
          // value used for a second answer (the answer under verifiable mode) unblinds that one correctly too
          {
            let ell: [u8; 32] = [0xed, 0xd3, 0xf5, 0x5c, 0x1a, 0x63, 0x12, 0x58, 0xd6, 0x9c, 0xf7, 0xa2, 0xde, 0xf9, 0xde, 0x14, 0, 0, 0, 0, 0, 0, 0, 0, 0, 0, 0, 0, 0, 0, 0, 0x10];
            let mut big = rs.to_bytes();
            for _ in 0..8 {
              let mut carry = 0u16;
              for i in 0..32 {
                let v = big[i] as u16 + ell[i] as u16 + carry;
                big[i] = v as u8;
                carry = v >> 8;
              }
            }
            if big[31] & 0x80 != 0 {
              let ub3 = Client::unblind(&ev.output, &CurveScalar::from(big));
              if ub3.as_bytes() != ub.as_bytes() {
                verdict = Err(format!("unblinding with the blinding scalar given as the 32 bytes of r + 8*l gives another point (tag {})", md));
              }
            }
            let keep = CurveScalar::from(rs);
            let first = Client::unblind(&ev.output, &keep);
            let second = Client::unblind(&ev.output, &keep);
            if first.as_bytes() != ub.as_bytes() || second.as_bytes() != ub.as_bytes() {
              verdict = Err(format!("one blinding scalar used to unblind two answers gives different points (tag {})", md));
            }
          }
          let direct = w.eval(0, md, &h, false).map(|e| e.output.as_bytes().to_vec());
          if direct.as_deref() != Some(&ub.as_bytes()[..]) {
            verdict = Err(format!("unblinded result differs from the evaluation of the unblinded point (tag {}, request {})", md, rep));
          }
          let mut fin = [0u8; 32];
          Client::finalize(&input, md, &ub, &mut fin);
          out.case(format!("cl.finalize {} {} {}", hex(&input), md, hex(ub.as_bytes())), hex(&fin), Ok(()));
          match per_tag.get(&md) {
            Some(prev) if *prev != fin.to_vec() => verdict = Err(format!("the output for tag {} depends on the blinding", md)),
            _ => {}
          }
          // the same finalisation on a thread that never served a request before: same 32 bytes
          if rep == 0 {
            let (i2, u2) = (input.clone(), ub.as_bytes().to_vec());
            let fresh = std::thread::spawn(move || {
              let mut f = [0u8; 32];
              Client::finalize(&i2, md, &Point::from(&u2[..]), &mut f);
              f
            })
            .join()
            .ok();
            if fresh != Some(fin) {
              verdict = Err(format!("the finalised output for tag {} (input of {} bytes) depends on what the calling thread finalised before", md, input.len()));
            }
          }
          per_tag.insert(md, fin.to_vec());
        }
      }
    }
    // blinding from several client threads at once: still fresh
    {
      let inp = input.clone();
      let pts: Vec<Vec<u8>> = std::thread::scope(|sc| {
        let hs: Vec<_> = (0..4).map(|_| { let i2 = inp.clone(); sc.spawn(move || (0..3).map(|_| blind(&i2).0).collect::<Vec<_>>()) }).collect();
        hs.into_iter().flat_map(|h| h.join().unwrap()).collect()
      });
      let set: BTreeSet<&Vec<u8>> = pts.iter().collect();
      if set.len() != pts.len() {
        verdict = Err("blinded requests made from different client threads coincide".to_string());
      }
    }
    let distinct: BTreeSet<&Vec<u8>> = per_tag.values().collect();
    if distinct.len() != per_tag.len() {
      verdict = Err("two tags give the same output for one input".to_string());
    }
    // differs between inputs and between servers: a second input on this server, the same input on another server
    let mut input2 = input.clone();
    if input2.is_empty() { input2.push(0) } else { let l = input2.len(); input2[l - 1] ^= 1; }
    let (mut in_nul, mut in_nl, mut in_cr) = (input.clone(), input.clone(), input.clone());
    in_nul.push(0);
    in_nl.push(b'\n');
    in_cr.extend_from_slice(b"\r\n");
    // (for an empty input the flipped-byte variant and the trailing-NUL variant are the same string: each string once)
    let mut variants: Vec<(Vec<u8>, bool)> = vec![];
    for (inp, srv_new) in [(input2, false), (in_nul, false), (in_nl, false), (in_cr, false), (input.clone(), true)] {
      if srv_new || !variants.iter().any(|(x, n)| !*n && *x == inp) {
        variants.push((inp, srv_new));
      }
    }
    for (inp, srv_new) in variants {
      let (mut w2, head2) = World::new(&mds);
      let ww = if srv_new { &mut w2 } else { &mut w };
      let (b, rs) = blind(&inp);
      if let Some(ev) = ww.eval(0, mds[0], &b, false) {
        let ub = Client::unblind(&ev.output, &CurveScalar::from(rs));
        let mut fin = [0u8; 32];
        Client::finalize(&inp, mds[0], &ub, &mut fin);
        if Some(&fin.to_vec()) == per_tag.get(&mds[0]) {
          verdict = Err(if srv_new { "two independently keyed servers give the same output".to_string() } else { "two different inputs give the same output".to_string() });
        }
        let key = fin.to_vec();
        let desc = format!("group {} {}", gi, if srv_new { "other server" } else { "other input" });
        if let Some(prev) = finals.insert(key, desc.clone()) {
          verdict = Err(format!("output collision between {} and {}", prev, desc));
        }
      }
      if srv_new {
        let (c, o, v) = w2.finish(head2);
        out.case(c, o, v);
      }
    }
    // every request, also one made after OTHER tags were punctured, gives the same output: puncture tags around the
    // registered ones (one registered tag last) and ask again for the rest
    {
      let mut gone: Vec<u8> = vec![mds[0] ^ 1, mds[0] ^ 2, mds[0].wrapping_add(5), mds[0] ^ 0x80];
      gone.retain(|g| !mds.contains(g));
      gone.push(mds[0]);
      for g in gone {
        w.puncture(0, g);
        for &md in &mds {
          if md == g || !per_tag.contains_key(&md) || md == mds[0] && g == mds[0] {
            continue;
          }
          let (b, rs) = blind(&input);
          if let Some(ev) = w.eval(0, md, &b, verifiable) {
            let ub = Client::unblind(&ev.output, &CurveScalar::from(rs));
            let mut fin = [0u8; 32];
            Client::finalize(&input, md, &ub, &mut fin);
            if per_tag.get(&md) != Some(&fin.to_vec()) {
              verdict = Err(format!("the output for tag {} changed after tag {} was punctured", md, g));
            }
          }
        }
      }
    }
    // key rotation in place: the new server in the old server's place answers under ITS key - with and without proof alike
    {
      let (bq, _) = blind(&input);
      let pt = Point::from(&bq[..]);
      let md = *mds.last().unwrap();
      let mut slot = Server::new(mds.clone()).expect("server");
      let _ = slot.eval(&pt, md, false);
      slot = Server::new(mds.clone()).expect("server");
      let plain = slot.eval(&pt, md, false).ok().map(|e| e.output.as_bytes().to_vec());
      let proved = slot.eval(&pt, md, true).ok();
      let pk = slot.get_public_key();
      match (plain, proved) {
        (Some(a), Some(ev)) => {
          if a != ev.output.as_bytes().to_vec() {
            verdict = Err(format!("a server that replaced another one in place answers tag {} differently with and without proof", md));
          } else if guarded(|| Client::verify(&pk, &pt, &ev, md)) != Some(true) {
            verdict = Err("an honest verifiable evaluation of a freshly created server does not verify".to_string());
          }
        }
        _ => verdict = Err("a freshly created server refused a registered tag".to_string()),
      }
    }
    let (c, o, v) = w.finish(head);
    out.case(c, o, v.and(verdict));
  }
}

fn verify_obs(pk: &ServerPublicKey, inp: &[u8], outp: &[u8], proof: Option<&[u8]>, md: u8) -> String {
  let ev = Evaluation { output: Point::from(outp), proof: proof.map(|p| ProofDLEQ::load_from_bincode(p).expect("proof bytes")) };
  match guarded(|| Client::verify(pk, &Point::from(inp), &ev, md)) {
    Some(true) => "true".into(),
    Some(false) => "false".into(),
    None => "panic".into(),
  }
}

/// C13: completeness, rejection of every single-component replacement, fresh commitments
/// A server that has already served verifiable requests under its own key and then takes over another server's key
/// state (key sync of a warm follower): every later evaluation is the leader's, and its proof verifies under the
/// (imported) public key - before and after restoring key and proof from their binary forms.
fn warm_follower(out: &mut Out) {
  for (k, mds) in [vec![0u8, 1, 200], vec![7u8], vec![3, 4, 5, 255]].iter().enumerate() {
    let leader = Server::new(mds.clone()).expect("server");
    let mut follower = Server::new(mds.clone()).expect("server");
    let (bp, _) = blind(b"warm follower");
    let pt = Point::from(&bp[..]);
    let mut verdict: Result<(), String> = Ok(());
    // warm up: verifiable and plain requests for every tag under the follower's own key (twice)
    for _ in 0..2 {
      for &md in mds {
        match guarded(|| follower.eval(&pt, md, true)) {
          Some(Ok(ev)) => {
            if guarded(|| Client::verify(&follower.get_public_key(), &pt, &ev, md)) != Some(true) {
              verdict = Err(format!("an honest evaluation for tag {} does not verify before the key sync", md));
            }
          }
          _ => verdict = Err(format!("no evaluation for registered tag {} before the key sync", md)),
        }
        let _ = guarded(|| follower.eval(&pt, md, false));
      }
    }
    import_into(&mut follower, &export(&leader));
    let pk = follower.get_public_key();
    if pk.serialize_to_bincode().ok() != leader.get_public_key().serialize_to_bincode().ok() && verdict.is_ok() {
      verdict = Err("after the key sync the follower advertises another public key than the leader".to_string());
    }
    for &md in mds {
      let lead = guarded(|| leader.eval(&pt, md, false)).and_then(|r| r.ok()).map(|e| e.output.as_bytes().to_vec());
      match guarded(|| follower.eval(&pt, md, true)) {
        Some(Ok(ev)) => {
          let restored_pk = ServerPublicKey::load_from_bincode(&pk.serialize_to_bincode().unwrap()).ok();
          let restored_ev = ev.proof.as_ref().and_then(|p| p.serialize_to_bincode().ok()).and_then(|b| ProofDLEQ::load_from_bincode(&b).ok()).map(|p| Evaluation { output: ev.output.clone(), proof: Some(p) });
          if Some(ev.output.as_bytes().to_vec()) != lead && verdict.is_ok() {
            verdict = Err(format!("after the key sync the follower's answer for tag {} is not the leader's", md));
          } else if guarded(|| Client::verify(&pk, &pt, &ev, md)) != Some(true) && verdict.is_ok() {
            verdict = Err(format!("an honest verifiable evaluation for tag {} issued after a key sync by a server that had served under its own key before is rejected", md));
          } else if let (Some(rpk), Some(rev)) = (restored_pk, restored_ev) {
            if guarded(|| Client::verify(&rpk, &pt, &rev, md)) != Some(true) && verdict.is_ok() {
              verdict = Err(format!("tag {}: evaluation and public key restored from their binary forms do not verify after a key sync", md));
            }
          }
        }
        _ => {
          if verdict.is_ok() {
            verdict = Err(format!("no verifiable evaluation for registered tag {} after the key sync", md));
          }
        }
      }
    }
    out.case(format!("selfcheck c13 warm-follower {}", k), "ok".to_string(), verdict);
  }
}

pub fn gen_c13(seed: u64, thorough: bool, only: Option<u64>, out: &mut Out) {
  if only.is_none() {
    warm_follower(out);
  }
  let n: u64 = if thorough { 60 } else { 6 };
  for gi in 0..n {
    if only.map_or(false, |o| o != gi) {
      continue;
    }
    let mut r = Prng::for_case(seed, "C13", gi);
    let mds: Vec<u8> = if gi % 3 == 2 { vec![200, 1, 0] } else { vec![0, 1, 200] };
    let (mut w, head) = World::new(&mds);
    let (mut w2, head2) = World::new(&mds);
    let md = mds[(gi % 3) as usize];
    let md_other = mds[((gi + 1) % 3) as usize];
    let input = { let l_ = 1 + r.below(40) as usize; r.blob(l_) };
    let (b, _) = blind(&input);
    let (b_other, _) = blind(b"another input");
    let ev = match w.eval(0, md, &b, true) {
      Some(e) => e,
      None => continue,
    };
    let ev_other_tag = w.eval(0, md_other, &b, true);
    let ev_other_pt = w.eval(0, md, &b_other, true);
    let ev_other_srv = w2.eval(0, md, &b, true);
    // the same point under two tags, and many points under one tag: commitments must all differ (checked in World)
    for _ in 0..3 {
      w.eval(0, md, &b, true);
    }
    w.threaded_proofs(0, md, &b, 4, 3);
    // a copy of the server issues proofs as well: its commitments are new, too
    w.clone_inst(0);
    for _ in 0..2 {
      w.eval(1, md, &b, true);
      w.eval(0, md, &b, true);
    }
    let pk = w.servers[0].get_public_key();
    let pkb = pk.serialize_to_bincode().unwrap();
    let pk2b = w2.servers[0].get_public_key().serialize_to_bincode().unwrap();
    let outb = ev.output.as_bytes().to_vec();
    let prb = ev.proof.as_ref().unwrap().serialize_to_bincode().unwrap();
    let mut emit = |pkb: &[u8], inp: &[u8], outp: &[u8], pr: Option<&[u8]>, md: u8, expect: bool, what: &str, out: &mut Out| {
      let pk = match ServerPublicKey::load_from_bincode(pkb) {
        Ok(p) => p,
        Err(_) => return,
      };
      if let Some(p) = pr {
        if ProofDLEQ::load_from_bincode(p).is_err() {
          return;
        }
      }
      let o = verify_obs(&pk, inp, outp, pr, md);
      let v = if o == "panic" {
        Err(format!("Client::verify panicked ({})", what))
      } else if (o == "true") != expect {
        Err(format!("{}: verification returned {}", what, o))
      } else {
        Ok(())
      };
      out.case(format!("cl.verify {} {} {} {} {}", hex(pkb), hex(inp), hex(outp), pr.map_or("-".to_string(), |p| hex(p)), md), o, v);
    };
    // completeness, also after the public key and the evaluation went through their serialised forms
    emit(&pkb, &b, &outb, Some(&prb), md, true, "honest evaluation", out);
    // ... for every request the server answers, the neutral element included
    {
      let zero = vec![0u8; 32];
      if let Some(evz) = w.eval(0, md, &zero, true) {
        let pz = evz.proof.as_ref().unwrap().serialize_to_bincode().unwrap();
        emit(&pkb, &zero, evz.output.as_bytes(), Some(&pz), md, true, "honest evaluation of the neutral request", out);
      }
    }
    let js = serde_json::to_string(&ev).unwrap();
    let ev_back: Evaluation = serde_json::from_str(&js).expect("evaluation JSON parses");
    let prb_back = ev_back.proof.as_ref().unwrap().serialize_to_bincode().unwrap();
    emit(&pkb, &b, ev_back.output.as_bytes(), Some(&prb_back), md, true, "evaluation restored from JSON", out);
    // the same proof with a scalar written non-canonically (value + group order): different bytes, must be refused
    {
      let ell: [u8; 32] = [0xed, 0xd3, 0xf5, 0x5c, 0x1a, 0x63, 0x12, 0x58, 0xd6, 0x9c, 0xf7, 0xa2, 0xde, 0xf9, 0xde, 0x14, 0, 0, 0, 0, 0, 0, 0, 0, 0, 0, 0, 0, 0, 0, 0, 0x10];
      for half in 0..2 {
        let mut p2 = prb.clone();
        let mut carry = 0u16;
        for i in 0..32 {
          let v = p2[32 * half + i] as u16 + ell[i] as u16 + carry;
          p2[32 * half + i] = v as u8;
          carry = v >> 8;
        }
        if carry != 0 {
          continue;
        }
        let obs = match ProofDLEQ::load_from_bincode(&p2) {
          Ok(pr) => {
            let ev2 = Evaluation { output: Point::from(&outb[..]), proof: Some(pr) };
            match guarded(|| Client::verify(&pk, &Point::from(&b[..]), &ev2, md)) {
              Some(true) => "loaded-and-verified",
              Some(false) => "loaded",
              None => "panic",
            }
          }
          Err(_) => "err",
        };
        let v = if obs == "err" { Ok(()) } else { Err(format!("a proof whose {} scalar is written as value + group order was not refused ({})", if half == 0 { "challenge" } else { "response" }, obs)) };
        let o = match guarded(|| ProofDLEQ::load_from_bincode(&p2).map_err(|e| err_name(&e))) {
          Some(Ok(p)) => format!("ok {}", hex(&p.serialize_to_bincode().unwrap())),
          Some(Err(e)) => format!("E:{}", e),
          None => "panic".into(),
        };
        out.case(format!("proof.load {}", hex(&p2)), o, v);
      }
    }
    // replacements: another honest value, neighbour, identity/zero, value from another server or tag
    let flip = |v: &[u8], i: usize| { let mut x = v.to_vec(); x[i] ^= 1; x };
    let one = Scalar::ONE;
    let c = scalar_of(&prb[..32]).unwrap();
    let s = scalar_of(&prb[32..]).unwrap();
    let mut proofs: Vec<(Vec<u8>, &str)> = vec![];
    for (cc, ss, wname) in [(c + one, s, "c+1"), (c - one, s, "c-1"), (c, s + one, "s+1"), (c, s - one, "s-1"), (Scalar::ZERO, s, "c=0"), (c, Scalar::ZERO, "s=0"), (s, c, "c and s swapped"), (Scalar::ZERO, Scalar::ZERO, "c=s=0")] {
      let mut p = cc.as_bytes().to_vec();
      p.extend(ss.as_bytes());
      proofs.push((p, wname));
    }
    for (p, wname) in &proofs {
      if *p != prb {
        emit(&pkb, &b, &outb, Some(p), md, false, &format!("proof scalars altered ({})", wname), out);
      }
    }
    emit(&pkb, &b, &outb, None, md, false, "missing proof", out);
    let idb = RistrettoPoint::identity().compress().as_bytes().to_vec();
    let mut outs: Vec<(Vec<u8>, String)> = vec![(idb.clone(), "identity".into()), (b.clone(), "the input point".into())];
    if let Some(e) = &ev_other_tag { outs.push((e.output.as_bytes().to_vec(), "output under another tag".into())); }
    if let Some(e) = &ev_other_pt { outs.push((e.output.as_bytes().to_vec(), "output for another point".into())); }
    if let Some(e) = &ev_other_srv { outs.push((e.output.as_bytes().to_vec(), "output of another server".into())); }
    outs.push(((RISTRETTO_BASEPOINT_POINT + CompressedRistretto::from_slice(&outb).unwrap().decompress().unwrap()).compress().as_bytes().to_vec(), "output + G".into()));
    for k in [0usize, 7, 31] { outs.push((flip(&outb, k), format!("output byte {} flipped", k))); }
    // the same encoding with its top bit set (not a valid encoding; must not be read as the same element)
    let top = |v: &[u8]| { let mut x = v.to_vec(); x[31] ^= 0x80; x };
    outs.push((top(&outb), "the output with the top bit of its encoding set".into()));
    for (o2, wname) in &outs {
      if *o2 != outb {
        emit(&pkb, &b, o2, Some(&prb), md, false, &format!("output point replaced by {}", wname), out);
      }
    }
    for (i2, wname) in [(b_other.clone(), "another blinded input"), (idb.clone(), "identity"), (outb.clone(), "the output point"), (flip(&b, 3), "input byte flipped"), (top(&b), "the input with the top bit of its encoding set")] {
      if i2 != b {
        emit(&pkb, &i2, &outb, Some(&prb), md, false, &format!("input point replaced by {}", wname), out);
      }
    }
    emit(&pkb, &b, &outb, Some(&prb), md_other, false, "another registered tag", out);
    emit(&pkb, &b, &outb, Some(&prb), 77, false, "an unregistered tag", out);
    emit(&pk2b, &b, &outb, Some(&prb), md, false, "public key of another server", out);
    // public key with single components replaced
    let n_md = mds.len();
    for which in 0..=n_md {
      let off = if which == 0 { 0 } else { 40 + 33 * (which - 1) + 1 };
      for (repl, wname) in [(idb.clone(), "identity"), (pk2b[off..off + 32].to_vec(), "the other server's value"), (flip(&pkb[off..off + 32], 0), "a flipped byte"), (vec![0xff; 32], "an undecodable point"), (top(&pkb[off..off + 32]), "itself with the top bit of the encoding set")] {
        let mut p2 = pkb.clone();
        p2[off..off + 32].copy_from_slice(&repl);
        let relevant = which == 0 || pkb[40 + 33 * (which - 1)] == md;
        if p2 != pkb {
          emit(&p2, &b, &outb, Some(&prb), md, !relevant, &format!("public key component {} replaced by {}", which, wname), out);
        }
      }
    }
    // a dishonest server: its own key, but advertising (and hashing) the honest server's public key
    {
      let mut rogue = Server::new(mds.clone()).expect("server");
      let honest_pk_len = pkb.len();
      let mut st = export(&rogue);
      st[32..32 + honest_pk_len].copy_from_slice(&pkb);
      import_into(&mut rogue, &st);
      if let Ok(fe) = rogue.eval(&Point::from(&b[..]), md, true) {
        let fpr = fe.proof.as_ref().unwrap().serialize_to_bincode().unwrap();
        emit(&pkb, &b, fe.output.as_bytes(), Some(&fpr), md, false, "evaluation and proof made with a different key over the honest public key", out);
      }
    }
    if let (Some(e1), Some(e2)) = (&ev_other_tag, &ev_other_srv) {
      emit(&pkb, &b, &outb, Some(&e1.proof.as_ref().unwrap().serialize_to_bincode().unwrap()), md, false, "proof issued for another tag", out);
      emit(&pkb, &b, &outb, Some(&e2.proof.as_ref().unwrap().serialize_to_bincode().unwrap()), md, false, "proof issued by another server", out);
    }
    let (cw, ow, vw) = w.finish(head);
    out.case(cw, ow, vw);
    let (cw, ow, vw) = w2.finish(head2);
    out.case(cw, ow, vw);
  }
}

/// C15 (and the loader part of C09): binary and JSON forms
pub fn gen_c15(seed: u64, thorough: bool, _only: Option<u64>, out: &mut Out) {
  let mut r = Prng::for_case(seed, "C15", 0);
  // genuine keys whose binary form ends in a byte that padding-, text- or terminator-minded code treats specially
  // (0x00, 0xff, line feed, blank), found by search (about one key in 128 each), for one tag and for three
  for (mds, last) in [(vec![0u8], 0x00u8), (vec![3, 7, 200], 0x00), (vec![5], 0xff), (vec![5], 0x0a), (vec![5], 0x20)] {
    for _ in 0..4000 {
      let s = Server::new(mds.clone()).expect("server");
      let pk = s.get_public_key();
      let b = pk.serialize_to_bincode().unwrap();
      if *b.last().unwrap() != last {
        continue;
      }
      let back = guarded(|| ServerPublicKey::load_from_bincode(&b).map_err(|e| err_name(&e)));
      let obs = match &back {
        Some(Ok(p)) => format!("ok {}", hex(&p.serialize_to_bincode().unwrap())),
        Some(Err(e)) => format!("E:{}", e),
        None => "panic".into(),
      };
      let v = match &back {
        Some(Ok(p)) if *p == pk => Ok(()),
        Some(Ok(_)) => Err("public key restored from its binary form differs from the original".to_string()),
        _ => Err(format!("a genuine public key whose binary form ends in 0x{:02x} does not load back", last)),
      };
      out.case(format!("pk.load {}", hex(&b)), obs, v);
      break;
    }
  }
  let sizes: Vec<usize> = if thorough { (0..=256).collect() } else { vec![0, 1, 2, 8, 255, 256] };
  for n in sizes {
    let mds: Vec<u8> = (0..n).map(|i| i as u8).collect();
    let s = Server::new(mds.clone()).expect("server");
    let pk = s.get_public_key();
    let b = pk.serialize_to_bincode().unwrap();
    let back = guarded(|| ServerPublicKey::load_from_bincode(&b).map_err(|e| err_name(&e)));
    let obs = match &back {
      Some(Ok(p)) => format!("ok {}", hex(&p.serialize_to_bincode().unwrap())),
      Some(Err(e)) => format!("E:{}", e),
      None => "panic".into(),
    };
    let v = match &back {
      Some(Ok(p)) if *p == pk => {
        if b.len() != 40 + 33 * n { Err("unexpected public key size".to_string()) } else { Ok(()) }
      }
      Some(Ok(_)) => Err("public key restored from its binary form differs from the original".to_string()),
      _ => Err(format!("a public key with {} tags does not load back", n)),
    };
    out.case(format!("pk.load {}", hex(&b)), obs, v);
    if n <= 8 || thorough && n % 37 == 0 {
      // every truncation is refused; trailing bytes are tolerated by bincode
      for cut in 0..b.len() {
        if cut < 48 || cut % 11 == 0 || cut + 3 > b.len() {
          let t = &b[..cut];
          let o = match guarded(|| ServerPublicKey::load_from_bincode(t).map_err(|e| err_name(&e))) {
            Some(Ok(p)) => format!("ok {}", hex(&p.serialize_to_bincode().unwrap())),
            Some(Err(e)) => format!("E:{}", e),
            None => "panic".into(),
          };
          let v = if o.starts_with("E:") { Ok(()) } else if o == "panic" { Err("loader panicked".to_string()) } else { Err("a truncated public key was accepted".to_string()) };
          out.case(format!("pk.load {}", hex(t)), o, v);
        }
      }
      // a restored key is interchangeable with the original in verification
      if n >= 1 {
        let (bp, _) = blind(b"x");
        let ev = s.eval(&Point::from(&bp[..]), mds[0], true).unwrap();
        let restored = ServerPublicKey::load_from_bincode(&b).unwrap();
        let prb = ev.proof.as_ref().unwrap().serialize_to_bincode().unwrap();
        let o = verify_obs(&restored, &bp, ev.output.as_bytes(), Some(&prb), mds[0]);
        out.case(format!("cl.verify {} {} {} {} {}", hex(&b), hex(&bp), hex(ev.output.as_bytes()), hex(&prb), mds[0]), o.clone(), if o == "true" { Ok(()) } else { Err("restored public key / proof do not verify an honest evaluation".into()) });
        // JSON forms of points and evaluations
        let js = serde_json::to_string(&ev).unwrap();
        let back: Result<Evaluation, _> = serde_json::from_str(&js);
        let pj = serde_json::to_string(&ev.output).unwrap();
        let pback: Result<Point, _> = serde_json::from_str(&pj);
        let mut v = Ok(());
        match back {
          Ok(e2) => {
            if e2.output != ev.output || e2.proof.as_ref().map(|p| p.serialize_to_bincode().unwrap()) != Some(prb.clone()) {
              v = Err("evaluation restored from JSON differs from the original".to_string());
            }
          }
          Err(_) => v = Err("evaluation JSON does not parse back".to_string()),
        }
        match pback {
          Ok(p2) if p2 == ev.output => {}
          _ => v = Err("point restored from JSON differs from the original".to_string()),
        }
        // truncated / damaged JSON is an error, not a partially initialised value
        for cut in [js.len() - 1, js.len() / 2, 10] {
          if serde_json::from_str::<Evaluation>(&js[..cut]).is_ok() {
            v = Err("truncated evaluation JSON was accepted".to_string());
          }
        }
        // an output string that decodes to fewer / more than 32 bytes, or to nothing
        let b64 = &js[11..55];
        for bad in [b64[..40].to_string(), b64[..4].to_string(), String::new(), format!("{}AAAA", b64), b64.replace(&b64[0..1], "!")] {
          let damaged = js.replacen(b64, &bad, 1);
          if damaged != js && serde_json::from_str::<Evaluation>(&damaged).is_ok() {
            v = Err(format!("evaluation JSON whose output is not a 32-byte base64 string was accepted ({} chars)", bad.len()));
          }
        }
        out.case(format!("cl.finalize {} {} {}", hex(b"json"), mds[0], hex(ev.output.as_bytes())), { let mut f = [0u8; 32]; Client::finalize(b"json", mds[0], &ev.output, &mut f); hex(&f) }, v);
      }
    }
  }
  // size limits and junk
  for len in [0usize, 1, 39, 40, 41, 72, 73, 74, 16383, 16384, 16385, 20000] {
    let data = if len >= 40 { let mut d = r.bytes(len); d[32..40].copy_from_slice(&(((len - 40) / 33) as u64).to_le_bytes()); d } else { r.bytes(len) };
    let o = match guarded(|| ServerPublicKey::load_from_bincode(&data).map_err(|e| err_name(&e))) {
      Some(Ok(p)) => format!("ok {}", hex(&p.serialize_to_bincode().unwrap())),
      Some(Err(e)) => format!("E:{}", e),
      None => "panic".into(),
    };
    let v = if o == "panic" { Err("loader panicked".to_string()) } else if len > 16384 && o != "E:TooBig" { Err("an oversized public key was not refused".to_string()) } else { Ok(()) };
    out.case(format!("pk.load {}", hex(&data)), o, v);
  }
  for i in 0..(if thorough { 400 } else { 40 }) {
    let data = match i % 5 {
      0 => { let mut d = vec![0u8; 40]; d[32..40].copy_from_slice(&u64::MAX.to_le_bytes()); d }
      1 => { let mut d = r.bytes(40 + 33 * 3); d[32..40].copy_from_slice(&3u64.to_le_bytes()); d[40] = 5; d[73] = 5; d }
      2 => { let mut d = r.bytes(40 + 33 * 2 + 9); d[32..40].copy_from_slice(&2u64.to_le_bytes()); d }
      _ => { let l = r.below(200) as usize; r.bytes(l) }
    };
    let o = match guarded(|| ServerPublicKey::load_from_bincode(&data).map_err(|e| err_name(&e))) {
      Some(Ok(p)) => format!("ok {}", hex(&p.serialize_to_bincode().unwrap())),
      Some(Err(e)) => format!("E:{}", e),
      None => "panic".into(),
    };
    out.case(format!("pk.load {}", hex(&data)), o.clone(), if o == "panic" { Err("loader panicked".into()) } else { Ok(()) });
  }
  // proofs
  for i in 0..(if thorough { 600 } else { 80 }) {
    let data: Vec<u8> = match i % 8 {
      0 => { let mut d = Scalar::from(r.next()).as_bytes().to_vec(); d.extend(Scalar::from(r.next()).as_bytes()); d }
      1 => r.bytes(64),
      2 => { let l = r.below(64) as usize; r.bytes(l) }
      3 => r.bytes(65),
      4 => vec![0xff; 64],
      5 => { let mut d = vec![0u8; 64]; d[31] = 0x10; d }
      6 => { let mut d = (Scalar::ZERO - Scalar::ONE).as_bytes().to_vec(); d.extend(Scalar::ONE.as_bytes()); d }
      _ => { let mut d = r.bytes(64); d[31] &= 0x0f; d[63] &= 0x0f; d }
    };
    let o = match guarded(|| ProofDLEQ::load_from_bincode(&data).map_err(|e| err_name(&e))) {
      Some(Ok(p)) => format!("ok {}", hex(&p.serialize_to_bincode().unwrap())),
      Some(Err(e)) => format!("E:{}", e),
      None => "panic".into(),
    };
    let v = if o == "panic" { Err("loader panicked".to_string()) } else if data.len() > 64 && o != "E:TooBig" { Err("an oversized proof was not refused".to_string()) } else if o.starts_with("ok") && o != format!("ok {}", hex(&data[..64])) { Err("proof restored from its binary form differs".to_string()) } else { Ok(()) };
    out.case(format!("proof.load {}", hex(&data)), o, v);
  }
}

fn json_ev_obs(js: &str) -> String {
  match guarded(|| serde_json::from_str::<Evaluation>(js).ok()) {
    Some(Some(e)) => format!(
      "ok {} {} {}",
      hex(e.output.as_bytes()),
      e.proof.as_ref().map_or("-".to_string(), |p| hex(&p.serialize_to_bincode().unwrap())),
      hex(serde_json::to_string(&e).unwrap().as_bytes())
    ),
    Some(None) => "err".into(),
    None => "panic".into(),
  }
}
fn json_pt_obs(js: &str) -> String {
  match guarded(|| serde_json::from_str::<Point>(js).ok()) {
    Some(Some(p)) => format!("ok {} {}", hex(p.as_bytes()), hex(serde_json::to_string(&p).unwrap().as_bytes())),
    Some(None) => "err".into(),
    None => "panic".into(),
  }
}

/// JSON forms of points and evaluations: what serde_json writes, and damaged variants of it that both the
/// implementation and the canonical-grammar model must refuse
pub fn gen_json(seed: u64, thorough: bool, out: &mut Out) {
  let mut r = Prng::for_case(seed, "C15j", 0);
  let s = Server::new(vec![1u8, 2]).expect("server");
  // restored values are EQUAL to the originals (==, not only byte-identical), also when the 32 bytes are no point
  for raw in [vec![0xffu8; 32], vec![0u8; 32], { let mut x = vec![1u8; 32]; x[31] = 0x80; x }, blind(b"x").0] {
    let p = Point::from(&raw[..]);
    let pj = serde_json::to_string(&p).unwrap();
    let po = json_pt_obs(&pj);
    let eq = serde_json::from_str::<Point>(&pj).map(|q| q == p).unwrap_or(false);
    out.case(format!("json.pt {}", hex(pj.as_bytes())), po, if eq { Ok(()) } else { Err(format!("the point {} restored from JSON is not equal to the original", hex(&raw))) });
    // the same inside a public key
    let mut pkb = s.get_public_key().serialize_to_bincode().unwrap();
    pkb[..32].copy_from_slice(&raw);
    if let Ok(k1) = ServerPublicKey::load_from_bincode(&pkb) {
      let again = k1.serialize_to_bincode().ok().and_then(|b| ServerPublicKey::load_from_bincode(&b).ok());
      let same = again.map(|k2| k2 == k1).unwrap_or(false);
      out.case(format!("pk.load {}", hex(&pkb)), format!("ok {}", hex(&k1.serialize_to_bincode().unwrap())), if same { Ok(()) } else { Err(format!("a public key with base point {} restored from its binary form is not equal to the original", hex(&raw))) });
    }
  }
  // the neutral element is a point like any other: the evaluation of the neutral request (32 zero bytes) and the
  // neutral point itself survive their JSON forms
  for verifiable in [false, true] {
    let zero = Point::from(&[0u8; 32][..]);
    if let Ok(ev) = s.eval(&zero, 1, verifiable) {
      let js = serde_json::to_string(&ev).unwrap();
      let o = json_ev_obs(&js);
      let want_prefix = format!("ok {} ", hex(ev.output.as_bytes()));
      out.case(format!("json.ev {}", hex(js.as_bytes())), o.clone(), if o.starts_with(&want_prefix) && o.ends_with(&hex(js.as_bytes())) { Ok(()) } else { Err("the evaluation of the neutral request does not survive its JSON form".into()) });
      let pj = serde_json::to_string(&ev.output).unwrap();
      let po = json_pt_obs(&pj);
      out.case(format!("json.pt {}", hex(pj.as_bytes())), po.clone(), if po == format!("ok {} {}", hex(ev.output.as_bytes()), hex(pj.as_bytes())) { Ok(()) } else { Err("the neutral point does not survive its JSON form".into()) });
    }
  }
  for i in 0..(if thorough { 60 } else { 8 }) {
    let (bp, _) = blind(&r.bytes(1 + (i % 7)));
    let ev = s.eval(&Point::from(&bp[..]), 1 + (i % 2) as u8, i % 3 != 0).unwrap();
    let js = serde_json::to_string(&ev).unwrap();
    let o = json_ev_obs(&js);
    let want_prefix = format!("ok {} ", hex(ev.output.as_bytes()));
    out.case(format!("json.ev {}", hex(js.as_bytes())), o.clone(), if o.starts_with(&want_prefix) && o.ends_with(&hex(js.as_bytes())) { Ok(()) } else { Err("evaluation does not survive its JSON form".into()) });
    let pj = serde_json::to_string(&ev.output).unwrap();
    let po = json_pt_obs(&pj);
    out.case(format!("json.pt {}", hex(pj.as_bytes())), po.clone(), if po == format!("ok {} {}", hex(ev.output.as_bytes()), hex(pj.as_bytes())) { Ok(()) } else { Err("point does not survive its JSON form".into()) });
    // damaged variants: every truncation (sampled), a number out of range, a leading zero, a short / long output,
    // a non-canonical scalar, a missing bracket
    let mut bad: Vec<String> = vec![];
    for cut in [1usize, 10, 11, 30, 54, 55, 60, 66, js.len() / 2, js.len() - 2, js.len() - 1] {
      if cut < js.len() {
        bad.push(js[..cut].to_string());
      }
    }
    bad.push(js.replacen(&js[11..15], "", 1));
    bad.push(js.replacen(&js[11..12], "!", 1));
    bad.push(format!("{}AAAA{}", &js[..55], &js[55..]));
    if let Some(k) = js.find("\"c\":[") {
      let start = k + 5;
      let end = start + js[start..].find(',').unwrap();
      bad.push(format!("{}256{}", &js[..start], &js[end..]));
      bad.push(format!("{}0{}{}", &js[..start], &js[start..end], &js[end..]));
      bad.push(format!("{}-1{}", &js[..start], &js[end..]));
      bad.push(js.replacen("],\"s\"", ",7],\"s\"", 1));
      bad.push(js.replacen("],\"s\"", ",\"s\"", 1));
      // c replaced by the non-canonical encoding of ell (= 0 mod ell)
      let ell: [u8; 32] = [0xed, 0xd3, 0xf5, 0x5c, 0x1a, 0x63, 0x12, 0x58, 0xd6, 0x9c, 0xf7, 0xa2, 0xde, 0xf9, 0xde, 0x14, 0, 0, 0, 0, 0, 0, 0, 0, 0, 0, 0, 0, 0, 0, 0, 0x10];
      let arr = ell.iter().map(|b| b.to_string()).collect::<Vec<_>>().join(",");
      let close = start + js[start..].find(']').unwrap();
      bad.push(format!("{}{}{}", &js[..start], arr, &js[close..]));
    }
    bad.push(pj[..pj.len() - 1].to_string());
    // point arrays with too few / too many numbers (never a partially filled point)
    {
      let nums: Vec<String> = ev.output.as_bytes().iter().map(|b| b.to_string()).collect();
      for n in [0usize, 1, 3, 31] {
        bad.push(format!("[{}]", nums[..n].join(",")));
      }
      bad.push(format!("[{},7]", nums.join(",")));
    }
    for b in bad {
      let is_pt = b.starts_with('[');
      let o = if is_pt { json_pt_obs(&b) } else { json_ev_obs(&b) };
      let v = if o == "err" { Ok(()) } else if o == "panic" { Err("JSON decoding panicked".to_string()) } else { Err("damaged JSON was accepted".to_string()) };
      out.case(format!("{} {}", if is_pt { "json.pt" } else { "json.ev" }, hex(b.as_bytes())), o, v);
    }
  }
}

/// C09, ppoprf part: eval / verify on undecodable points, missing proofs, bad public keys
pub fn gen_c09(seed: u64, _thorough: bool, out: &mut Out) {
  let mut r = Prng::for_case(seed, "C09p", 0);
  let mds = vec![0u8, 3];
  let (mut w, head) = World::new(&mds);
  let (b, _) = blind(b"input");
  let bad: Vec<Vec<u8>> = vec![vec![0xff; 32], vec![1; 32], { let mut x = b.clone(); x[31] |= 0x80; x }, r.bytes(32)];
  for p in &bad {
    for md in [0u8, 3, 9] {
      w.eval(0, md, p, true);
      w.eval(0, md, p, false);
    }
  }
  let ev = w.eval(0, 0, &b, true).unwrap();
  let pkb = w.servers[0].get_public_key().serialize_to_bincode().unwrap();
  let prb = ev.proof.as_ref().unwrap().serialize_to_bincode().unwrap();
  let outb = ev.output.as_bytes().to_vec();
  let mut cases: Vec<(Vec<u8>, Vec<u8>, Vec<u8>, Option<Vec<u8>>, u8)> = vec![];
  for p in &bad {
    cases.push((pkb.clone(), p.clone(), outb.clone(), Some(prb.clone()), 0));
    cases.push((pkb.clone(), b.clone(), p.clone(), Some(prb.clone()), 0));
    for which in 0..=mds.len() {
      let off = if which == 0 { 0 } else { 40 + 33 * (which - 1) + 1 };
      let mut p2 = pkb.clone();
      p2[off..off + 32].copy_from_slice(p);
      for md in [0u8, 3, 9] {
        cases.push((p2.clone(), b.clone(), outb.clone(), Some(prb.clone()), md));
      }
    }
  }
  cases.push((pkb.clone(), b.clone(), outb.clone(), None, 0));
  cases.push((pkb.clone(), b.clone(), outb.clone(), None, 9));
  for (pk, i, o, p, md) in cases {
    let pkk = match ServerPublicKey::load_from_bincode(&pk) {
      Ok(k) => k,
      Err(_) => continue,
    };
    let obs = verify_obs(&pkk, &i, &o, p.as_deref(), md);
    let v = if obs == "panic" { Err("Client::verify panicked on malformed input".to_string()) } else { Ok(()) };
    out.case(format!("cl.verify {} {} {} {} {}", hex(&pk), hex(&i), hex(&o), p.map_or("-".to_string(), |x| hex(&x)), md), obs, v);
  }
  // Client::unblind on the server's answer: decodable answers are fine; an undecodable one has no failure result
  // to go to (known finding C09/unblind-undecodable, witness always generated)
  let rs = Scalar::from(7u64);
  let mut ub_cases: Vec<Vec<u8>> = vec![outb.clone(), vec![0u8; 32]];
  ub_cases.extend(bad.iter().cloned());
  for p in ub_cases {
    let pt = Point::from(&p[..]);
    let obs = match guarded(|| Client::unblind(&pt, &CurveScalar::from(rs))) {
      Some(u) => format!("ok {}", hex(u.as_bytes())),
      None => "panic".to_string(),
    };
    let decodable = curve25519_dalek::ristretto::CompressedRistretto::from_slice(&p).ok().and_then(|c| c.decompress()).is_some();
    let v = if obs != "panic" {
      Ok(())
    } else if !decodable {
      Err("unblind-undecodable: Client::unblind panicked on an undecodable evaluation output".to_string())
    } else {
      Err("Client::unblind panicked on a decodable evaluation output".to_string())
    };
    out.case(format!("cl.unblind {} {}", hex(&p), hex(rs.as_bytes())), obs, v);
  }
  let (c, o, v) = w.finish(head);
  out.case(c, o, v);
}
