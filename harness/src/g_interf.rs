//! Interference matrix: the result of an API call is a function of its arguments (and, where the property says so, of the
//! object it is called on) - never of what else ran before on the same thread.  A fixed set of calls over all crates
//! is evaluated once each on a fresh thread (baseline) and then in a long seeded random sequence on one thread; for the
//! property under check, every call that belongs to it must give its baseline result at every position of the
//! sequence.  Calls of the other crates take part as interference sources only (they are not judged here).
//! This is what finds thread-local scratch buffers, memo tables keyed too coarsely, caches that survive an error path.
use crate::util::*;
use base64::prelude::*;
use ppoprf::ppoprf::{Client, Evaluation, Point, ProofDLEQ, Server, ServerPublicKey};
use sta_rs::{derive_ske_key, share_recover, AssociatedData, Message, MessageGenerator, SingleMeasurement};
use star_sharks::{Share as SShare, Sharks};
use star_test_utils::AggregationServer;
use star_wasm::{create_share, group_shares};
use std::convert::TryFrom;
use std::sync::Arc;

pub struct Call {
  pub name: &'static str,
  pub props: &'static [&'static str],
  pub f: Box<dyn Fn() -> String + Send + Sync>,
  /// for calls on a long-lived shared object: the same request put to a freshly created object (the expected result)
  pub fresh: Option<Box<dyn Fn() -> String + Send + Sync>>,
}
fn call(name: &'static str, props: &'static [&'static str], f: impl Fn() -> String + Send + Sync + 'static) -> Call {
  Call { name, props, f: Box::new(f), fresh: None }
}
fn call2(name: &'static str, props: &'static [&'static str], f: impl Fn() -> String + Send + Sync + 'static, fresh: impl Fn() -> String + Send + Sync + 'static) -> Call {
  Call { name, props, f: Box::new(f), fresh: Some(Box::new(fresh)) }
}
fn g<T: Into<String>>(f: impl FnOnce() -> T) -> String {
  guarded(|| f().into()).unwrap_or_else(|| "panic".to_string())
}
fn json_field(js: &str, key: &str) -> String {
  let pat = format!("\"{}\":\"", key);
  js.find(&pat).map(|i| js[i + pat.len()..].split('"').next().unwrap_or("").to_string()).unwrap_or_default()
}

pub fn calls() -> Vec<Call> {
  let mut v: Vec<Call> = vec![];
  // ---------------- sharks
  // two field elements (16 value bytes + 8 zero bytes each)
  let secret: Vec<u8> = (0..48u8).map(|i| if i % 24 < 16 { i.wrapping_mul(7).wrapping_add(1) } else { 0 }).collect();
  let deal = |t: u32, secret: &[u8]| -> Vec<Vec<u8>> {
    let mut rng = crate::g_sharks::ScriptRng::new((0..400u64).map(|i| i.wrapping_mul(0x9e3779b97f4a7c15) >> 1).collect());
    let ev = Sharks(t).dealer_rng(secret, &mut rng).unwrap();
    ev.take(t as usize + 2).map(|s| Vec::from(&s)).collect()
  };
  let sh3 = Arc::new(deal(3, &secret));
  {
    let s = secret.clone();
    v.push(call("sharks.deal", &["C06"], move || g(|| deal(3, &s).iter().map(|b| hex(b)).collect::<Vec<_>>().join(","))));
  }
  for (name, n) in [("sharks.recover.ok", 3usize), ("sharks.recover.few", 2), ("sharks.recover.all", 5)] {
    let sh = sh3.clone();
    v.push(call(name, &["C06", "C09"], move || {
      g(|| {
        let shares: Vec<SShare> = sh.iter().take(n).map(|b| SShare::try_from(b.as_slice()).unwrap()).collect();
        match Sharks(3).recover(&shares) {
          Ok(s) => hex(&s),
          Err(e) => format!("err {}", e),
        }
      })
    }));
  }
  {
    let sh = sh3.clone();
    v.push(call("sharks.decode.bad", &["C08", "C09"], move || g(|| format!("{:?}", SShare::try_from(&sh[0][..30]).is_ok()))));
  }
  // ---------------- adss
  let mk_adss = |t: u32, m: &[u8], r: &[u8]| -> Vec<Vec<u8>> {
    (0..t + 1).map(|_| adss::Commune::new(t, m.to_vec(), r.to_vec(), None).share().unwrap().to_bytes()).collect()
  };
  let am = b"interference message".to_vec();
  let ar: Vec<u8> = (0..32u8).collect();
  let ash = Arc::new(mk_adss(3, &am, &ar));
  let ash_other = Arc::new(mk_adss(3, b"another message", &ar));
  {
    let (m, r) = (am.clone(), ar.clone());
    v.push(call("adss.share", &["C16"], move || {
      g(|| crate::g_adss::static_part(&adss::Commune::new(3, m.clone(), r.clone(), None).share().unwrap().to_bytes()))
    }));
  }
  for (name, src, n) in [("adss.recover.ok", ash.clone(), 3usize), ("adss.recover.few", ash.clone(), 2), ("adss.recover.other", ash_other.clone(), 4)] {
    v.push(call(name, &["C16", "C05", "C09"], move || {
      g(|| {
        let shares: Vec<adss::Share> = src.iter().take(n).map(|b| adss::Share::from_bytes(b).unwrap()).collect();
        crate::g_adss::recover_obs(&shares)
      })
    }));
  }
  {
    let a = ash.clone();
    let b = ash_other.clone();
    v.push(call("adss.recover.mixed", &["C16", "C05", "C09"], move || {
      g(|| {
        let shares: Vec<adss::Share> = [&a[0], &b[1], &b[2]].iter().map(|x| adss::Share::from_bytes(x).unwrap()).collect();
        crate::g_adss::recover_obs(&shares)
      })
    }));
    let a2 = ash.clone();
    v.push(call("adss.decode.bad", &["C08", "C09"], move || g(|| format!("{:?}", adss::Share::from_bytes(&a2[0][..a2[0].len() - 3]).is_some()))));
  }
  // ---------------- star
  let mk_star = |m: &[u8], e: &[u8], t: u32, n: usize| -> Vec<Vec<u8>> {
    let mg = MessageGenerator::new(SingleMeasurement::new(m), t, e);
    let mut rnd = [0u8; 32];
    mg.sample_local_randomness(&mut rnd);
    (0..n).map(|i| Message::generate(&mg, &rnd, if i % 2 == 0 { Some(AssociatedData::new(&[i as u8, 7, 7])) } else { None }).unwrap().to_bytes()).collect()
  };
  let st_a = Arc::new(mk_star(b"measurement A", b"epoch1", 2, 3));
  let st_b = Arc::new(mk_star(b"measurement B", b"epoch1", 2, 3));
  v.push(call("star.generate", &["C01", "C04"], || {
    g(|| {
      let mg = MessageGenerator::new(SingleMeasurement::new(b"measurement A"), 2, b"epoch1");
      let mut rnd = [0u8; 32];
      mg.sample_local_randomness(&mut rnd);
      let m = Message::generate(&mg, &rnd, Some(AssociatedData::new(b"aux"))).unwrap();
      format!("{} {} {}", hex(&rnd), hex(&m.tag), hex(&m.ciphertext.to_bytes()))
    })
  }));
  for (name, src, n, ep) in [
    ("star.recover.ok", st_a.clone(), 2usize, &b"epoch1"[..]),
    ("star.recover.few", st_a.clone(), 1, &b"epoch1"[..]),
    ("star.recover.b", st_b.clone(), 3, &b"epoch1"[..]),
    ("star.recover.other_epoch", st_a.clone(), 2, &b"epoch2"[..]),
  ] {
    v.push(call(name, &["C01", "C02", "C05", "C09"], move || {
      g(|| {
        let msgs: Vec<Message> = src.iter().take(n).map(|b| Message::from_bytes(b).unwrap()).collect();
        let shares: Vec<sta_rs::Share> = msgs.iter().map(|m| m.share.clone()).collect();
        match share_recover(&shares) {
          Ok(c) => {
            let mut key = [0u8; 16];
            derive_ske_key(&c.get_message(), ep, &mut key);
            let pts: Vec<String> = msgs.iter().map(|m| hex(&m.ciphertext.decrypt(&key, "star_encrypt"))).collect();
            format!("ok {} {}", hex(&key), pts.join(","))
          }
          Err(_) => "err".to_string(),
        }
      })
    }));
  }
  {
    let a = st_a.clone();
    v.push(call("star.decode.bad", &["C08", "C09"], move || g(|| format!("{:?}", Message::from_bytes(&a[0][..a[0].len() - 5]).is_some()))));
  }
  // ---------------- wasm
  let wasm_list = |m: &[u8], t: u32, e: &str, n: usize| -> Vec<String> { (0..n).map(|_| json_field(&create_share(m, t, e), "share")).collect() };
  let w_a = Arc::new(wasm_list(b"wasm measurement", 3, "ep", 4));
  let w_b = Arc::new(wasm_list(b"other wasm measurement", 2, "ep", 2));
  v.push(call("wasm.create", &["C17"], || {
    g(|| {
      let js = create_share(b"wasm measurement", 3, "ep");
      format!("{} {}", json_field(&js, "key"), json_field(&js, "tag"))
    })
  }));
  for (name, src, n, ep, junk) in [
    ("wasm.group.ok", w_a.clone(), 3usize, "ep", ""),
    ("wasm.group.all", w_a.clone(), 4, "ep", ""),
    ("wasm.group.few", w_a.clone(), 2, "ep", ""),
    ("wasm.group.one", w_a.clone(), 1, "ep", ""),
    ("wasm.group.b", w_b.clone(), 2, "ep", ""),
    ("wasm.group.other_epoch", w_a.clone(), 3, "ep2", ""),
    ("wasm.group.trailing_newline", w_a.clone(), 3, "ep", "\n"),
    ("wasm.group.garbage_line", w_a.clone(), 3, "ep", "\n!!not base64!!"),
    ("wasm.group.bad_share", w_a.clone(), 3, "ep", "\nAAAA"),
  ] {
    v.push(call(name, &["C17", "C09"], move || {
      g(|| {
        let ser = format!("{}{}", src.iter().take(n).cloned().collect::<Vec<_>>().join("\n"), junk);
        match group_shares(&ser, ep) {
          Some(k) => format!("some {}", k),
          None => "none".to_string(),
        }
      })
    }));
  }
  // ---------------- aggregation server (one object asked repeatedly, and a fresh one)
  let agg = Arc::new(AggregationServer::new(2, "epoch1"));
  let agg_obs = |srv: &AggregationServer, wire: Vec<&Vec<u8>>| -> String {
    let msgs: Vec<Message> = wire.iter().map(|b| Message::from_bytes(b).unwrap()).collect();
    let mut outs: Vec<String> = srv
      .retrieve_outputs(&msgs)
      .into_iter()
      .map(|o| {
        let mut a: Vec<String> = o.aux.iter().map(|x| x.as_ref().map(|d| hex(&d.as_vec())).unwrap_or("~".into())).collect();
        a.sort();
        format!("{}:{}", hex(&o.x.as_vec()), a.join(","))
      })
      .collect();
    outs.sort();
    outs.join(" ")
  };
  {
    let (a, b, s) = (st_a.clone(), st_b.clone(), agg.clone());
    let (a2, b2) = (st_a.clone(), st_b.clone());
    v.push(call2("agg.shared.full", &["C18"], move || g(|| agg_obs(&s, a.iter().chain(b.iter()).collect())), move || g(|| agg_obs(&AggregationServer::new(2, "epoch1"), a2.iter().chain(b2.iter()).collect()))));
    let (a, b, s) = (st_a.clone(), st_b.clone(), agg.clone());
    let (a2, b2) = (st_a.clone(), st_b.clone());
    v.push(call2("agg.shared.a_few", &["C18"], move || g(|| agg_obs(&s, a.iter().take(1).chain(b.iter().take(2)).collect())), move || g(|| agg_obs(&AggregationServer::new(2, "epoch1"), a2.iter().take(1).chain(b2.iter().take(2)).collect()))));
    let (a, s) = (st_a.clone(), agg.clone());
    let a2 = st_a.clone();
    v.push(call2("agg.shared.one", &["C18"], move || g(|| agg_obs(&s, a.iter().take(1).collect())), move || g(|| agg_obs(&AggregationServer::new(2, "epoch1"), a2.iter().take(1).collect()))));
  }
  // ---------------- ppoprf
  let srv = Arc::new(Server::new(vec![1, 2, 200]).unwrap());
  let (bp, br) = Client::blind(b"ppoprf input");
  let bp = Arc::new(bp.as_bytes().to_vec());
  let pkb = Arc::new(srv.get_public_key().serialize_to_bincode().unwrap());
  let ev_js = Arc::new(serde_json::to_string(&srv.eval(&Point::from(&bp[..]), 1, true).unwrap()).unwrap());
  let proof_b = Arc::new(srv.eval(&Point::from(&bp[..]), 2, true).unwrap().proof.unwrap().serialize_to_bincode().unwrap());
  for md in [1u8, 2, 200, 3] {
    let (s, p) = (srv.clone(), bp.clone());
    let name: &'static str = match md { 1 => "pp.eval.1", 2 => "pp.eval.2", 200 => "pp.eval.200", _ => "pp.eval.unregistered" };
    v.push(call(name, &["C12", "C14", "C09"], move || {
      g(|| match s.eval(&Point::from(&p[..]), md, false) {
        Ok(e) => hex(e.output.as_bytes()),
        Err(_) => "err".to_string(),
      })
    }));
  }
  {
    let (s, p) = (srv.clone(), bp.clone());
    v.push(call("pp.eval.verify", &["C13", "C09"], move || {
      g(|| {
        let pt = Point::from(&p[..]);
        let e = s.eval(&pt, 2, true).unwrap();
        format!("{} {:?}", hex(e.output.as_bytes()), Client::verify(&s.get_public_key(), &pt, &e, 2))
      })
    }));
    let (s, p) = (srv.clone(), bp.clone());
    v.push(call("pp.verify.wrong_tag", &["C13", "C09"], move || {
      g(|| {
        let pt = Point::from(&p[..]);
        let e = s.eval(&pt, 2, true).unwrap();
        format!("{:?}", Client::verify(&s.get_public_key(), &pt, &e, 1))
      })
    }));
    let (s, p, r) = (srv.clone(), bp.clone(), br);
    v.push(call("pp.unblind.finalize", &["C12"], move || {
      g(|| {
        let e = s.eval(&Point::from(&p[..]), 1, false).unwrap();
        let u = Client::unblind(&e.output, &r);
        let mut out = [0u8; 32];
        Client::finalize(b"ppoprf input", 1, &u, &mut out);
        hex(&out)
      })
    }));
  }
  {
    let b = pkb.clone();
    v.push(call("pp.pk.load", &["C15", "C09"], move || g(|| match ServerPublicKey::load_from_bincode(&b) { Ok(p) => hex(&p.serialize_to_bincode().unwrap()), Err(_) => "err".into() })));
    let b = pkb.clone();
    v.push(call("pp.pk.load.cut", &["C15", "C09"], move || g(|| match ServerPublicKey::load_from_bincode(&b[..b.len() - 1]) { Ok(_) => "ok", Err(_) => "err" })));
    let b = pkb.clone();
    v.push(call("pp.pk.load.huge_count", &["C15", "C09"], move || {
      g(|| {
        let mut x = b.to_vec();
        x[32..40].copy_from_slice(&u64::MAX.to_le_bytes());
        match ServerPublicKey::load_from_bincode(&x) { Ok(_) => "ok", Err(_) => "err" }
      })
    }));
    let p = proof_b.clone();
    v.push(call("pp.proof.load", &["C15", "C09"], move || g(|| match ProofDLEQ::load_from_bincode(&p) { Ok(q) => hex(&q.serialize_to_bincode().unwrap()), Err(_) => "err".into() })));
    let p = proof_b.clone();
    v.push(call("pp.proof.load.cut", &["C15", "C09"], move || g(|| match ProofDLEQ::load_from_bincode(&p[..40]) { Ok(_) => "ok", Err(_) => "err" })));
    let p = proof_b.clone();
    v.push(call("pp.proof.load.noncanonical", &["C15", "C09"], move || {
      g(|| {
        let mut x = p.to_vec();
        for b in x[..32].iter_mut() { *b = 0xff; }
        match ProofDLEQ::load_from_bincode(&x) { Ok(_) => "ok", Err(_) => "err" }
      })
    }));
  }
  {
    let js = ev_js.clone();
    v.push(call("pp.json.eval", &["C15", "C09"], move || g(|| match serde_json::from_str::<Evaluation>(&js) { Ok(e) => format!("{} {}", hex(e.output.as_bytes()), e.proof.is_some()), Err(_) => "err".into() })));
    let js = ev_js.clone();
    v.push(call("pp.json.eval.bad_base64", &["C15", "C09"], move || {
      g(|| {
        let i = js.find("\"output\":\"").unwrap() + 10;
        let mut s = js.to_string();
        s.replace_range(i..i + 4, "AA*A");
        match serde_json::from_str::<Evaluation>(&s) { Ok(_) => "ok", Err(_) => "err" }
      })
    }));
    let js = ev_js.clone();
    v.push(call("pp.json.eval.short", &["C15", "C09"], move || {
      g(|| {
        let i = js.find("\"output\":\"").unwrap() + 10;
        let mut s = js.to_string();
        s.replace_range(i..i + 44, &BASE64_STANDARD.encode([7u8; 29]));
        match serde_json::from_str::<Evaluation>(&s) { Ok(_) => "ok", Err(_) => "err" }
      })
    }));
    let p = bp.clone();
    v.push(call("pp.json.point", &["C15", "C09"], move || {
      g(|| {
        let js = serde_json::to_string(&Point::from(&p[..])).unwrap();
        match serde_json::from_str::<Point>(&js) { Ok(q) => format!("{} {}", js.len(), hex(q.as_bytes())), Err(_) => "err".into() }
      })
    }));
  }
  v
}

/// baseline on fresh threads, then one long seeded sequence on one (new) thread; one case per judged call
pub fn gen(prop: &str, seed: u64, thorough: bool, out: &mut Out) {
  let cs = Arc::new(calls());
  let judged: Vec<usize> = (0..cs.len()).filter(|i| cs[*i].props.contains(&prop)).collect();
  if judged.is_empty() {
    return;
  }
  let baseline: Vec<String> = (0..cs.len())
    .map(|i| {
      let c = cs.clone();
      std::thread::spawn(move || match &c[i].fresh {
        Some(fr) => fr(),
        None => (c[i].f)(),
      })
      .join()
      .unwrap_or_else(|_| "panic".to_string())
    })
    .collect();
  let steps = if thorough { 3000 } else { 500 };
  let mut r = Prng::for_case(seed, "interference", 0);
  // every ordered pair (judged call after any call) at least once, then a random walk
  let mut order: Vec<usize> = vec![];
  for &j in &judged {
    for i in 0..cs.len() {
      order.push(i);
      order.push(j);
    }
  }
  for _ in 0..steps {
    order.push(r.below(cs.len() as u64) as usize);
  }
  let c = cs.clone();
  let ord = order.clone();
  let results: Vec<String> = std::thread::spawn(move || ord.iter().map(|&i| (c[i].f)()).collect()).join().unwrap_or_default();
  for &j in &judged {
    let mut verdict: Result<(), String> = Ok(());
    if baseline[j] == "panic" {
      verdict = Err(format!("{} panics on a fresh thread", cs[j].name));
    }
    for (k, &i) in order.iter().enumerate() {
      if i == j && results.get(k) != Some(&baseline[j]) && verdict.is_ok() {
        let prev: Vec<&str> = order[k.saturating_sub(3)..k].iter().map(|&p| cs[p].name).collect();
        verdict = Err(format!(
          "{} gives {} on a fresh thread but {} at step {} of a sequence on one thread (after {})",
          cs[j].name,
          &baseline[j].chars().take(60).collect::<String>(),
          results.get(k).map(|s| s.chars().take(60).collect::<String>()).unwrap_or("nothing".into()),
          k,
          prev.join(", ")
        ));
      }
    }
    out.case(format!("selfcheck interference {}", cs[j].name), "ok".to_string(), verdict);
  }
}
