//! C07: the share field against the big-integer model.
use crate::util::*;
use ff::{Field, PrimeField};
use star_sharks::{Fp, FpRepr};
use std::convert::TryFrom;

pub const P_LO: u128 = 12451; // p = 2^128 + 12451

pub fn le24(hi: u64, lo: u128) -> Vec<u8> {
  let mut v = lo.to_le_bytes().to_vec();
  v.extend(hi.to_le_bytes());
  v
}
pub fn is_canonical(b: &[u8]) -> bool {
  if b.len() != 24 {
    return false;
  }
  let lo = u128::from_le_bytes(b[..16].try_into().unwrap());
  let hi = u64::from_le_bytes(b[16..].try_into().unwrap());
  hi == 0 || (hi == 1 && lo < P_LO)
}
pub fn fp_of(b: &[u8]) -> Option<Fp> {
  let arr: [u8; 24] = b.try_into().ok()?;
  Option::from(Fp::from_repr(FpRepr(arr)))
}
pub fn bytes_of(f: &Fp) -> Vec<u8> {
  f.to_repr().as_ref().to_vec()
}

pub fn lattice() -> Vec<Vec<u8>> {
  let mut v = vec![];
  for lo in [0u128, 1, 2, 3, 12450, 12451 % (1 << 127), (1u128 << 64) - 1, 1u128 << 64, (1u128 << 64) + 1, (1u128 << 127) - 1, 1u128 << 127, u128::MAX - 1, u128::MAX] {
    v.push(le24(0, lo));
  }
  for lo in [0u128, 1, 2, 12449, 12450] {
    v.push(le24(1, lo)); // 2^128 .. p-1
  }
  // (p-1)/2 = 2^127 + 6225, (p+1)/2
  v.push(le24(0, (1u128 << 127) + 6225));
  v.push(le24(0, (1u128 << 127) + 6226));
  v
}

fn rand_elem(r: &mut Prng) -> Vec<u8> {
  loop {
    let lo = ((r.next() as u128) << 64) | r.next() as u128;
    let hi = r.below(2);
    let b = le24(hi, lo);
    if is_canonical(&b) {
      return b;
    }
  }
}

pub fn gen(seed: u64, thorough: bool, _only: Option<u64>, out: &mut Out) {
  let mut vals = lattice();
  // ... and elements whose internal (Montgomery, times 2^192) form is 1, 2^64 - 1, 2^64, 2^128 - 1, 2^128
  {
    let rinv = Fp::from(2u64).invert().unwrap().pow_vartime([192u64]);
    for internal in [le24(0, 1), le24(0, (1u128 << 64) - 1), le24(0, 1u128 << 64), le24(0, u128::MAX), le24(1, 0)] {
      vals.push(bytes_of(&(fp_of(&internal).unwrap() * rinv)));
    }
  }
  let mut r = Prng::for_case(seed, "C07", 0);
  let extra = if thorough { 120 } else { 8 };
  for _ in 0..extra {
    vals.push(rand_elem(&mut r));
  }
  let one = Fp::ONE;
  // binary operations over the full square of the value set
  for a in &vals {
    for b in &vals {
      let (fa, fb) = (fp_of(a).unwrap(), fp_of(b).unwrap());
      for op in ["add", "sub", "mul"] {
        let res = match op {
          "add" => fa + fb,
          "sub" => fa - fb,
          _ => fa * fb,
        };
        let v = match op {
          "add" => (res - fb == fa).then_some(()).ok_or("(a+b)-b != a".to_string()),
          "sub" => (res + fb == fa).then_some(()).ok_or("(a-b)+b != a".to_string()),
          _ => (res == fb * fa).then_some(()).ok_or("a*b != b*a".to_string()),
        };
        out.case(format!("fp.bin {} {} {}", op, hex(a), hex(b)), hex(&bytes_of(&res)), v);
      }
    }
  }
  // unary operations
  for a in &vals {
    let fa = fp_of(a).unwrap();
    out.case(format!("fp.un neg {}", hex(a)), hex(&bytes_of(&-fa)), if fa + (-fa) == Fp::ZERO { Ok(()) } else { Err("a + -a != 0".into()) });
    out.case(format!("fp.un dbl {}", hex(a)), hex(&bytes_of(&fa.double())), if fa.double() == fa + fa { Ok(()) } else { Err("double".into()) });
    out.case(format!("fp.un sq {}", hex(a)), hex(&bytes_of(&fa.square())), if fa.square() == fa * fa { Ok(()) } else { Err("square".into()) });
    let inv: Option<Fp> = Option::from(fa.invert());
    let invs = match &inv {
      Some(i) => hex(&bytes_of(i)),
      None => "none".into(),
    };
    let v = match &inv {
      Some(i) => (*i * fa == one).then_some(()).ok_or("a * inv a != 1".to_string()),
      None => (fa == Fp::ZERO).then_some(()).ok_or("invert refused a non-zero element".to_string()),
    };
    out.case(format!("fp.un inv {}", hex(a)), invs, v);
    let sq: Option<Fp> = guarded(|| Option::from(fa.sqrt())).unwrap_or(None);
    let sqs = match &sq {
      Some(s) => hex(&bytes_of(s)),
      None => "none".into(),
    };
    let v = match &sq {
      Some(s) => (*s * *s == fa).then_some(()).ok_or("sqrt(a)^2 != a".to_string()),
      None => Ok(()),
    };
    out.case(format!("fp.un sqrt {}", hex(a)), sqs, v);
    // a square always has a root
    let s2 = fa.square();
    let rt: Option<Fp> = Option::from(s2.sqrt());
    out.case(
      format!("fp.un sqrt {}", hex(&bytes_of(&s2))),
      match &rt {
        Some(s) => hex(&bytes_of(s)),
        None => "none".into(),
      },
      match &rt {
        Some(s) => (*s * *s == s2).then_some(()).ok_or("sqrt(a^2)^2 != a^2".to_string()),
        None => Err("a square has no root".into()),
      },
    );
    // exponentiation with small, limb-boundary and full-width exponents
    for e in [[0u64, 0, 0, 0], [1, 0, 0, 0], [2, 0, 0, 0], [u64::MAX, 0, 0, 0], [0, 1, 0, 0], [12450, 0, 1, 0], [r.next(), r.next(), r.next() & 1, 0]] {
      let res = fa.pow_vartime(e);
      let es = format!("0x{:016x}{:016x}{:016x}{:016x}", e[3], e[2], e[1], e[0]);
      out.case(format!("fp.pow {} {}", hex(a), es), hex(&bytes_of(&res)), Ok(()));
    }
  }
  // decoding: canonical, at and above the modulus, high limb set, random 24-byte strings
  let mut strings: Vec<Vec<u8>> = vals.clone();
  for lo in [12451u128, 12452, 1 << 64, u128::MAX] {
    strings.push(le24(1, lo));
  }
  for hi in [2u64, 3, 1 << 32, u64::MAX] {
    strings.push(le24(hi, 0));
    strings.push(le24(hi, u128::MAX));
  }
  for _ in 0..(if thorough { 4000 } else { 60 }) {
    let mut b = r.bytes(24);
    match r.below(4) {
      0 => {
        for x in b[17..].iter_mut() {
          *x = 0
        }
        b[16] &= 1;
      }
      1 => {
        for x in b[16..].iter_mut() {
          *x = 0
        }
      }
      _ => {}
    }
    strings.push(b);
  }
  for s in &strings {
    let d = fp_of(s);
    let obs = match &d {
      Some(f) => format!("ok {}", hex(&bytes_of(f))),
      None => "none".into(),
    };
    let v = match &d {
      Some(f) => {
        if !is_canonical(s) {
          Err("non-canonical encoding accepted".to_string())
        } else if bytes_of(f) != *s {
          Err("decode then encode changes the bytes".to_string())
        } else {
          Ok(())
        }
      }
      None => (!is_canonical(s)).then_some(()).ok_or("canonical encoding rejected".to_string()),
    };
    out.case(format!("fp.dec {}", hex(s)), obs, v);
  }
  // the byte conversions of the crate built on the field: Vec<u8>::from(Fp) and Share::try_from
  for a in &vals {
    let fa = fp_of(a).unwrap();
    let v: Vec<u8> = Vec::from(fa);
    out.case(format!("fp.vec {}", hex(a)), hex(&v), if v == *a { Ok(()) } else { Err("Vec<u8>::from(Fp) differs from the canonical encoding".into()) });
  }
  for s in &strings {
    for pos in 0..2 {
      // the string as x (pos 0) or as the single y (pos 1) of a share
      let mut b = if pos == 0 { s.clone() } else { le24(0, 5) };
      b.extend(if pos == 0 { le24(0, 5) } else { s.clone() });
      let d = star_sharks::Share::try_from(b.as_slice()).ok();
      let obs = match &d {
        Some(sh) => format!("ok {}", hex(&Vec::from(sh))),
        None => "err".into(),
      };
      let v = match &d {
        Some(sh) => {
          if !is_canonical(s) {
            Err("share with a non-canonical element accepted".to_string())
          } else if Vec::from(sh) != b {
            Err("share decode then encode changes the bytes".to_string())
          } else {
            Ok(())
          }
        }
        None => (!is_canonical(s)).then_some(()).ok_or("share of canonical elements rejected".to_string()),
      };
      out.case(format!("sharks.decode {}", hex(&b)), obs, v);
    }
  }
  // Fp::random: limb triples through the Montgomery reading
  for i in 0..(if thorough { 2000 } else { 60 }) {
    let (a, b, c) = match i {
      0 => (0, 0, 0),
      1 => (1, 0, 0),
      2 => (12450, 0, 1),
      3 => (12451, 0, 1),
      4 => (u64::MAX, u64::MAX, 0),
      5 => (0, 0, u64::MAX),
      6 => (0, 0, u64::MAX - 1),
      _ => (r.next(), r.next(), r.next()),
    };
    let mut rng = crate::g_sharks::ScriptRng::new(vec![a, b, c, 7, 7, 6]);
    let f = Fp::random(&mut rng);
    let accepted = rng.used == 3;
    out.case(
      format!("fp.limbs 0x{:x} 0x{:x} 0x{:x}", a, b, c),
      if accepted { format!("ok {}", hex(&bytes_of(&f))) } else { "none".into() },
      Ok(()),
    );
  }
  // published constants
  let consts = format!(
    "modulus={} num_bits={} capacity={} s={} two_inv={} gen={} rou={} rou_inv={} delta={}",
    Fp::MODULUS.trim_start_matches("0x").trim_start_matches('0'),
    Fp::NUM_BITS,
    Fp::CAPACITY,
    Fp::S,
    hex(&bytes_of(&Fp::TWO_INV)),
    hex(&bytes_of(&Fp::MULTIPLICATIVE_GENERATOR)),
    hex(&bytes_of(&Fp::ROOT_OF_UNITY)),
    hex(&bytes_of(&Fp::ROOT_OF_UNITY_INV)),
    hex(&bytes_of(&Fp::DELTA))
  );
  let g = Fp::MULTIPLICATIVE_GENERATOR;
  let half = [(1u64 << 63) | 0, 1u64 << 63, 0, 0]; // (p-1)/2 = 2^127 + 6225 -> set below
  let _ = half;
  let e_half = [6225u64, 1u64 << 63, 0, 0];
  let v = if Fp::TWO_INV.double() != one {
    Err("2 * TWO_INV != 1".to_string())
  } else if g.pow_vartime(e_half) == one {
    Err("MULTIPLICATIVE_GENERATOR is a quadratic residue".to_string())
  } else if Fp::ROOT_OF_UNITY == one || Fp::ROOT_OF_UNITY.square() != one {
    Err("ROOT_OF_UNITY is not a primitive 2^S-th root of unity".to_string())
  } else if Fp::ROOT_OF_UNITY * Fp::ROOT_OF_UNITY_INV != one {
    Err("ROOT_OF_UNITY_INV".to_string())
  } else if Fp::DELTA != g.square() {
    Err("DELTA != g^(2^S)".to_string())
  } else {
    Ok(())
  };
  out.case("fp.const".to_string(), consts, v);
}

// ------------------------------------------------------------------------------------------------------------------
// limb level: the internal Montgomery limbs of every result (`Vec<u64>::from(Fp)`), on operands whose internal limbs are
// chosen directly (through a scripted random source: `Fp::random` keeps three words below the modulus as they are)

fn fp_of_limbs(l: [u64; 3]) -> Option<Fp> {
  let mut rng = crate::g_sharks::ScriptRng::new(vec![l[0], l[1], l[2], 1, 0, 0]);
  let f = Fp::random(&mut rng);
  if rng.used == 3 {
    Some(f)
  } else {
    None
  }
}
fn limbs_of(f: &Fp) -> [u64; 3] {
  let v: Vec<u64> = Vec::from(*f);
  [v[0], v[1], v[2]]
}
fn ls(l: [u64; 3]) -> String {
  format!("0x{:016x},0x{:016x},0x{:016x}", l[0], l[1], l[2])
}
fn la(l: [u64; 3]) -> String {
  format!("0x{:016x} 0x{:016x} 0x{:016x}", l[0], l[1], l[2])
}

pub fn gen_limbs(seed: u64, thorough: bool, out: &mut Out) {
  let m = u64::MAX;
  // internal forms on and next to every limb and carry boundary, the extreme valid triple (p - 1), ONE = R, R2
  let mut vals: Vec<[u64; 3]> = vec![
    [0, 0, 0], [1, 0, 0], [2, 0, 0], [12450, 0, 0], [12451, 0, 0], [m, 0, 0], [m - 1, 0, 0], [1 << 63, 0, 0], [(1 << 63) - 1, 0, 0],
    [0, 1, 0], [m, 1, 0], [0, m, 0], [m, m, 0], [m - 1, m, 0], [0, 1 << 63, 0], [m, (1 << 63) - 1, 0], [1, m, 0],
    [0, 0, 1], [1, 0, 1], [12449, 0, 1], [12450, 0, 1],
    limbs_of(&Fp::ONE), limbs_of(&Fp::TWO_INV), limbs_of(&Fp::MULTIPLICATIVE_GENERATOR), limbs_of(&Fp::ROOT_OF_UNITY), limbs_of(&Fp::DELTA),
    limbs_of(&Fp::from(1u64)), limbs_of(&Fp::from(u64::MAX)),
  ];
  let mut r = Prng::for_case(seed, "C07-limbs", 0);
  for _ in 0..(if thorough { 150 } else { 12 }) {
    vals.push([r.next(), r.next(), 0]);
  }
  let elems: Vec<([u64; 3], Fp)> = vals.iter().filter_map(|l| fp_of_limbs(*l).map(|f| (*l, f))).collect();
  // the scripted source must hand the limbs over unchanged
  for (l, f) in &elems {
    if limbs_of(f) != *l {
      out.case(format!("fpl.rand {}", la(*l)), ls(limbs_of(f)), Err("Fp::random changed accepted words".into()));
    }
  }
  for (la_, fa) in &elems {
    for (lb_, fb) in &elems {
      for op in ["add", "sub", "mul"] {
        let res = match op {
          "add" => *fa + *fb,
          "sub" => *fa - *fb,
          _ => *fa * *fb,
        };
        let lr = limbs_of(&res);
        let valid = lr[2] == 0 || (lr[2] == 1 && lr[1] == 0 && lr[0] < 12451);
        out.case(format!("fpl.bin {} {} {}", op, la(*la_), la(*lb_)), ls(lr), if valid { Ok(()) } else { Err("result limbs are not below the modulus".into()) });
      }
      // Ord (through the canonical integers) and == (on the internal limbs)
      let ord = match fa.cmp(fb) { std::cmp::Ordering::Less => "lt", std::cmp::Ordering::Equal => "eq", std::cmp::Ordering::Greater => "gt" };
      let consistent = (ord == "eq") == (fa == fb) && (fa == fb) == (la_ == lb_) && fb.cmp(fa) == fa.cmp(fb).reverse();
      out.case(format!("fpl.cmp {} {}", la(*la_), la(*lb_)), format!("{} {}", ord, if fa == fb { "same" } else { "differ" }), if consistent { Ok(()) } else { Err("Ord and == disagree with each other or with the limbs".into()) });
    }
  }
  for (l, fa) in &elems {
    out.case(format!("fpl.un neg {}", la(*l)), ls(limbs_of(&-*fa)), Ok(()));
    out.case(format!("fpl.un dbl {}", la(*l)), ls(limbs_of(&fa.double())), Ok(()));
    out.case(format!("fpl.un sq {}", la(*l)), ls(limbs_of(&fa.square())), if fa.square() == *fa * *fa { Ok(()) } else { Err("square differs from the product".into()) });
    let canon = fa.to_repr();
    let cb = canon.as_ref();
    let cl = [u64::from_le_bytes(cb[0..8].try_into().unwrap()), u64::from_le_bytes(cb[8..16].try_into().unwrap()), u64::from_le_bytes(cb[16..24].try_into().unwrap())];
    out.case(format!("fpl.un canon {}", la(*l)), format!("{} {} {}", ls(cl), hex(cb), if bool::from(fa.is_odd()) { "odd" } else { "even" }), Ok(()));
    let inv: Option<Fp> = Option::from(fa.invert());
    out.case(format!("fpl.un inv {}", la(*l)), inv.map(|i| ls(limbs_of(&i))).unwrap_or("none".into()), Ok(()));
    let sq: Option<Fp> = guarded(|| Option::from(fa.sqrt())).unwrap_or(None);
    out.case(format!("fpl.un sqrt {}", la(*l)), sq.map(|i| ls(limbs_of(&i))).unwrap_or("none".into()), Ok(()));
    let s2 = fa.square();
    let rt: Option<Fp> = Option::from(s2.sqrt());
    out.case(format!("fpl.un sqrt {}", la(limbs_of(&s2))), rt.map(|i| ls(limbs_of(&i))).unwrap_or("none".into()), if rt.is_some() { Ok(()) } else { Err("a square has no root".into()) });
    for e in [[0u64, 0, 0, 0], [1, 0, 0, 0], [3, 0, 0, 0], [m, 0, 0, 0], [0, 1, 0, 0], [12449, 0, 1, 0], [r.next(), r.next(), r.next() & 1, 0]] {
      out.case(format!("fpl.pow {} 0x{:x} 0x{:x} 0x{:x} 0x{:x}", la(*l), e[0], e[1], e[2], e[3]), ls(limbs_of(&fa.pow_vartime(e))), Ok(()));
    }
  }
  // from_repr / From<u64> / one round of random, down to the limbs
  for s in lattice().iter().chain([le24(1, 12451), le24(1, 12452), le24(2, 0), le24(u64::MAX, u128::MAX)].iter()) {
    let d = fp_of(s);
    out.case(format!("fpl.from {}", hex(s)), d.map(|f| ls(limbs_of(&f))).unwrap_or("none".into()), Ok(()));
  }
  for v in [0u64, 1, 2, 12450, 12451, 1 << 32, 1 << 63, m - 1, m, r.next()] {
    out.case(format!("fpl.u64 0x{:x}", v), ls(limbs_of(&Fp::from(v))), Ok(()));
  }
  for i in 0..(if thorough { 400 } else { 30 }) {
    let w = match i {
      0 => [12450, 0, 1],
      1 => [12451, 0, 1],
      2 => [12450, 0, m],
      3 => [0, 1, 3],
      4 => [m, m, 2],
      _ => [r.next(), r.next(), r.next()],
    };
    let mut rng = crate::g_sharks::ScriptRng::new(vec![w[0], w[1], w[2], 9, 9, 0]);
    let f = Fp::random(&mut rng);
    out.case(format!("fpl.rand {}", la(w)), if rng.used == 3 { ls(limbs_of(&f)) } else { "none".into() }, Ok(()));
  }
  out.case(
    "fpl.const".to_string(),
    format!(
      "{} {} {} {} {} {} {} {}",
      ls(limbs_of(&Fp::ONE)),
      ls(limbs_of(&r2_limbs())),
      ls(limbs_of(&Fp::TWO_INV)),
      ls(limbs_of(&Fp::MULTIPLICATIVE_GENERATOR)),
      ls(limbs_of(&Fp::ROOT_OF_UNITY)),
      ls(limbs_of(&Fp::ROOT_OF_UNITY_INV)),
      ls(limbs_of(&Fp::DELTA)),
      ls(modulus_limbs())
    ),
    Ok(()),
  );
}
/// R2 = 2^384 mod p in Montgomery form is the element 2^192: the element whose canonical value is 2^192 mod p
fn r2_limbs() -> Fp {
  // internal limbs R2 <=> field element R2 * 2^-192 = 2^192 mod p
  Fp::from(2u64).pow_vartime([192u64])
}
/// the modulus as the type publishes it (hex string), cut into limbs
fn modulus_limbs() -> [u64; 3] {
  let h = Fp::MODULUS.trim_start_matches("0x");
  let v = u128::from_str_radix(&h[h.len().saturating_sub(32)..], 16).unwrap_or(0);
  let hi = u64::from_str_radix(&h[..h.len().saturating_sub(32)], 16).unwrap_or(0);
  [v as u64, (v >> 64) as u64, hi]
}
