//! C08 (round trips, canonical form, rejection) and the decoder part of C09 (no panics).
use crate::layout::*;
use crate::util::*;
use adss::Commune;
use sta_rs::{AssociatedData, Message, MessageGenerator, SingleMeasurement};
use star_sharks::Share as SShare;
use std::convert::TryFrom;

fn obs_adss(b: &[u8]) -> String {
  match guarded(|| adss::Share::from_bytes(b).map(|s| s.to_bytes())) {
    Some(Some(e)) => format!("ok {}", hex(&e)),
    Some(None) => "err".into(),
    None => "panic".into(),
  }
}
fn obs_star(b: &[u8]) -> String {
  match guarded(|| Message::from_bytes(b).map(|s| s.to_bytes())) {
    Some(Some(e)) => format!("ok {}", hex(&e)),
    Some(None) => "err".into(),
    None => "panic".into(),
  }
}
fn obs_sharks(b: &[u8]) -> String {
  match guarded(|| SShare::try_from(b).ok().map(|s| Vec::from(&s))) {
    Some(Some(e)) => format!("ok {}", hex(&e)),
    Some(None) => "err".into(),
    None => "panic".into(),
  }
}
fn obs_load(b: &[u8]) -> String {
  match guarded(|| adss::load_bytes(b).map(|s| s.to_vec())) {
    Some(Some(e)) => format!("ok {}", hex(&e)),
    Some(None) => "err".into(),
    None => "panic".into(),
  }
}

fn verdict(obs: &str, expect: Option<Vec<u8>>) -> Result<(), String> {
  match (obs, expect) {
    ("panic", _) => Err("decoder panicked".into()),
    ("err", None) => Ok(()),
    ("err", Some(_)) => Err("structurally valid string rejected".into()),
    (o, None) if o.starts_with("ok") => Err("structurally invalid string accepted".into()),
    (_, None) => Err("unexpected decoder observation".into()),
    (o, Some(c)) => {
      if o == format!("ok {}", hex(&c)) {
        Ok(())
      } else {
        Err("re-encoding of the accepted string is not its canonical form".into())
      }
    }
  }
}

pub fn emit(kind: &str, b: &[u8], out: &mut Out) {
  match kind {
    "adss" => {
      let o = obs_adss(b);
      let v = verdict(&o, indep_share(b));
      out.case(format!("adss.decode {}", hex(b)), o, v);
    }
    "star" => {
      let o = obs_star(b);
      let v = verdict(&o, indep_message(b));
      out.case(format!("star.decode {}", hex(b)), o, v);
    }
    "sharks" => {
      let o = obs_sharks(b);
      let v = verdict(&o, indep_sharks(b));
      out.case(format!("sharks.decode {}", hex(b)), o, v);
    }
    _ => {
      let o = obs_load(b);
      let exp = if b.len() >= 4 {
        let l = u32::from_le_bytes([b[0], b[1], b[2], b[3]]) as usize;
        if b.len() - 4 >= l { Some(b[4..4 + l].to_vec()) } else { None }
      } else {
        None
      };
      let v = verdict(&o, exp);
      out.case(format!("adss.load_bytes {}", hex(b)), o, v);
    }
  }
}

const LEN_FAULTS: &[u32] = &[0, 1, 23, 24, 25, 47, 48, 64, 0x7fff_ffff, 0x8000_0000, 0xffff_fffb, 0xffff_fffc, 0xffff_fffd, 0xffff_fffe, 0xffff_ffff];

fn mutate_all(kind: &str, e: &[u8], r: &mut Prng, dense: bool, out: &mut Out) {
  // every prefix (or a sample of them for long strings)
  let step = if dense || e.len() <= 260 { 1 } else { 1 + e.len() / 200 };
  let mut n = 0;
  while n < e.len() {
    emit(kind, &e[..n], out);
    n += step;
  }
  // trailing bytes
  for extra in [1usize, 4, 64] {
    let mut b = e.to_vec();
    b.extend(r.bytes(extra));
    emit(kind, &b, out);
  }
  // every length field set to each boundary value, and to its own value +-1
  let offs: Vec<usize> = match kind {
    "adss" => share_len_offsets(e),
    "star" => {
      let mut v = vec![];
      let mut off = 0;
      for i in 0..3 {
        if e.len() < off + 4 {
          break;
        }
        v.push(off);
        let len = u32::from_le_bytes([e[off], e[off + 1], e[off + 2], e[off + 3]]) as usize;
        if i == 1 {
          for o in share_len_offsets(&e[off + 4..(off + 4 + len).min(e.len())]) {
            v.push(off + 4 + o);
          }
        }
        off += 4 + len;
      }
      v
    }
    "load" => vec![0],
    _ => vec![],
  };
  for &o in &offs {
    let cur = u32::from_le_bytes([e[o], e[o + 1], e[o + 2], e[o + 3]]);
    let mut vals: Vec<u32> = LEN_FAULTS.to_vec();
    vals.extend([cur.wrapping_sub(1), cur.wrapping_add(1), cur.wrapping_sub(24), cur.wrapping_add(24)]);
    for v in vals {
      let mut b = e.to_vec();
      b[o..o + 4].copy_from_slice(&v.to_le_bytes());
      emit(kind, &b, out);
    }
  }
  // byte / bit faults at every offset (or sampled)
  let positions: Vec<usize> = if dense || e.len() <= 200 { (0..e.len()).collect() } else { (0..120).map(|_| r.below(e.len() as u64) as usize).collect() };
  for pos in positions {
    let f = r.below(4);
    let mut b = e.to_vec();
    b[pos] = match f {
      0 => b[pos] ^ (1 << r.below(8)),
      1 => 0,
      2 => 0xff,
      _ => b[pos].wrapping_add(1),
    };
    emit(kind, &b, out);
  }
}

pub fn honest_values(r: &mut Prng, n: usize) -> (Vec<Vec<u8>>, Vec<Vec<u8>>, Vec<Vec<u8>>) {
  let mut shares = vec![];
  let mut msgs = vec![];
  let mut sharks = vec![];
  for i in 0..n {
    let t = *r.pick(&[1u32, 2, 3, 5]);
    let ml = *r.pick(&[0usize, 1, 4, 16, 33, 166, 200]);
    let rl = *r.pick(&[0usize, 1, 4, 16, 33]);
    let c = Commune::new(t, r.blob(ml), r.blob(rl), None);
    if let Ok(s) = c.share() {
      shares.push(s.to_bytes());
    }
    let m = { let l_ = *r.pick(&[0usize, 1, 5, 32, 170]); r.blob(l_) };
    let e = { let l_ = *r.pick(&[0usize, 1, 2, 8]); r.blob(l_) };
    let mg = MessageGenerator::new(SingleMeasurement::new(&m), t, &e);
    let mut rnd = [0u8; 32];
    mg.sample_local_randomness(&mut rnd);
    let aux = match i % 3 {
      0 => None,
      1 => Some(AssociatedData::new(&[])),
      _ => Some(AssociatedData::new(&{ let l_ = 1 + r.below(40) as usize; r.blob(l_) })),
    };
    if let Ok(msg) = Message::generate(&mg, &rnd, aux) {
      msgs.push(msg.to_bytes());
    }
    // a Shamir share with 0..3 y values, built from canonical elements
    let k = r.below(4) as usize;
    let mut b = crate::g_fp::le24(0, r.next() as u128 + 1);
    for _ in 0..k {
      b.extend(crate::g_fp::le24(r.below(2), if r.below(2) == 0 { r.below(12451) as u128 } else { 0 }));
    }
    sharks.push(b);
  }
  (shares, msgs, sharks)
}

pub fn gen(seed: u64, thorough: bool, _only: Option<u64>, out: &mut Out) {
  let mut r = Prng::for_case(seed, "C08", 0);
  let (shares, msgs, sharks) = honest_values(&mut r, if thorough { 40 } else { 5 });
  for (i, e) in shares.iter().enumerate() {
    emit("adss", e, out);
    mutate_all("adss", e, &mut r, thorough || i == 0, out);
  }
  // the shortest honest shares: empty or one-byte message and coins (a share of an empty sharing is the shortest
  // string the decoder must still accept), every threshold width
  for (ml, rl) in [(0usize, 0usize), (1, 0), (0, 1), (1, 1), (0, 16), (16, 0)] {
    for t in [1u32, 2, 256, 65536] {
      let c = Commune::new(t, r.blob(ml), r.blob(rl), None);
      if let Ok(sh) = c.share() {
        emit("adss", &sh.to_bytes(), out);
      }
      if t > 2 {
        break;
      }
    }
  }
  // an honest share whose Shamir chunk carries 1..23 surplus bytes (an incomplete further element, which the Shamir
  // decoder ignores) with a consistent length prefix; and minimal strings all of whose length prefixes are satisfied
  if let Some(e) = shares.first() {
    if let Some(f) = split_share(e) {
      for extra in [1usize, 4, 23] {
        let mut g = ShareFields { a: f.a.clone(), s: f.s.clone(), c: f.c.clone(), d: f.d.clone(), j: f.j.clone() };
        g.s.extend(match extra { 4 => vec![36u8, 0, 0, 0], n => vec![0xabu8; n] });
        emit("adss", &join_share(&g), out);
      }
    }
  }
  for mac in [0usize, 1, 23, 40, 63, 64] {
    for with_x in [false, true] {
      let mut b = vec![2u8, 0, 0, 0];
      if with_x {
        b.extend(24u32.to_le_bytes());
        b.extend(crate::g_fp::le24(0, 5));
      } else {
        b.extend(0u32.to_le_bytes());
      }
      b.extend(0u32.to_le_bytes());
      b.extend(0u32.to_le_bytes());
      b.extend(vec![7u8; mac]);
      emit("adss", &b, out);
    }
  }
  emit("adss", &vec![0u8; 16], out);
  for (i, e) in msgs.iter().enumerate() {
    emit("star", e, out);
    mutate_all("star", e, &mut r, thorough && i < 4, out);
  }
  for e in sharks.iter() {
    emit("sharks", e, out);
    mutate_all("sharks", e, &mut r, true, out);
  }
  // load_bytes on its own
  for l in [0usize, 1, 3, 4, 5, 40] {
    let mut b = (l as u32).to_le_bytes().to_vec();
    b.extend(r.bytes(l));
    emit("load", &b, out);
    mutate_all("load", &b, &mut r, true, out);
  }
  // the two framing helpers on their own: load_u32 on 0..8 bytes (only exactly four are a number), store_u32 /
  // store_bytes written out and read back
  for l in 0..9usize {
    let b = r.bytes(l);
    let got = guarded(|| adss::load_u32(&b));
    let obs = match got {
      Some(Some(v)) => format!("some {}", v),
      Some(None) => "none".into(),
      None => "panic".into(),
    };
    let v = match got {
      Some(Some(v)) if l == 4 && v == u32::from_le_bytes([b[0], b[1], b[2], b[3]]) => Ok(()),
      Some(None) if l != 4 => Ok(()),
      None => Err("load_u32 panicked".to_string()),
      _ => Err("load_u32 does not read exactly four little-endian bytes".to_string()),
    };
    out.case(format!("adss.load_u32 {}", hex(&b)), obs, v);
  }
  for l in [0usize, 1, 255, 256, 70000] {
    let body = r.bytes(l);
    let mut w = vec![0xaa];
    adss::store_bytes(&body, &mut w);
    let mut w2 = vec![];
    adss::store_u32(l as u32, &mut w2);
    let ok = w[0] == 0xaa && w[1..5] == w2[..] && adss::load_bytes(&w[1..]).map(|x| x.to_vec()) == Some(body.clone()) && adss::load_u32(&w2) == Some(l as u32);
    out.case(format!("adss.store_bytes {}", hex(&body)), hex(&w[1..]), if ok { Ok(()) } else { Err("store_bytes / store_u32 do not append the documented framing".into()) });
  }
  // splices of two valid encodings and random strings
  for i in 0..shares.len().min(msgs.len()) {
    let a = &shares[i];
    let b = &shares[(i + 1) % shares.len()];
    let cut = r.below(a.len() as u64) as usize;
    let cut2 = r.below(b.len() as u64) as usize;
    let mut s = a[..cut].to_vec();
    s.extend(&b[cut2..]);
    emit("adss", &s, out);
    let mut s2 = a.clone();
    s2.extend(b.iter());
    emit("adss", &s2, out);
    let m1 = &msgs[i];
    let m2 = &msgs[(i + 1) % msgs.len()];
    let c1 = r.below(m1.len() as u64) as usize;
    let c2 = r.below(m2.len() as u64) as usize;
    let mut s3 = m1[..c1].to_vec();
    s3.extend(&m2[c2..]);
    emit("star", &s3, out);
  }
  for _ in 0..(if thorough { 3000 } else { 150 }) {
    let n = r.below(200) as usize;
    let b = r.bytes(n);
    emit(*r.pick(&["adss", "star", "sharks", "load"]), &b, out);
  }
}

/// C09: structurally valid but degenerate values handed to recovery
pub fn gen_degenerate(seed: u64, thorough: bool, out: &mut Out) {
  use crate::g_adss::{decode_all, recover_obs};
  // forged share points inside an otherwise honest quorum: x = 0 (the point where the secret lives), x = p - 1,
  // two shares given the same point; recovery must fail or succeed through its own result, never panic
  {
    let mut r = Prng::for_case(seed, "C09x", 0);
    for t in [1u32, 2, 3, 5] {
      let c = adss::Commune::new(t, r.bytes(8), r.bytes(8), None);
      let enc: Vec<Vec<u8>> = (0..t as usize + 1).filter_map(|_| c.clone().share().ok().map(|s| s.to_bytes())).collect();
      if enc.len() != t as usize + 1 {
        continue;
      }
      // a share without y values and with a point of its own (one above / one below the next share's), placed first,
      // in the middle and last
      if t >= 2 {
        for delta in [1u8, 0xff] {
          for pos in [0usize, 1, t as usize - 1] {
            let mut col: Vec<Vec<u8>> = enc[..t as usize].to_vec();
            if let Some(f) = split_share(&col[pos]) {
              let mut x = split_share(&enc[(pos + 1) % t as usize]).map(|g| g.s[..24].to_vec()).unwrap_or(vec![1; 24]);
              x[0] = x[0].wrapping_add(delta);
              let g = ShareFields { a: f.a.clone(), s: x, c: f.c.clone(), d: f.d.clone(), j: f.j.clone() };
              col[pos] = join_share(&g);
              let obs = match decode_all(&col) {
                Some(d) => recover_obs(&d),
                None => "err".into(),
              };
              let v = if obs == "panic" { Err(format!("recovery panicked on a quorum of threshold {} whose share {} has no y values and a point of its own", t, pos)) } else { Ok(()) };
              out.case(format!("adss.recover {}", col.iter().map(|b| hex(b)).collect::<Vec<_>>().join(" ")), obs, v);
            }
          }
        }
      }
      let pm1 = { let mut b = vec![0u8; 24]; b[..16].copy_from_slice(&12450u128.to_le_bytes()); b[16] = 1; b };
      let forged: Vec<(&str, Vec<u8>)> = vec![("zero", vec![0u8; 24]), ("p-1", pm1), ("copy", enc[(t as usize).min(1)][8..32].to_vec())];
      for (what, x) in forged {
        for pos in [0usize, t as usize - 1] {
          let mut col: Vec<Vec<u8>> = enc[..t as usize].to_vec();
          col[pos][8..32].copy_from_slice(&x);
          let obs = match decode_all(&col) {
            Some(d) => recover_obs(&d),
            None => "err".into(),
          };
          let v = if obs == "panic" { Err(format!("recovery panicked on a quorum of threshold {} whose share {} has the forged point {}", t, pos, what)) } else { Ok(()) };
          out.case(format!("adss.recover {}", col.iter().map(|b| hex(b)).collect::<Vec<_>>().join(" ")), obs, v);
        }
      }
    }
  }
  let mut r = Prng::for_case(seed, "C09d", 0);
  let (shares, _msgs, _) = honest_values(&mut r, if thorough { 12 } else { 4 });
  for e in &shares {
    let f = split_share(e).unwrap();
    let mut variants: Vec<Vec<Vec<u8>>> = vec![];
    // no y coordinate; no y and threshold 0 / 1 / 2^32-1; huge threshold with y
    for (t, keep_y) in [(None, false), (Some(0u32), false), (Some(1), false), (Some(u32::MAX), false), (Some(u32::MAX), true), (Some(0), true)] {
      let mut g = ShareFields { a: f.a.clone(), s: f.s.clone(), c: f.c.clone(), d: f.d.clone(), j: f.j.clone() };
      if !keep_y {
        g.s.truncate(24);
      }
      if let Some(t) = t {
        g.a = t.to_le_bytes().to_vec();
      }
      let b = join_share(&g);
      variants.push(vec![b.clone()]);
      variants.push(vec![b.clone(), b.clone()]);
      variants.push(vec![b.clone(), e.clone()]);
      variants.push(vec![e.clone(), b]);
    }
    // empty C / D, partial y
    let mut g = ShareFields { a: f.a.clone(), s: f.s.clone(), c: vec![], d: vec![], j: f.j.clone() };
    variants.push(vec![join_share(&g)]);
    g.s.truncate(24 + 13);
    variants.push(vec![join_share(&g)]);
    variants.push(vec![]);
    for col in variants {
      let obs = match decode_all(&col) {
        Some(d) => recover_obs(&d),
        None => "err".into(),
      };
      let v = if obs == "panic" { Err("recovery panicked on a degenerate share list".to_string()) } else { Ok(()) };
      out.case(format!("adss.recover {}", col.iter().map(|b| hex(b)).collect::<Vec<_>>().join(" ")), obs, v);
    }
  }
}
