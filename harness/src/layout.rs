//! Independent reader of the documented share / report layout (used to pick fields out of
//! encodings the implementation produced; never used by the implementation itself).
pub struct ShareFields {
  pub a: Vec<u8>,
  pub s: Vec<u8>,
  pub c: Vec<u8>,
  pub d: Vec<u8>,
  pub j: Vec<u8>,
}

fn chunk(b: &[u8], off: &mut usize) -> Option<Vec<u8>> {
  if b.len() < *off + 4 {
    return None;
  }
  let len = u32::from_le_bytes([b[*off], b[*off + 1], b[*off + 2], b[*off + 3]]) as usize;
  if b.len() < *off + 4 + len {
    return None;
  }
  let r = b[*off + 4..*off + 4 + len].to_vec();
  *off += 4 + len;
  Some(r)
}

pub fn split_share(b: &[u8]) -> Option<ShareFields> {
  if b.len() < 4 {
    return None;
  }
  let a = b[..4].to_vec();
  let mut off = 4;
  let s = chunk(b, &mut off)?;
  let c = chunk(b, &mut off)?;
  let d = chunk(b, &mut off)?;
  if b.len() != off + 64 {
    return None;
  }
  Some(ShareFields { a, s, c, d, j: b[off..].to_vec() })
}

pub fn join_share(f: &ShareFields) -> Vec<u8> {
  let mut o = f.a.clone();
  for x in [&f.s, &f.c, &f.d] {
    o.extend((x.len() as u32).to_le_bytes());
    o.extend(x.iter());
  }
  o.extend(f.j.iter());
  o
}

/// (ciphertext, share bytes, tag) of a report
pub fn split_message(b: &[u8]) -> Option<(Vec<u8>, Vec<u8>, Vec<u8>)> {
  let mut off = 0;
  let c = chunk(b, &mut off)?;
  let s = chunk(b, &mut off)?;
  let t = chunk(b, &mut off)?;
  Some((c, s, t))
}

pub fn join_message(c: &[u8], s: &[u8], t: &[u8]) -> Vec<u8> {
  let mut o = vec![];
  for x in [c, s, t] {
    o.extend((x.len() as u32).to_le_bytes());
    o.extend(x.iter());
  }
  o
}

/// share point of an adss share encoding (first 24 bytes of the Shamir chunk)
pub fn share_x(b: &[u8]) -> Option<Vec<u8>> {
  let f = split_share(b)?;
  if f.s.len() < 24 {
    return None;
  }
  Some(f.s[..24].to_vec())
}
