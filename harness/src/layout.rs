//! Independent reader of the documented share / report layout (used to pick fields out of
//! encodings the implementation produced; never used by the implementation itself).
pub struct ShareFields {
  pub a: Vec<u8>,
  pub s: Vec<u8>,
  pub c: Vec<u8>,
  pub d: Vec<u8>,
  pub j: Vec<u8>,
}

fn chunk(b: &[u8], off: &mut usize) -> Option<Vec<u8>> {
  if b.len() < *off + 4 {
    return None;
  }
  let len = u32::from_le_bytes([b[*off], b[*off + 1], b[*off + 2], b[*off + 3]]) as usize;
  if b.len() < *off + 4 + len {
    return None;
  }
  let r = b[*off + 4..*off + 4 + len].to_vec();
  *off += 4 + len;
  Some(r)
}

pub fn split_share(b: &[u8]) -> Option<ShareFields> {
  if b.len() < 4 {
    return None;
  }
  let a = b[..4].to_vec();
  let mut off = 4;
  let s = chunk(b, &mut off)?;
  let c = chunk(b, &mut off)?;
  let d = chunk(b, &mut off)?;
  if b.len() != off + 64 {
    return None;
  }
  Some(ShareFields { a, s, c, d, j: b[off..].to_vec() })
}

pub fn join_share(f: &ShareFields) -> Vec<u8> {
  let mut o = f.a.clone();
  for x in [&f.s, &f.c, &f.d] {
    o.extend((x.len() as u32).to_le_bytes());
    o.extend(x.iter());
  }
  o.extend(f.j.iter());
  o
}

/// (ciphertext, share bytes, tag) of a report
pub fn split_message(b: &[u8]) -> Option<(Vec<u8>, Vec<u8>, Vec<u8>)> {
  let mut off = 0;
  let c = chunk(b, &mut off)?;
  let s = chunk(b, &mut off)?;
  let t = chunk(b, &mut off)?;
  Some((c, s, t))
}

pub fn join_message(c: &[u8], s: &[u8], t: &[u8]) -> Vec<u8> {
  let mut o = vec![];
  for x in [c, s, t] {
    o.extend((x.len() as u32).to_le_bytes());
    o.extend(x.iter());
  }
  o
}

/// share point of an adss share encoding (first 24 bytes of the Shamir chunk)
pub fn share_x(b: &[u8]) -> Option<Vec<u8>> {
  let f = split_share(b)?;
  if f.s.len() < 24 {
    return None;
  }
  Some(f.s[..24].to_vec())
}

fn elem_ok(b: &[u8]) -> bool {
  let lo = u128::from_le_bytes(b[..16].try_into().unwrap());
  let hi = u64::from_le_bytes(b[16..24].try_into().unwrap());
  hi == 0 || (hi == 1 && lo < 12451)
}

/// independent parser of the Shamir share layout x | y_1 | ... | y_k (24 bytes each): canonical form
pub fn indep_sharks(b: &[u8]) -> Option<Vec<u8>> {
  if b.len() < 24 {
    return None;
  }
  let k = b.len() / 24;
  for i in 0..k {
    if !elem_ok(&b[24 * i..24 * i + 24]) {
      return None;
    }
  }
  Some(b[..24 * k].to_vec())
}

/// independent parser of threshold | len,S | len,C | len,D | J[64]: canonical re-encoding
pub fn indep_share(b: &[u8]) -> Option<Vec<u8>> {
  let f = split_share(b)?;
  let s = indep_sharks(&f.s)?;
  Some(join_share(&ShareFields { a: f.a, s, c: f.c, d: f.d, j: f.j }))
}

/// independent parser of len,ciphertext | len,share | len,tag (trailing bytes ignored)
pub fn indep_message(b: &[u8]) -> Option<Vec<u8>> {
  let (c, s, t) = split_message(b)?;
  let s = indep_share(&s)?;
  Some(join_message(&c, &s, &t))
}

/// offsets of the 4-byte length fields of a share encoding (S, C, D)
pub fn share_len_offsets(b: &[u8]) -> Vec<usize> {
  let mut v = vec![];
  let mut off = 4;
  for _ in 0..3 {
    if b.len() < off + 4 {
      break;
    }
    v.push(off);
    let len = u32::from_le_bytes([b[off], b[off + 1], b[off + 2], b[off + 3]]) as usize;
    off += 4 + len;
  }
  v
}
