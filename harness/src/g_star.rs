//! C01..C05: STAR reports end to end, sub-threshold collections, keystream relation,
//! derivation injectivity, authenticated recovery.
use crate::g_adss::{decode_all, recover_obs, static_part};
use crate::layout::*;
use crate::util::*;
use ff::Field;
use sta_rs::{derive_ske_key, share_recover, strobe_digest, AssociatedData, Message, MessageGenerator, Share, SingleMeasurement};
use star_sharks::Fp;

pub const MLENS: &[usize] = &[0, 1, 5, 15, 16, 17, 32, 158, 159, 166, 167, 400];
pub const AUXLENS: &[usize] = &[0, 1, 4, 8, 33, 150, 162, 163, 166, 167, 216, 340, 700];

pub fn derive3(rnd: &[u8]) -> [Vec<u8>; 3] {
  let mut o: [Vec<u8>; 3] = [vec![], vec![], vec![]];
  for i in 0..3u8 {
    let mut out = [0u8; 32];
    strobe_digest(rnd, &[&[i]], "star_derive_randoms", &mut out);
    o[i as usize] = out.to_vec();
  }
  o
}
pub fn ske_key(r0: &[u8], e: &[u8]) -> Vec<u8> {
  let mut k = vec![0u8; 16];
  derive_ske_key(r0, e, &mut k);
  k
}

pub struct Group {
  pub m: Vec<u8>,
  pub e: Vec<u8>,
  pub t: u32,
  pub rnd: Vec<u8>,
  pub local: bool,
  pub aux: Vec<Option<Vec<u8>>>,
  pub wire: Vec<Vec<u8>>,
  pub xs: Vec<Vec<u8>>,
}

pub fn make_group(r: &mut Prng, m: Vec<u8>, e: Vec<u8>, t: u32, local: bool, auxs: Vec<Option<Vec<u8>>>) -> Option<Group> {
  make_group_with(r, m, e, t, local, auxs, None)
}
/// `forced`: the 32 bytes of client randomness handed in from outside (a randomness server answers per measurement and
/// epoch, so two cohorts under different thresholds can hold the same bytes)
pub fn make_group_with(r: &mut Prng, m: Vec<u8>, e: Vec<u8>, t: u32, local: bool, auxs: Vec<Option<Vec<u8>>>, forced: Option<[u8; 32]>) -> Option<Group> {
  // the conversion impls of the value types are glue the reports go through as well: text measurements are built
  // with From<&str>, every other one with new(); length accessors must agree with the bytes
  let sm = match std::str::from_utf8(&m) {
    Ok(s) if m.len() % 2 == 1 => SingleMeasurement::from(s),
    _ => SingleMeasurement::new(&m),
  };
  if sm.byte_len() != m.len() || sm.is_empty() != m.is_empty() || sm.as_slice() != &m[..] {
    return None;
  }
  let mg = MessageGenerator::new(sm, t, &e);
  let mut rnd = [0u8; 32];
  if local {
    // (a panic of the library here or below is a failed generation, reported by the caller - not the end of the run)
    rnd = guarded(|| { let mut x = [0u8; 32]; mg.sample_local_randomness(&mut x); x })?;
  } else if let Some(f) = forced {
    rnd = f;
  } else {
    rnd.copy_from_slice(&r.bytes(32));
  }
  let mut wire = vec![];
  let mut xs = vec![];
  for a in &auxs {
    let ad = a.as_ref().map(|x| match (std::str::from_utf8(x), x.len() % 3) {
      (Ok(s), 1) => AssociatedData::from(s),
      (_, 2) => AssociatedData::from(x.as_slice()),
      _ => AssociatedData::new(x),
    });
    let msg = guarded(|| Message::generate(&mg, &rnd, ad).ok())??;
    let b = msg.to_bytes();
    let (_, sb, _) = split_message(&b)?;
    xs.push(share_x(&sb)?);
    wire.push(b);
  }
  Some(Group { m, e, t, rnd: rnd.to_vec(), local, aux: auxs, wire, xs })
}

/// strict reading of the documented payload framing len|measurement [len|aux]
pub fn strict_payload(p: &[u8]) -> Option<(Vec<u8>, Option<Vec<u8>>)> {
  if p.len() < 4 {
    return None;
  }
  let l = u32::from_le_bytes([p[0], p[1], p[2], p[3]]) as usize;
  if p.len() < 4 + l {
    return None;
  }
  let m = p[4..4 + l].to_vec();
  let rest = &p[4 + l..];
  if rest.is_empty() {
    return Some((m, None));
  }
  if rest.len() < 4 {
    return None;
  }
  let la = u32::from_le_bytes([rest[0], rest[1], rest[2], rest[3]]) as usize;
  if rest.len() != 4 + la {
    return None;
  }
  Some((m, Some(rest[4..].to_vec())))
}

fn pay_str(p: &Option<(Vec<u8>, Option<Vec<u8>>)>) -> String {
  match p {
    Some((m, a)) => format!("({},{})", hex(m), hex_opt(a)),
    None => "(err)".into(),
  }
}

/// run the server side on the wire forms: decode all, recover from the selection, decrypt every report
pub fn server_side(e: &[u8], wire: &[Vec<u8>], sel: &[usize]) -> (String, Option<Vec<u8>>, Vec<Option<(Vec<u8>, Option<Vec<u8>>)>>) {
  let r = guarded(|| {
    let msgs: Option<Vec<Message>> = wire.iter().map(|b| Message::from_bytes(b)).collect();
    let msgs = match msgs {
      Some(m) => m,
      None => return ("rec=err key=- pay=".to_string(), None, vec![]),
    };
    let shares: Vec<Share> = sel.iter().filter_map(|&i| msgs.get(i).map(|m| m.share.clone())).collect();
    match share_recover(&shares) {
      Ok(c) => {
        let m0 = c.get_message();
        let k = ske_key(&m0, e);
        let pays: Vec<_> = msgs.iter().map(|m| strict_payload(&m.ciphertext.decrypt(&k, "star_encrypt"))).collect();
        (
          format!("rec=ok:{} key={} pay={}", hex(&m0), hex(&k), pays.iter().map(pay_str).collect::<Vec<_>>().join("")),
          Some(m0),
          pays,
        )
      }
      Err(_) => ("rec=err key=- pay=".to_string(), None, vec![]),
    }
  });
  r.unwrap_or(("rec=panic key=- pay=".to_string(), None, vec![]))
}

fn aux_choice(r: &mut Prng, i: usize) -> Option<Vec<u8>> {
  match (i + r.below(2) as usize) % 4 {
    0 => None,
    1 => Some(vec![]),
    _ => {
      let l = *r.pick(AUXLENS);
      Some(r.blob(l))
    }
  }
}

fn scn_case(g: &Group, sel: &[usize]) -> String {
  let mut s = format!("star.scn {} {} {} {} {}", hex(&g.m), hex(&g.e), g.t, if g.local { "L".to_string() } else { hex(&g.rnd) }, g.wire.len());
  for (a, x) in g.aux.iter().zip(g.xs.iter()) {
    s.push_str(&format!(" {} {}", hex_opt(a), hex(x)));
  }
  for i in sel {
    s.push_str(&format!(" {}", i));
  }
  s
}

pub fn selection(r: &mut Prng, n: usize, t: usize, variant: u64) -> Vec<usize> {
  let mut idx: Vec<usize> = (0..n).collect();
  r.shuffle(&mut idx);
  match variant % 5 {
    0 => (0..n).collect(),
    1 => idx[..t].to_vec(),
    2 => {
      // a repeat placed between distinct shares, inside the first t entries
      let mut s = idx[..t].to_vec();
      if t >= 2 {
        let d = s[0];
        s.insert(2.min(s.len()), d);
      } else {
        s.push(s[0]);
      }
      s
    }
    3 => {
      let mut s = idx.clone();
      s.extend(idx.iter().take(2));
      s
    }
    _ => {
      let mut s: Vec<usize> = idx[..t].to_vec();
      s.reverse();
      let d = *r.pick(&s);
      s.insert(0, d);
      s.insert(1, d);
      s
    }
  }
}

/// Reports picked for what their bytes look like rather than for their inputs: (a) measurements, found by search, whose
/// share ends in a byte that is ASCII white space (the last field is a raw 64-byte tag, any byte can end it);
/// (b) at threshold 2, genuine shares moved along the sharing line to the points k and 2^128 + k, which agree in their
/// low 128 bits. Both kinds must go through encode / decode / recovery like any other.
fn gen_c01_special(out: &mut Out) {
  let mut r = Prng::for_case(77, "C01s", 0);
  let e = b"ep".to_vec();
  let mut found = 0;
  for i in 0..2000u32 {
    if found >= 4 {
      break;
    }
    let m = format!("ws/{}", i).into_bytes();
    let probe = match make_group(&mut r, m.clone(), e.clone(), 2, true, vec![None]) { Some(g) => g, None => continue };
    let last = *probe.wire[0].get(probe.wire[0].len() - 4 - 32 - 1).unwrap_or(&1);
    if ![9u8, 10, 12, 13, 32].contains(&last) {
      continue;
    }
    found += 1;
    let g = match make_group(&mut r, m.clone(), e.clone(), 2, true, vec![None, Some(vec![1, 2, 3]), Some(vec![])]) { Some(g) => g, None => continue };
    let sel = vec![0usize, 1, 2];
    let (obs, m0, pays) = server_side(&g.e, &g.wire, &sel);
    let r3 = derive3(&g.rnd);
    let v = if m0.as_deref() != Some(&r3[0][..]) {
      Err(format!("measurement {}: the share's last byte is white space (0x{:02x}) and the reports do not decode and recover", String::from_utf8_lossy(&m), last))
    } else if pays.iter().enumerate().any(|(i, p)| *p != Some((g.m.clone(), g.aux[i].clone()))) {
      Err("a report does not open to what its client supplied".to_string())
    } else {
      Ok(())
    };
    out.case(scn_case(&g, &sel), format!("wire={} {}", g.wire.iter().map(|b| hex(b)).collect::<Vec<_>>().join(","), obs), v);
  }
  for k in [5u128, 12450] {
    let m = format!("line/{}", k).into_bytes();
    let mut g = match make_group(&mut r, m.clone(), e.clone(), 2, true, vec![None, Some(vec![9])]) { Some(g) => g, None => continue };
    let parts: Vec<(Vec<u8>, Vec<u8>, Vec<u8>)> = g.wire.iter().filter_map(|w| split_message(w)).collect();
    let fs: Vec<ShareFields> = parts.iter().filter_map(|p| split_share(&p.1)).collect();
    if fs.len() != 2 || fs.iter().any(|f| f.s.len() != 48) {
      continue;
    }
    let pt = |f: &ShareFields| (crate::g_fp::fp_of(&f.s[..24]).unwrap(), crate::g_fp::fp_of(&f.s[24..]).unwrap());
    let ((x1, y1), (x2, y2)) = (pt(&fs[0]), pt(&fs[1]));
    let slope = (y2 - y1) * (x2 - x1).invert().unwrap();
    let targets = [crate::g_fp::fp_of(&crate::g_fp::le24(0, k)).unwrap(), crate::g_fp::fp_of(&crate::g_fp::le24(1, k)).unwrap()];
    for (i, x) in targets.iter().enumerate() {
      let y = y1 + slope * (*x - x1);
      let mut f = ShareFields { a: fs[i].a.clone(), s: vec![], c: fs[i].c.clone(), d: fs[i].d.clone(), j: fs[i].j.clone() };
      f.s.extend(crate::g_fp::bytes_of(x));
      f.s.extend(crate::g_fp::bytes_of(&y));
      g.wire[i] = join_message(&parts[i].0, &join_share(&f), &parts[i].2);
      g.xs[i] = crate::g_fp::bytes_of(x);
    }
    for sel in [vec![0usize, 1], vec![1, 0], vec![0, 0, 1]] {
      let (obs, m0, _) = server_side(&g.e, &g.wire, &sel);
      let r3 = derive3(&g.rnd);
      let v = if m0.as_deref() == Some(&r3[0][..]) { Ok(()) } else { Err(format!("two genuine shares at the points {} and 2^128 + {} (threshold 2) do not recover the shared value", k, k)) };
      out.case(scn_case(&g, &sel), format!("wire={} {}", g.wire.iter().map(|b| hex(b)).collect::<Vec<_>>().join(","), obs), v);
    }
  }
}

pub fn gen_c01(seed: u64, thorough: bool, only: Option<u64>, out: &mut Out) {
  if only.is_none() {
    gen_reuse(seed, thorough, out);
    gen_same_randomness_cohorts(seed, thorough, out);
    gen_c01_special(out);
  }
  let groups: u64 = if thorough { 400 } else { 36 };
  let ts: &[u32] = if thorough { &[1, 2, 3, 4, 5, 8, 16, 32, 33, 64, 96] } else { &[1, 2, 3, 5, 8, 32] };
  for gi in 0..groups {
    if only.map_or(false, |o| o != gi) {
      continue;
    }
    let mut r = Prng::for_case(seed, "C01", gi);
    let t = if (gi as usize) < ts.len() { ts[gi as usize] } else { *r.pick(ts) };
    let n = t as usize + r.below(t as u64 + 1) as usize;
    let n = n.min(t as usize + 6);
    let ml = if thorough && r.below(30) == 0 { 4096 } else { *r.pick(MLENS) };
    let m = r.blob(ml);
    let el = *r.pick(&[0usize, 1, 1, 2, 8, 40]);
    let e = r.blob(el);
    let auxs: Vec<Option<Vec<u8>>> = (0..n).map(|i| aux_choice(&mut r, i)).collect();
    let local = r.below(2) == 0;
    let g = match make_group(&mut r, m, e, t, local, auxs) {
      Some(g) => g,
      None => {
        out.case(format!("star.scn-gen {}", gi), "generate-failed".into(), Err("Message::generate failed".into()));
        continue;
      }
    };
    let sel = selection(&mut r, n, t as usize, gi);
    let (obs, m0, pays) = server_side(&g.e, &g.wire, &sel);
    let r3 = derive3(&g.rnd);
    let mut v = Ok(());
    if m0.as_deref() != Some(&r3[0][..]) {
      v = Err(format!("recovery from a selection with {} distinct shares of threshold {} did not return the shared value", sel.iter().collect::<std::collections::BTreeSet<_>>().len(), t));
    } else {
      for (i, p) in pays.iter().enumerate() {
        let want = Some((g.m.clone(), g.aux[i].clone()));
        if *p != want {
          v = Err(format!("report {} decrypts to {} instead of what its client supplied", i, pay_str(p)));
          break;
        }
      }
    }
    out.case(scn_case(&g, &sel), format!("wire={} {}", g.wire.iter().map(|b| hex(b)).collect::<Vec<_>>().join(","), obs), v);
  }
}

/// Cohorts of one measurement and epoch that hold the SAME outside randomness (a randomness server answers per
/// measurement and epoch) but report under different thresholds, generated back to back on one thread - higher
/// threshold first, then lower, then higher again: each cohort recovers from exactly its own threshold-many reports.
pub fn gen_same_randomness_cohorts(seed: u64, thorough: bool, out: &mut Out) {
  for gi in 0..(if thorough { 24u64 } else { 4 }) {
    let mut r = Prng::for_case(seed, "cohorts", gi);
    let m = { let l_ = 1 + r.below(40) as usize; r.blob(l_) };
    let e = { let l_ = r.below(9) as usize; r.blob(l_) };
    let mut rnd = [0u8; 32];
    rnd.copy_from_slice(&r.bytes(32));
    let ts: Vec<u32> = match gi % 4 { 0 => vec![3, 2, 3], 1 => vec![5, 2, 1], 2 => vec![2, 3, 2], _ => vec![4, 3, 2, 1] };
    for &t in &ts {
      let auxs: Vec<Option<Vec<u8>>> = (0..t as usize).map(|i| aux_choice(&mut r, i)).collect();
      let g = match make_group_with(&mut r, m.clone(), e.clone(), t, false, auxs, Some(rnd)) {
        Some(g) => g,
        None => {
          out.case(format!("star.scn-gen cohorts-{}-{}", gi, t), "generate-failed".into(), Err("Message::generate failed".into()));
          continue;
        }
      };
      let sel: Vec<usize> = (0..t as usize).collect();
      let (obs, m0, pays) = server_side(&g.e, &g.wire, &sel);
      let r3 = derive3(&g.rnd);
      let mut v = Ok(());
      if m0.as_deref() != Some(&r3[0][..]) {
        v = Err(format!("a cohort of {} reports under threshold {} (same outside randomness as a cohort under another threshold generated just before) does not recover", t, t));
      } else {
        for (i, p) in pays.iter().enumerate() {
          if *p != Some((g.m.clone(), g.aux[i].clone())) {
            v = Err(format!("report {} decrypts to {} instead of what its client supplied", i, pay_str(p)));
            break;
          }
        }
      }
      out.case(scn_case(&g, &sel), format!("wire={} {}", g.wire.iter().map(|b| hex(b)).collect::<Vec<_>>().join(","), obs), v);
    }
  }
}

/// One MessageGenerator used for several submissions: locally derived randomness, then randomness handed in from
/// outside, then - after its public measurement field was reassigned - locally derived randomness again.  Nothing
/// may be remembered between the calls: each batch must be what a fresh generator for that measurement produces.
pub fn gen_reuse(seed: u64, thorough: bool, out: &mut Out) {
  for gi in 0..(if thorough { 40u64 } else { 6 }) {
    let mut r = Prng::for_case(seed, "reuse", gi);
    let t = 2 + r.below(2) as u32;
    let e = { let l_ = r.below(3) as usize; r.bytes(l_) };
    let m1 = { let l_ = 1 + r.below(9) as usize; r.bytes(l_) };
    let m2 = { let l_ = 1 + r.below(9) as usize; r.bytes(l_) };
    let mut mg = MessageGenerator::new(SingleMeasurement::new(&m1), t, &e);
    let mut prev_key: Option<Vec<u8>> = None;
    for phase in 0..3 {
      let (m, local) = match phase { 0 => (m1.clone(), true), 1 => (m1.clone(), false), _ => (m2.clone(), true) };
      if phase == 2 {
        mg.x = SingleMeasurement::new(&m2);
      }
      let mut rnd = [0u8; 32];
      if local {
        mg.sample_local_randomness(&mut rnd);
      } else {
        rnd.copy_from_slice(&r.bytes(32));
      }
      let auxs: Vec<Option<Vec<u8>>> = (0..t as usize).map(|i| Some(vec![phase as u8, i as u8, 7])).collect();
      let mut wire = vec![];
      let mut xs = vec![];
      for a in &auxs {
        let msg = match Message::generate(&mg, &rnd, a.as_ref().map(|x| AssociatedData::new(x))) { Ok(m) => m, Err(_) => break };
        let b = msg.to_bytes();
        if let Some((_, sb, _)) = split_message(&b) {
          xs.push(share_x(&sb).unwrap_or_default());
          wire.push(b);
        }
      }
      if wire.len() != t as usize {
        continue;
      }
      let g = Group { m: m.clone(), e: e.clone(), t, rnd: rnd.to_vec(), local, aux: auxs, wire, xs };
      let sel: Vec<usize> = (0..t as usize).collect();
      let (obs, m0, pays) = server_side(&g.e, &g.wire, &sel);
      let mut v = Ok(());
      if local {
        let fresh = MessageGenerator::new(SingleMeasurement::new(&m), t, &e);
        let mut want = [0u8; 32];
        fresh.sample_local_randomness(&mut want);
        // the buffer is output only: what it held before does not matter
        let mut dirty = [0xa5u8; 32];
        fresh.sample_local_randomness(&mut dirty);
        if dirty != want {
          v = Err(format!("use {} of one generator: the local randomness depends on what the output buffer held before", phase));
        }
        if want != rnd {
          v = Err(format!("use {} of one generator: its local randomness for measurement {} differs from a fresh generator's", phase, hex(&m)));
        }
      }
      let r3 = derive3(&g.rnd);
      if m0.as_deref() != Some(&r3[0][..]) {
        v = Err(format!("use {} of one generator: the reports do not recover the value shared under the randomness handed in", phase));
      } else if pays.iter().enumerate().any(|(i, p)| *p != Some((g.m.clone(), g.aux[i].clone()))) {
        v = Err(format!("use {} of one generator: a report does not open to the measurement and associated data supplied", phase));
      }
      // a report of this batch must not open with the key of an EARLIER batch of the same generator
      if let Some(pk) = &prev_key {
        if let Some(msg) = Message::from_bytes(&g.wire[0]) {
          let p = msg.ciphertext.decrypt(pk, "star_encrypt");
          if strict_payload(&p).map_or(false, |(mm, _)| mm == g.m) && *pk != ske_key(&r3[0], &e) {
            v = Err(format!("use {} of one generator: the report opens with the key of an earlier use (another measurement or randomness)", phase));
          }
        }
      }
      prev_key = Some(ske_key(&r3[0], &e));
      out.case(scn_case(&g, &sel), format!("wire={} {}", g.wire.iter().map(|b| hex(b)).collect::<Vec<_>>().join(","), obs), v);
    }
  }
}

/// coefficients (highest degree first) of the polynomial through t points, by Newton interpolation
fn interpolate_coeffs(pts: &[(Fp, Fp)]) -> Vec<Fp> {
  let n = pts.len();
  // divided differences
  let mut dd: Vec<Fp> = pts.iter().map(|p| p.1).collect();
  for j in 1..n {
    for i in (j..n).rev() {
      let den = pts[i].0 - pts[i - j].0;
      dd[i] = (dd[i] - dd[i - 1]) * den.invert().unwrap();
    }
  }
  // expand Newton form to monomials, lowest degree first
  let mut poly = vec![Fp::ZERO; n];
  let mut basis = vec![Fp::ZERO; n];
  basis[0] = Fp::ONE;
  for j in 0..n {
    for k in 0..n {
      poly[k] += dd[j] * basis[k];
    }
    // basis *= (X - x_j)
    let mut nb = vec![Fp::ZERO; n];
    for k in 0..n {
      if k + 1 < n {
        nb[k + 1] += basis[k];
      }
      nb[k] -= basis[k] * pts[j].0;
    }
    basis = nb;
  }
  poly.reverse();
  poly
}

fn contains(hay: &[u8], needle: &[u8]) -> bool {
  needle.len() >= 8 && hay.len() >= needle.len() && hay.windows(needle.len()).any(|w| w == needle)
}

/// thresholds around and above 2^8: the polynomial must still have exact degree t-1 (a threshold that is narrowed
/// somewhere on the way to the dealer gives a polynomial of lower degree, at 256 a constant one)
fn gen_c02_high(seed: u64, thorough: bool, out: &mut Out) {
  let ts: &[u32] = if thorough { &[255, 256, 257, 258, 300, 512, 513, 1000] } else { &[256, 258] };
  for (gi, &t) in ts.iter().enumerate() {
    let mut r = Prng::for_case(seed, "C02h", gi as u64);
    let m = r.bytes(12);
    let e = r.bytes(2);
    let g = match make_group(&mut r, m.clone(), e.clone(), t, true, vec![None; t as usize]) {
      Some(g) => g,
      None => continue,
    };
    let shares: Vec<Vec<u8>> = g.wire.iter().map(|w| split_message(w).unwrap().1).collect();
    let r3 = derive3(&g.rnd);
    let pts: Vec<(Fp, Fp)> = shares
      .iter()
      .map(|s| {
        let f = split_share(s).unwrap();
        (crate::g_fp::fp_of(&f.s[..24]).unwrap(), crate::g_fp::fp_of(&f.s[24..48]).unwrap())
      })
      .collect();
    let distinct_x = pts.iter().map(|p| crate::g_fp::bytes_of(&p.0)).collect::<std::collections::BTreeSet<_>>().len() == pts.len();
    if !distinct_x {
      continue;
    }
    let cs: Vec<Vec<u8>> = interpolate_coeffs(&pts).iter().map(crate::g_fp::bytes_of).collect();
    let nonconst = &cs[..cs.len() - 1];
    let mut v = Ok(());
    let zeros = nonconst.iter().filter(|c| c.iter().all(|&b| b == 0)).count();
    if zeros > 0 {
      v = Err(format!("threshold {}: {} non-constant coefficients of the sharing polynomial are zero (degree below t-1)", t, zeros));
    }
    let set: std::collections::BTreeSet<&Vec<u8>> = nonconst.iter().collect();
    if v.is_ok() && set.len() != nonconst.len() {
      v = Err(format!("threshold {}: two coefficients of the sharing polynomial coincide", t));
    }
    if contains(&g.wire[0], &cs[cs.len() - 1][..16]) {
      v = Err(format!("threshold {}: the sharing key occurs in the clear in a report", t));
    }
    out.case(
      format!("adss.coeffs {} {} {}", t, hex(&r3[0]), hex(&r3[1])),
      format!("ok {}", cs.iter().map(|c| hex(c)).collect::<Vec<_>>().join(",")),
      v,
    );
    // one share short of the threshold: nothing is recovered
    let col: Vec<Vec<u8>> = shares[..t as usize - 1].to_vec();
    let obs = match decode_all(&col) {
      Some(d) => recover_obs(&d),
      None => "err".into(),
    };
    let v = if obs == "err" { Ok(()) } else { Err(format!("threshold {}: t-1 distinct shares: recovery gave {}", t, &obs[..obs.len().min(24)])) };
    out.case(format!("adss.recover {}", col.iter().map(|b| hex(b)).collect::<Vec<_>>().join(" ")), obs, v);
  }
}

pub fn gen_c02(seed: u64, thorough: bool, only: Option<u64>, out: &mut Out) {
  if only.is_none() {
    gen_c02_high(seed, thorough, out);
    gen_reuse(seed ^ 0x2, thorough, out);
    gen_same_randomness_cohorts(seed ^ 0x2, thorough, out);
    // no single share carries the secret: also under chosen draws of the random source for the share point
    crate::g_sharks::gen_forced_points(out);
  }
  let groups: u64 = if thorough { 200 } else { 24 };
  let ts: &[u32] = if thorough { &[2, 3, 4, 5, 6, 8, 16, 40, 64] } else { &[2, 3, 4, 5, 8] };
  let mut prev_coeffs: Option<Vec<Vec<u8>>> = None;
  for gi in 0..groups {
    if only.map_or(false, |o| o != gi) {
      continue;
    }
    let mut r = Prng::for_case(seed, "C02", gi);
    let t = if (gi as usize) < ts.len() { ts[gi as usize] } else { *r.pick(ts) };
    let n = t as usize + 1;
    let ml = *r.pick(&[1usize, 8, 16, 32, 40, 70]);
    let m = r.bytes(ml);
    let el = 1 + r.below(4) as usize;
    let e = r.bytes(el);
    // every fourth group: an epoch that is not valid UTF-8; its foreign epoch differs only in the invalid byte
    let e = if gi % 4 == 3 { let mut x = vec![0xffu8]; x.extend(&e); x } else { e };
    let auxs: Vec<Option<Vec<u8>>> = (0..n).map(|i| if i % 2 == 0 { None } else { Some(r.bytes(12)) }).collect();
    let g = match make_group(&mut r, m.clone(), e.clone(), t, true, auxs) {
      Some(g) => g,
      None => continue,
    };
    let shares: Vec<Vec<u8>> = g.wire.iter().map(|w| split_message(w).unwrap().1).collect();
    let r3 = derive3(&g.rnd);
    let key = ske_key(&r3[0], &e);
    // (d) no secret in the clear in any encoded report
    for (i, w) in g.wire.iter().enumerate() {
      let mut v = Ok(());
      for (name, s) in [("client randomness", &g.rnd), ("r0", &r3[0]), ("r1", &r3[1]), ("encryption key", &key), ("measurement", &m)] {
        if contains(w, s) {
          v = Err(format!("{} occurs in the clear in report {}", name, i));
        }
      }
      out.case(format!("star.decode {}", hex(w)), format!("ok {}", hex(w)), v);
    }
    // (e) the polynomial: exact degree t-1, non-constant coefficients non-zero, pairwise distinct, different from the previous group's
    {
      let pts: Vec<(Fp, Fp)> = shares
        .iter()
        .take(t as usize)
        .map(|s| {
          let f = split_share(s).unwrap();
          (crate::g_fp::fp_of(&f.s[..24]).unwrap(), crate::g_fp::fp_of(&f.s[24..48]).unwrap())
        })
        .collect();
      let distinct_x = pts.iter().map(|p| crate::g_fp::bytes_of(&p.0)).collect::<std::collections::BTreeSet<_>>().len() == pts.len();
      if distinct_x {
        let cs: Vec<Vec<u8>> = interpolate_coeffs(&pts).iter().map(crate::g_fp::bytes_of).collect();
        let mut v = Ok(());
        let nonconst = &cs[..cs.len() - 1];
        if nonconst.iter().any(|c| c.iter().all(|&b| b == 0)) {
          v = Err("a non-constant coefficient of the sharing polynomial is zero".to_string());
        }
        let set: std::collections::BTreeSet<&Vec<u8>> = nonconst.iter().collect();
        if set.len() != nonconst.len() {
          v = Err("two coefficients of the sharing polynomial coincide".to_string());
        }
        if let Some(pc) = &prev_coeffs {
          if nonconst.iter().any(|c| pc.contains(c)) {
            v = Err("a coefficient is shared with another measurement's polynomial".to_string());
          }
        }
        if contains(&g.wire[0], &cs[cs.len() - 1][..16]) {
          v = Err("the sharing key occurs in the clear in a report".to_string());
        }
        out.case(
          format!("adss.coeffs {} {} {}", t, hex(&r3[0]), hex(&r3[1])),
          format!("ok {}", cs.iter().map(|c| hex(c)).collect::<Vec<_>>().join(",")),
          v,
        );
        prev_coeffs = Some(nonconst.to_vec());
      }
    }
    // foreign material: another measurement, another epoch, another threshold
    let mut other = vec![];
    let e_near = { let mut x = e.clone(); x[0] = if x[0] == 0xfe { 0xfd } else { 0xfe }; x };
    let mut near: Vec<Vec<u8>> = vec![];
    let mut near_m: Vec<Vec<u8>> = vec![];
    // a measurement that agrees with this one on its first 32 bytes (or is its zero extension)
    let m_near = if m.len() > 32 { let mut x = m.clone(); let l = x.len(); x[l - 1] ^= 0x55; x } else { let mut x = m.clone(); x.push(0); x };
    for (k2, (m2, e2, t2)) in [(r.bytes(9), e.clone(), t), (m.clone(), r.bytes(3), t), (m.clone(), e.clone(), t + 1), (m.clone(), e_near, t), (m_near, e.clone(), t)].into_iter().enumerate() {
      if let Some(g2) = make_group(&mut r, m2, e2, t2, true, vec![None; (t as usize).max(2) - 1]) {
        other.extend(g2.wire.iter().map(|w| split_message(w).unwrap().1));
        if k2 == 3 {
          near = g2.wire.iter().map(|w| split_message(w).unwrap().1).collect();
        }
        if k2 == 4 {
          near_m = g2.wire.iter().map(|w| split_message(w).unwrap().1).collect();
        }
      }
    }
    let mut emit = |col: Vec<Vec<u8>>, what: &str, out: &mut Out| {
      let obs = match decode_all(&col) {
        Some(d) => recover_obs(&d),
        None => "err".into(),
      };
      let v = if obs == "err" { Ok(()) } else { Err(format!("{}: recovery gave {}", what, &obs[..obs.len().min(24)])) };
      out.case(format!("adss.recover {}", col.iter().map(|b| hex(b)).collect::<Vec<_>>().join(" ")), obs, v);
    };
    // (a) sub-threshold subsets: all of size t-1 (small t) plus sampled smaller ones
    let tt = t as usize;
    if tt <= 5 {
      for skip in 0..tt {
        let col: Vec<Vec<u8>> = (0..tt).filter(|&i| i != skip).map(|i| shares[i].clone()).collect();
        emit(col, "t-1 distinct shares", out);
      }
    }
    for _ in 0..3 {
      let k = 1 + r.below(tt as u64 - 1) as usize;
      let mut idx: Vec<usize> = (0..n).collect();
      r.shuffle(&mut idx);
      let mut col: Vec<Vec<u8>> = idx[..k].iter().map(|&i| shares[i].clone()).collect();
      // (c) padded with repeats up to and beyond t
      for _ in 0..(tt - k + r.below(3) as usize) {
        let d = col[r.below(k as u64) as usize].clone();
        col.insert(r.below(col.len() as u64 + 1) as usize, d);
      }
      emit(col, "sub-threshold set padded with repeats", out);
    }
    // (c') the same at the Shamir layer, which has no tag to fall back on: t-1 distinct shares with repeats that are
    // NOT adjacent to their first occurrence must be refused by the share counting itself
    if tt >= 3 {
      let parts: Vec<Vec<u8>> = shares.iter().take(tt - 1).filter_map(|s| split_share(s).map(|f| f.s)).collect();
      if parts.len() == tt - 1 {
        let mut col = parts.clone();
        col.push(parts[0].clone());
        col.push(parts[1].clone());
        let dec: Option<Vec<star_sharks::Share>> = col.iter().map(|b| star_sharks::Share::try_from(b.as_slice()).ok()).collect();
        if let Some(d) = dec {
          let obs = crate::g_sharks::recover_obs(t, &d);
          let v = if obs == "err" { Ok(()) } else { Err(format!("Shamir recovery from {} distinct shares of threshold {} padded with non-adjacent repeats did not fail: {}", tt - 1, t, &obs[..obs.len().min(30)])) };
          out.case(format!("sharks.recover {} {}", t, col.iter().map(|b| hex(b)).collect::<Vec<_>>().join(" ")), obs, v);
        }
      }
    }
    // (b) forged thresholds on a sub-threshold set
    for k in 1..tt.min(5) {
      let forged: Vec<u32> = (0..=k as u32).chain([t + 1, u32::MAX]).collect();
      for f in forged {
        for all in [false, true] {
          let mut col: Vec<Vec<u8>> = shares[..k].to_vec();
          for (i, s) in col.iter_mut().enumerate() {
            if all || i == 0 {
              s[..4].copy_from_slice(&f.to_le_bytes());
            }
          }
          emit(col, "threshold field rewritten on a sub-threshold set", out);
        }
      }
    }
    // (c'') t-1 own shares completed only by shares of the same measurement under an epoch that differs in one byte
    if !near.is_empty() {
      let mut col: Vec<Vec<u8>> = shares[..tt - 1].to_vec();
      col.extend(near.iter().cloned());
      emit(col, "t-1 shares completed by shares of the same measurement under a neighbouring epoch", out);
    }
    if !near_m.is_empty() {
      let mut col: Vec<Vec<u8>> = shares[..tt - 1].to_vec();
      col.extend(near_m.iter().cloned());
      emit(col, "t-1 shares completed by shares of a measurement that agrees on the first 32 bytes / differs by a trailing zero", out);
    }
    // (c) sub-threshold set padded with foreign shares, in every position relative to the own ones
    if !other.is_empty() {
      for first_foreign in [false, true] {
        let k = tt - 1;
        let mut col: Vec<Vec<u8>> = shares[..k].to_vec();
        let mut o = other.clone();
        r.shuffle(&mut o);
        for (j, f) in o.into_iter().enumerate() {
          let pos = if first_foreign && j == 0 { 0 } else { 1 + r.below(col.len() as u64) as usize };
          col.insert(pos, f);
        }
        emit(col, "no measurement reaches its threshold (foreign shares mixed in)", out);
      }
    }
  }
}

pub fn gen_c03(seed: u64, thorough: bool, only: Option<u64>, out: &mut Out) {
  let groups: u64 = if thorough { 300 } else { 30 };
  for gi in 0..groups {
    if only.map_or(false, |o| o != gi) {
      continue;
    }
    let mut r = Prng::for_case(seed, "C03", gi);
    let t = *r.pick(&[2u32, 3, 5]);
    // one group with a threshold in the thirties: more coefficients than a short random pool yields
    let t = if gi == 4 { 34 } else { t };
    let ml = if gi % 6 == 5 { 0 } else { *r.pick(&[1usize, 5, 16, 40, 170]) };
    let m = r.bytes(ml);
    let e = { let l_ = 1 + r.below(3) as usize; r.bytes(l_) };
    let la = if gi == 0 { 216 } else { *r.pick(&[1usize, 2, 8, 16, 60, 150, 163, 170, 200, 216, 333, 500, 1000]) };
    let a1 = r.bytes(la);
    let mut a2 = a1.clone();
    // differ in a few positions spread over the blocks
    for k in 0..(1 + r.below(3)) {
      let p = if k == 0 { r.below(la.min(100) as u64) as usize } else { r.below(la as u64) as usize };
      a2[p] ^= 1 + r.below(255) as u8;
    }
    if la >= 200 {
      a2[la - 1] ^= 0x5a;
      a2[190] ^= 0x11;
    }
    let n = 2 + (gi % 2) as usize;
    let mut auxs = vec![Some(a1.clone()), Some(a2.clone())];
    if n == 3 {
      auxs.push(Some(r.bytes(la)));
    }
    let g = match make_group(&mut r, m.clone(), e.clone(), t, true, auxs.clone()) {
      Some(g) => g,
      None => continue,
    };
    let cts: Vec<Vec<u8>> = g.wire.iter().map(|w| split_message(w).unwrap().0).collect();
    let pts: Vec<Vec<u8>> = auxs
      .iter()
      .map(|a| {
        let mut p = (m.len() as u32).to_le_bytes().to_vec();
        p.extend(&m);
        p.extend((a.as_ref().unwrap().len() as u32).to_le_bytes());
        p.extend(a.as_ref().unwrap());
        p
      })
      .collect();
    let mut v: Result<(), String> = Ok(());
    // the ciphertext difference must not equal the payload difference
    'outer: for i in 0..n {
      for j in i + 1..n {
        let len = cts[i].len().min(cts[j].len());
        let dc: Vec<u8> = (0..len).map(|k| cts[i][k] ^ cts[j][k]).collect();
        let dp: Vec<u8> = (0..len).map(|k| pts[i][k] ^ pts[j][k]).collect();
        // first differing payload byte and the end of the STROBE block (166 bytes) that contains it
        let fd = match (0..len).find(|&k| dp[k] != 0) {
          Some(k) => k,
          None => continue,
        };
        let block_end = ((fd / 166) + 1) * 166;
        // beyond that block: any 8-byte window where payloads differ and the differences agree
        let mut later = false;
        let mut k = block_end;
        while k + 8 <= len {
          if dp[k..k + 8].iter().any(|&b| b != 0) && dc[k..k + 8] == dp[k..k + 8] {
            later = true;
          }
          k += 1;
        }
        if later {
          v = Err("ciphertext difference equals payload difference beyond the first differing cipher block".into());
          break 'outer;
        }
        let hi = len.min(block_end);
        if dc[fd..hi] == dp[fd..hi] {
          v = Err("keystream-first-block: ciphertext difference equals payload difference up to the end of the first differing 166-byte block".into());
        }
      }
    }
    // no stretch of the payload goes out unencrypted: ciphertext and payload never agree on 4 consecutive positions
    for i in 0..n {
      let len = cts[i].len().min(pts[i].len());
      let mut run = 0usize;
      for k in 0..len {
        if cts[i][k] == pts[i][k] { run += 1 } else { run = 0 }
        if run >= 4 {
          v = Err(format!("report {}: ciphertext bytes {}..{} equal the payload bytes (measurement of {} bytes, associated data of {} bytes)", i, k + 1 - run, k + 1, m.len(), la));
          break;
        }
      }
    }
    // associated data never in the clear; no window of the report decrypts the payload
    for (i, w) in g.wire.iter().enumerate() {
      let a = auxs[i].as_ref().unwrap();
      if a.len() >= 8 {
        let tail = &a[a.len() - 8..];
        if contains(w, &a[..8.min(a.len())]) || contains(w, tail) || (a.len() >= 24 && contains(w, &a[a.len() / 2..a.len() / 2 + 8])) {
          v = Err("associated data occurs in the clear in the encoded report".into());
        }
      }
      // ... nor does a simple combination of the report's own share fields and tag give the key seed
      if i == 0 {
        if let (Some(msg), Some((_, sb, tag))) = (Message::from_bytes(w), split_message(w)) {
          if let Some(f) = split_share(&sb) {
            if f.c.len() == 32 && f.d.len() == 32 && tag.len() == 32 {
              let x = |a: &[u8], b: &[u8]| -> Vec<u8> { a.iter().zip(b).map(|(p, q)| p ^ q).collect() };
              let cands: Vec<(&str, Vec<u8>)> = vec![("C", f.c.clone()), ("D", f.d.clone()), ("tag", tag.clone()), ("C^D", x(&f.c, &f.d)), ("C^tag", x(&f.c, &tag)), ("D^tag", x(&f.d, &tag)), ("C^D^tag", x(&x(&f.c, &f.d), &tag))];
              for (name, cand) in cands {
                let k = ske_key(&cand, &e);
                let p = msg.ciphertext.decrypt(&k, "star_encrypt");
                if strict_payload(&p).map_or(false, |(mm, _)| mm == m) {
                  v = Err(format!("the report opens with the key derived from {} of its own fields", name));
                }
              }
            }
          }
        }
      }
      if gi % 5 == 0 && i == 0 {
        let msg = Message::from_bytes(w).unwrap();
        for off in 0..w.len().saturating_sub(16) {
          let cand = &w[off..off + 16];
          let p = msg.ciphertext.decrypt(cand, "star_encrypt");
          if strict_payload(&p).map_or(false, |(mm, _)| mm == m) {
            v = Err(format!("the 16 bytes at offset {} of the report decrypt its payload", off));
          }
        }
      }
    }
    // nothing carried in a report opens it: the sharing key (constant term of the sharing polynomial, found here by
    // interpolating t further shares of the same sharing) must not occur in the report - with it the wrapped key
    // seed, hence the payload key, follows
    {
      let r3 = derive3(&g.rnd);
      let c = adss::Commune::new(t, r3[0].clone(), r3[1].clone(), None);
      let extra: Vec<Vec<u8>> = (0..t).filter_map(|_| c.clone().share().ok().map(|s| s.to_bytes())).collect();
      let pts: Vec<(Fp, Fp)> = extra
        .iter()
        .filter_map(|s| split_share(s))
        .filter_map(|f| Some((crate::g_fp::fp_of(f.s.get(..24)?)?, crate::g_fp::fp_of(f.s.get(24..48)?)?)))
        .collect();
      let distinct_x = pts.iter().map(|p| crate::g_fp::bytes_of(&p.0)).collect::<std::collections::BTreeSet<_>>().len() == pts.len();
      // the same sharing as the reports' (static parts agree) - otherwise this probe says nothing
      let same = extra.first().and_then(|s| split_share(s)).map(|f| f.j) == split_share(&split_message(&g.wire[0]).unwrap().1).map(|f| f.j);
      if pts.len() == t as usize && distinct_x && same {
        let cs = interpolate_coeffs(&pts);
        let k = crate::g_fp::bytes_of(&cs[cs.len() - 1]);
        // fewer than t points must not determine the key: the polynomial through the first s < t points does not
        // pass through it (it would if the sharing polynomial had a lower degree than t - 1)
        for sub in 1..t as usize {
          let cs2 = interpolate_coeffs(&pts[..sub]);
          if crate::g_fp::bytes_of(&cs2[cs2.len() - 1]) == k {
            v = Err(format!("threshold {}: {} shares already determine the sharing key (the sharing polynomial has too low a degree), so a group below the threshold can be opened", t, sub));
            break;
          }
        }
        for (i, w) in g.wire.iter().enumerate() {
          if contains(w, &k[..16]) {
            v = Err(format!("threshold {}: the sharing key occurs in the clear in report {} (the payload can be opened with a value the report carries)", t, i));
          }
        }
      }
    }
    let sel: Vec<usize> = (0..n).collect();
    let (obs, _, _) = server_side(&g.e, &g.wire, &sel);
    out.case(scn_case(&g, &sel), format!("wire={} {}", g.wire.iter().map(|b| hex(b)).collect::<Vec<_>>().join(","), obs), v);
  }
  if only.is_none() {
    gen_c03_cross(seed, thorough, out);
    gen_reuse(seed ^ 0x3, thorough, out);
  }
}

/// A report below the threshold must not open with anything recovered for ANOTHER measurement: pairs of
/// measurements that agree on a long prefix or differ by a trailing zero byte.
fn gen_c03_cross(seed: u64, thorough: bool, out: &mut Out) {
  for gi in 0..(if thorough { 60u64 } else { 9 }) {
    let mut r = Prng::for_case(seed, "C03x", gi);
    let base = { let l_ = 32 + 16 * r.below(3) as usize; r.bytes(l_) };
    let short = { let l_ = 1 + r.below(6) as usize; r.bytes(l_) };
    let (ma, mb): (Vec<u8>, Vec<u8>) = match gi % 3 {
      0 => ([&base[..], &[1u8, 7][..]].concat(), [&base[..], &[2u8][..]].concat()),
      1 => (short.clone(), [&short[..], &[0u8][..]].concat()),
      _ => (base.clone(), [&base[..], &[0u8][..]].concat()),
    };
    let t = 2 + r.below(2) as u32;
    let e = r.bytes(2);
    let auxa: Vec<Option<Vec<u8>>> = (0..t).map(|_| Some(r.bytes(10))).collect();
    let secret_aux = r.bytes(24);
    let ga = match make_group(&mut r, ma.clone(), e.clone(), t, true, auxa) { Some(g) => g, None => continue };
    let gb = match make_group(&mut r, mb.clone(), e.clone(), t, true, vec![Some(secret_aux.clone())]) { Some(g) => g, None => continue };
    let sa: Vec<usize> = (0..t as usize).collect();
    let (obs_a, _, _) = server_side(&ga.e, &ga.wire, &sa);
    out.case(scn_case(&ga, &sa), format!("wire={} {}", ga.wire.iter().map(|b| hex(b)).collect::<Vec<_>>().join(","), obs_a), Ok(()));
    let mut v = Ok(());
    let (_, _, tag_a) = split_message(&ga.wire[0]).unwrap();
    let (_, _, tag_b) = split_message(&gb.wire[0]).unwrap();
    if tag_a == tag_b {
      v = Err(format!("measurements {} and {} (epoch {}, threshold {}) have the same tag: a report of the second is grouped and opened with the first", hex(&ma), hex(&mb), hex(&e), t));
    }
    let key_a = ske_key(&derive3(&ga.rnd)[0], &e);
    if let Some(msg_b) = Message::from_bytes(&gb.wire[0]) {
      let p = msg_b.ciphertext.decrypt(&key_a, "star_encrypt");
      if strict_payload(&p).map_or(false, |(mm, _)| mm == mb) {
        v = Err(format!("a single report of measurement {} opens with the key recovered for measurement {}", hex(&mb), hex(&ma)));
      }
    }
    let (obs_b, _, _) = server_side(&gb.e, &gb.wire, &[0]);
    out.case(scn_case(&gb, &[0]), format!("wire={} {}", gb.wire.iter().map(|b| hex(b)).collect::<Vec<_>>().join(","), obs_b), v);
    // the same measurement and epoch under two thresholds: the key recovered by the cohort that reached the smaller
    // threshold must not open a lone report made under the larger one, and the tags differ
    {
      let x1 = r.bytes(7);
      let lo = make_group(&mut r, ma.clone(), e.clone(), t, true, (0..t).map(|_| None).collect());
      let hi = make_group(&mut r, ma.clone(), e.clone(), t + 1 + 256 * (gi as u32 % 2), true, vec![Some(x1)]);
      if let (Some(lo), Some(hi)) = (lo, hi) {
        let mut v = Ok(());
        if split_message(&lo.wire[0]).map(|x| x.2) == split_message(&hi.wire[0]).map(|x| x.2) {
          v = Err(format!("one measurement and epoch under thresholds {} and {} has the same tag", lo.t, hi.t));
        }
        let key_lo = ske_key(&derive3(&lo.rnd)[0], &e);
        if let Some(msg) = Message::from_bytes(&hi.wire[0]) {
          let p = msg.ciphertext.decrypt(&key_lo, "star_encrypt");
          if strict_payload(&p).map_or(false, |(mm, _)| mm == ma) {
            v = Err(format!("a lone report under threshold {} opens with the key recovered under threshold {}", hi.t, lo.t));
          }
        }
        let (obs_hi, _, _) = server_side(&e, &hi.wire, &[0]);
        out.case(scn_case(&hi, &[0]), format!("wire={} {}", hi.wire.iter().map(|b| hex(b)).collect::<Vec<_>>().join(","), obs_hi), v);
      }
    }
    // the same measurement under two epochs that are not text and differ in one byte: one report each (threshold 2)
    // must not pool
    if gi % 3 == 0 {
      let (e1, e2) = (vec![0x80u8, gi as u8], vec![0x81u8, gi as u8]);
      let (x1, x2) = (r.bytes(9), r.bytes(9));
      let g1 = make_group(&mut r, ma.clone(), e1.clone(), 2, true, vec![Some(x1)]);
      let g2 = make_group(&mut r, ma.clone(), e2.clone(), 2, true, vec![Some(x2)]);
      if let (Some(g1), Some(g2)) = (g1, g2) {
        let pooled = vec![g1.wire[0].clone(), g2.wire[0].clone()];
        let (obs_p, m0, _) = server_side(&e1, &pooled, &[0, 1]);
        let mut v = Ok(());
        if split_message(&g1.wire[0]).map(|x| x.2) == split_message(&g2.wire[0]).map(|x| x.2) {
          v = Err(format!("one measurement under the epochs {} and {} has the same tag", hex(&e1), hex(&e2)));
        }
        if m0.is_some() {
          v = Err(format!("one report under epoch {} and one under epoch {} (threshold 2) pool and open", hex(&e1), hex(&e2)));
        }
        let (obs1, _, _) = server_side(&e1, &g1.wire, &[0]);
        out.case(scn_case(&g1, &[0]), format!("wire={} {}", g1.wire.iter().map(|b| hex(b)).collect::<Vec<_>>().join(","), obs1), v);
        let _ = obs_p;
        let (obs2, _, _) = server_side(&e2, &g2.wire, &[0]);
        out.case(scn_case(&g2, &[0]), format!("wire={} {}", g2.wire.iter().map(|b| hex(b)).collect::<Vec<_>>().join(","), obs2), Ok(()));
      }
    }
  }
}

fn derive_obs(m: &[u8], e: &[u8], t: u32) -> (String, Vec<u8>, Vec<u8>, Vec<u8>) {
  let mg = MessageGenerator::new(SingleMeasurement::new(m), t, e);
  let mut rnd = [0u8; 32];
  mg.sample_local_randomness(&mut rnd);
  let (key, tag) = match mg.share_with_local_randomness() {
    Ok(w) => (w.key.to_vec(), w.tag.to_vec()),
    Err(_) => (vec![], vec![]),
  };
  (format!("rnd={} tag={} key={}", hex(&rnd), hex(&tag), hex(&key)), rnd.to_vec(), tag, key)
}

pub fn gen_c04(seed: u64, thorough: bool, _only: Option<u64>, out: &mut Out) {
  gen_reuse(seed ^ 0x4, thorough, out);
  let mut r = Prng::for_case(seed, "C04", 0);
  // families of triples that must all be told apart
  let mut families: Vec<Vec<(Vec<u8>, Vec<u8>, u32)>> = vec![];
  // boundary-shifted: every split of a short string into measurement || epoch
  let nstr = if thorough { 12 } else { 3 };
  for i in 0..nstr {
    let l = 2 + r.below(if thorough { 7 } else { 5 }) as usize;
    let s = if i == 0 { b"abcd".to_vec() } else { r.bytes(l) };
    let t = *r.pick(&[1u32, 2, 3]);
    families.push((0..=s.len()).map(|k| (s[..k].to_vec(), s[k..].to_vec(), t)).collect());
  }
  // thresholds differing in one bit, 0 and extremes, same strings
  let m0 = r.bytes(6);
  let e0 = r.bytes(2);
  families.push([0u32, 1, 2, 3, 4, 5, 8, 9, 16, 17, 64, 65, 256, 257].iter().map(|&t| (m0.clone(), e0.clone(), t)).collect());
  // prefixes of one another, empty components, zero bytes
  let base = r.bytes(5);
  let mut fam = vec![];
  for k in 0..=base.len() {
    fam.push((base[..k].to_vec(), e0.clone(), 2));
    fam.push((m0.clone(), base[..k].to_vec(), 2));
  }
  fam.push((vec![], vec![], 2));
  fam.push((vec![0], vec![], 2));
  fam.push((vec![], vec![0], 2));
  fam.push((vec![0, 0], vec![], 2));
  fam.push((vec![2, 0, 0, 0], vec![], 2));
  fam.push((vec![], vec![2, 0, 0, 0], 2));
  families.push(fam);
  // long measurements that agree on a long prefix (32, 64, one cipher block), differ only late, or by trailing zeros
  {
    let long = r.bytes(400);
    let mut fam = vec![];
    for &k in &[16usize, 31, 32, 33, 64, 65, 128, 165, 166, 167, 200, 400] {
      fam.push((long[..k].to_vec(), e0.clone(), 2));
      let mut z = long[..k].to_vec();
      z.push(0);
      fam.push((z, e0.clone(), 2));
      let mut d = long[..k].to_vec();
      d[k - 1] ^= 0x80;
      fam.push((d, e0.clone(), 2));
    }
    families.push(fam);
  }
  if thorough {
    for _ in 0..40 {
      let a = { let l_ = 1 + r.below(40) as usize; r.bytes(l_) };
      let b = { let l_ = r.below(9) as usize; r.bytes(l_) };
      families.push(vec![(a.clone(), b.clone(), 2), (b.clone(), a.clone(), 2), (a.clone(), b.clone(), 3), ([a.clone(), b.clone()].concat(), vec![], 2)]);
    }
  }
  for fam in families {
    let mut seen: std::collections::BTreeMap<(Vec<u8>, Vec<u8>, u32), (Vec<u8>, Vec<u8>, Vec<u8>)> = Default::default();
    for (m, e, t) in fam {
      if seen.contains_key(&(m.clone(), e.clone(), t)) {
        continue;
      }
      let (obs, rnd, tag, key) = derive_obs(&m, &e, t);
      let mut v = Ok(());
      for ((m2, e2, t2), (r2, tg2, k2)) in seen.iter() {
        if *r2 == rnd || *tg2 == tag || *k2 == key {
          v = Err(format!("({},{},{}) and ({},{},{}) derive the same randomness, tag or key", hex(&m), hex(&e), t, hex(m2), hex(e2), t2));
        }
      }
      seen.insert((m.clone(), e.clone(), t), (rnd, tag, key));
      out.case(format!("star.derive {} {} {}", hex(&m), hex(&e), t), obs, v);
    }
  }
  // determinism across independent clients, whatever they attach; distinct share points
  for gi in 0..(if thorough { 60 } else { 8 }) {
    let t = *r.pick(&[1u32, 2, 3, 5]);
    let m = { let l_ = *r.pick(MLENS); r.blob(l_) };
    let e = { let l_ = r.below(6) as usize; r.blob(l_) };
    let n = t as usize + 2;
    let auxs: Vec<Option<Vec<u8>>> = (0..n).map(|i| aux_choice(&mut r, i + gi)).collect();
    let g = match make_group(&mut r, m.clone(), e.clone(), t, true, auxs) {
      Some(g) => g,
      None => continue,
    };
    let (_, _, tag, key) = derive_obs(&m, &e, t);
    let parts: Vec<(Vec<u8>, Vec<u8>, Vec<u8>)> = g.wire.iter().map(|w| split_message(w).unwrap()).collect();
    let mut v = Ok(());
    if parts.iter().any(|p| p.2 != tag) {
      v = Err("clients with equal (measurement, epoch, threshold) produced different tags".to_string());
    }
    if parts.iter().any(|p| static_part(&p.1) != static_part(&parts[0].1)) {
      v = Err("share fields other than the point differ between clients of one triple".to_string());
    }
    if g.xs.len() >= 2 && g.xs.iter().all(|x| x.len() == 24 && x[8..].iter().all(|&b| b == 0)) {
      v = Err(format!("all {} share points of one group are below 2^64: they are not drawn from the whole field, so independent clients will collide", g.xs.len()));
    }
    let xs: std::collections::BTreeSet<&Vec<u8>> = g.xs.iter().collect();
    if xs.len() != g.xs.len() {
      v = Err("two clients drew the same share point".to_string());
    }
    // the key the clients hold decrypts every report
    for (i, p) in parts.iter().enumerate() {
      let msg = Message::from_bytes(&g.wire[i]).unwrap();
      if strict_payload(&msg.ciphertext.decrypt(&key, "star_encrypt")) != Some((m.clone(), g.aux[i].clone())) {
        v = Err("the key of share_with_local_randomness does not open a report of the same triple".to_string());
      }
      let _ = p;
    }
    let sel: Vec<usize> = (0..n).rev().collect();
    let (obs, _, _) = server_side(&g.e, &g.wire, &sel);
    out.case(scn_case(&g, &sel), format!("wire={} {}", g.wire.iter().map(|b| hex(b)).collect::<Vec<_>>().join(","), obs), v);
    // the WASM entry point: same key / tag, and its share combines with the reports' shares
    let mg = MessageGenerator::new(SingleMeasurement::new(&m), t, &e);
    if let Ok(w) = mg.share_with_local_randomness() {
      let wb = w.share.to_bytes();
      let wx = share_x(&wb).unwrap_or_default();
      let mut v2 = Ok(());
      if w.tag.to_vec() != tag || w.key.to_vec() != key {
        v2 = Err("share_with_local_randomness disagrees with Message::generate on tag or key".to_string());
      }
      if static_part(&wb) != static_part(&parts[0].1) {
        v2 = Err("the share of share_with_local_randomness is not a share of the same sharing as the reports'".to_string());
      }
      let mut mix: Vec<Vec<u8>> = vec![wb.clone()];
      for p in parts.iter().take(t as usize - 1) {
        mix.push(p.1.clone());
      }
      let shares: Option<Vec<Share>> = mix.iter().map(|b| Share::from_bytes(b)).collect();
      let ok = shares.map_or(false, |sh| share_recover(&sh).map_or(false, |c| c.get_message() == derive3(&g.rnd)[0]));
      if !ok {
        v2 = Err("a WASM-path share and report shares of the same triple do not combine".to_string());
      }
      out.case(
        format!("wasm.mat {} {} {} {}", hex(&m), hex(&e), t, hex(&wx)),
        format!("key={} share={} tag={}", hex(&w.key), hex(&wb), hex(&w.tag)),
        v2,
      );
    }
  }
}

pub fn gen_c05(seed: u64, thorough: bool, only: Option<u64>, out: &mut Out) {
  let groups: u64 = if thorough { 40 } else { 10 };
  for gi in 0..groups {
    if only.map_or(false, |o| o != gi) {
      continue;
    }
    let mut r = Prng::for_case(seed, "C05", gi);
    // up to three sharings with different messages / coins / thresholds
    let mut sharings: Vec<(u32, Vec<u8>, Vec<Vec<u8>>)> = vec![];
    for k in 0..3 {
      let t = *r.pick(&[1u32, 2, 2, 3, 4]);
      // group 0 always carries the witness of the known finding C05/t1-share-point
      let t = if gi == 0 && k == 0 { 1 } else { t };
      let m = { let l_ = *r.pick(&[0usize, 1, 4, 32, 170]); r.bytes(l_) };
      let coins = { let l_ = *r.pick(&[0usize, 4, 32, 45]); r.bytes(l_) };
      // group 0: a non-empty threshold-1 sharing (witness of t1-share-point); group 1: an empty sharing
      // (witness of short-sharing); elsewhere whatever the stream gives
      // group 2: message and coins longer than a 32-byte key / shorter than a block (every byte of both must count)
      let (m, coins) = if gi == 0 && k == 0 && m.is_empty() { (vec![7u8; 4], coins) } else if gi == 1 && k == 0 { (vec![], vec![]) } else if gi == 2 && k == 0 { (vec![0x6d; 40], (0..45u8).collect()) } else { (m, coins) };
      let c = adss::Commune::new(t, m.clone(), coins, None);
      let n = t as usize + 1 + (k == 0) as usize;
      let sh: Vec<Vec<u8>> = (0..n).filter_map(|_| c.clone().share().ok().map(|s| s.to_bytes())).collect();
      sharings.push((t, m, sh));
    }
    let (t0, m0) = (&sharings[0].0.clone(), &sharings[0].1.clone());
    // fewer than 16 bytes of plaintext (message + coins) bind the 16-byte sharing key: a wrong key decrypts them to the
    // same values with probability 2^(-8n) - always for n = 0 (known finding C05/short-sharing)
    let (short_sharing, plain_len) = {
      let f = split_share(&sharings[0].2[0]).unwrap();
      (f.c.len() + f.d.len() < 16, f.c.len() + f.d.len())
    };
    let emit = |col: &[Vec<u8>], first_m: Option<&Vec<u8>>, what: String, out: &mut Out| {
      let obs = match decode_all(col) {
        Some(d) => recover_obs(&d),
        None => "err".into(),
      };
      let v = if obs == "err" {
        Ok(())
      } else if obs == "panic" {
        Err(format!("{}: recovery panicked", what))
      } else {
        match first_m {
          Some(m) if obs.starts_with(&format!("ok {} ", hex(m))) => Ok(()),
          Some(_) => Err(format!("{}: recovery returned a message other than the first share's", what)),
          None if short_sharing && (what.contains("share point") || what.contains("share value")) && obs.starts_with(&format!("ok {} ", hex(m0))) => {
            Err(format!("short-sharing: message and coins together have {} bytes (< 16), so the sharing key is bound only through them and an altered share point / value of the first share is accepted when the wrong key decrypts them alike (always for 0 bytes); the right message is returned", plain_len))
          }
          None if *t0 == 1 && what.contains("share point") && obs.starts_with(&format!("ok {} ", hex(m0))) => {
            Err("t1-share-point: at threshold 1 an altered share point of the first share is accepted (the right message is returned)".to_string())
          }
          None => Err(format!("{}: an altered first share was accepted", what)),
        }
      };
      out.case(format!("adss.recover {}", col.iter().map(|b| hex(b)).collect::<Vec<_>>().join(" ")), obs, v);
    };
    // mixtures: first share from sharing 0, then every arrangement class of own and foreign shares
    let s0 = &sharings[0].2;
    for variant in 0..6 {
      let mut col = vec![s0[0].clone()];
      let own: Vec<Vec<u8>> = s0[1..].to_vec();
      let mut foreign: Vec<Vec<u8>> = sharings[1].2.clone();
      foreign.extend(sharings[2].2.iter().cloned());
      r.shuffle(&mut foreign);
      match variant {
        0 => col.extend(foreign.iter().cloned()), // only foreign after the first
        1 => {
          col.extend(foreign.iter().take(2).cloned());
          col.extend(own.iter().cloned());
        }
        2 => {
          col.extend(own.iter().cloned());
          col.extend(foreign.iter().cloned());
        }
        3 => {
          for (a, b) in own.iter().zip(foreign.iter()) {
            col.push(b.clone());
            col.push(a.clone());
          }
        }
        4 => {
          // a full quorum of another sharing behind a single share of this one
          col.extend(sharings[1].2.iter().cloned());
        }
        _ => {
          col.extend(foreign.iter().cloned());
          col.extend(own.iter().cloned());
          col.push(s0[0].clone());
        }
      }
      emit(&col, Some(m0), format!("mixture variant {} (first share of a t={} sharing)", variant, t0), out);
      // the same collection through sta_rs::share_recover
      let obs = match col.iter().map(|b| Share::from_bytes(b)).collect::<Option<Vec<Share>>>() {
        Some(sh) => match guarded(|| match share_recover(&sh) {
          Ok(c) => {
            let mm = c.get_message();
            match c.clone().share() {
              Ok(s2) => format!("ok {} {}", hex(&mm), static_part(&s2.to_bytes())),
              Err(_) => format!("ok {} reshare-err", hex(&mm)),
            }
          }
          Err(_) => "err".to_string(),
        }) {
          Some(o) => o,
          None => "panic".into(),
        },
        None => "err".into(),
      };
      let v = if obs == "err" || obs.starts_with(&format!("ok {} ", hex(m0))) { Ok(()) } else { Err(format!("share_recover on mixture variant {} returned a message other than the first share's", variant)) };
      out.case(format!("star.shrec {}", col.iter().map(|b| hex(b)).collect::<Vec<_>>().join(" ")), obs, v);
    }
    // single-field alterations of the first share and of a later share
    let base: Vec<Vec<u8>> = s0.clone();
    let f0 = split_share(&base[0]).unwrap();
    let fields: Vec<(&str, usize, usize)> = {
      let mut v = vec![("threshold", 0usize, 4usize)];
      let mut off = 4 + 4;
      v.push(("share point", off, 24));
      v.push(("share value", off + 24, f0.s.len() - 24));
      off += f0.s.len() + 4;
      v.push(("encrypted message", off, f0.c.len()));
      off += f0.c.len() + 4;
      v.push(("encrypted coins", off, f0.d.len()));
      off += f0.d.len();
      v.push(("authentication tag", off, 64));
      v
    };
    for (name, off, len) in fields {
      if len == 0 {
        continue;
      }
      let positions: Vec<usize> = if thorough || len <= 8 { (0..len).collect() } else { vec![0, 1, len / 2, len / 2 + 1, len - 2, len - 1, r.below(len as u64) as usize, 31.min(len - 1), 32.min(len - 1), 63.min(len - 1)] };
      for p in positions {
        for fault in 0..(if thorough { 4 } else { 2 }) {
          for which in [0usize, 1] {
            if which >= base.len() {
              continue;
            }
            let mut col = base.clone();
            let old = col[which][off + p];
            let new = match fault {
              0 => old ^ (1 << r.below(8)),
              1 => old.wrapping_add(1),
              2 => 0,
              _ => 0xff,
            };
            if new == old {
              continue;
            }
            col[which][off + p] = new;
            if which == 0 {
              emit(&col, None, format!("first share: {} byte {} altered", name, p), out);
            } else {
              // later shares contribute only their point and value; other fields are ignored
              emit(&col, Some(m0), format!("second share: {} byte {} altered", name, p), out);
            }
          }
        }
      }
    }
    // the whole share point of the first share replaced: by zero (where the secret lives), by p - 1, by another share's
    if base.len() >= 2 && base[0].len() >= 32 && base[1].len() >= 32 {
      let pm1 = { let mut b = vec![0u8; 24]; b[..16].copy_from_slice(&12450u128.to_le_bytes()); b[16] = 1; b };
      for (what, x) in [("zero", vec![0u8; 24]), ("p - 1", pm1), ("the second share's point", base[1][8..32].to_vec())] {
        let mut col = base.clone();
        if col[0][8..32] != x[..] {
          col[0][8..32].copy_from_slice(&x);
          emit(&col, None, format!("first share: share point replaced by {}", what), out);
        }
      }
    }
  }
}
