//! C16 (and the adss-level parts of C02/C05): sharing, recovery, re-sharing, transcripts.
use crate::layout::*;
use crate::util::*;
use adss::{recover, Commune, Share};
use strobe_rs::{SecParam, Strobe};

pub const LENS: &[usize] = &[0, 1, 4, 15, 16, 17, 32, 64, 165, 166, 167, 200, 331, 332, 333, 700];

pub fn static_part(b: &[u8]) -> String {
  match split_share(b) {
    Some(f) => format!("{} {} {} {}", hex(&f.a), hex(&f.c), hex(&f.d), hex(&f.j)),
    None => "unparsable".to_string(),
  }
}

/// what `adss::recover` is observed to return, in the form the model prints it
pub fn recover_obs(shares: &[Share]) -> String {
  match guarded(|| match recover(shares) {
    Ok(c) => {
      let m = c.get_message();
      match c.clone().share() {
        Ok(s) => format!("ok {} {}", hex(&m), static_part(&s.to_bytes())),
        Err(_) => format!("ok {} reshare-err", hex(&m)),
      }
    }
    Err(_) => "err".to_string(),
  }) {
    Some(s) => s,
    None => "panic".to_string(),
  }
}

pub fn decode_all(bs: &[Vec<u8>]) -> Option<Vec<Share>> {
  bs.iter().map(|b| Share::from_bytes(b)).collect()
}

pub fn mk_transcript(desc: &Option<(Vec<u8>, Vec<Vec<u8>>)>) -> (Option<Strobe>, String) {
  match desc {
    None => (None, "~".to_string()),
    Some((l, ads)) => {
      let mut s = Strobe::new(l, SecParam::B128);
      for a in ads {
        s.ad(a, false);
      }
      let d = format!("{}:{}", hex(l), ads.iter().map(|a| hex(a)).collect::<Vec<_>>().join(","));
      (Some(s), d)
    }
  }
}

/// Sharings picked for what their key looks like: found by search at threshold 1 (where the key is the share value),
/// keys whose last or first byte is zero; and one sharing whose message is longer than 4096 bytes.
fn gen_special(out: &mut Out) {
  let m = b"sharing with a special key".to_vec();
  let mut found = 0;
  for i in 0..6000u32 {
    if found >= 4 {
      break;
    }
    let coins = i.to_le_bytes().to_vec();
    let c = Commune::new(1, m.clone(), coins.clone(), None);
    let sh = match c.clone().share() { Ok(s) => s, Err(_) => continue };
    let b = sh.to_bytes();
    if b.len() < 48 || !(b[32] == 0 || b[47] == 0) {
      continue;
    }
    found += 1;
    let x = hex(&share_x(&b).unwrap_or_default());
    out.case(format!("adss.share 1 {} {} ~ {}", hex(&m), hex(&coins), x), format!("ok {}", hex(&b)), Ok(()));
    let obs = match decode_all(&[b.clone()]) {
      Some(d) => recover_obs(&d),
      None => "err".into(),
    };
    let want = format!("ok {} {}", hex(&m), static_part(&b));
    out.case(
      format!("adss.recover {}", hex(&b)),
      obs.clone(),
      if obs == want { Ok(()) } else { Err(format!("coins {}: the sharing key has a zero {} byte and the sharing does not recover", hex(&coins), if b[47] == 0 { "last" } else { "first" })) },
    );
  }
  for (ml, rl) in [(4097usize, 4usize), (4usize, 4100usize)] {
    let (m, coins) = (vec![0x4du8; ml], vec![0x52u8; rl]);
    let c = Commune::new(2, m.clone(), coins.clone(), None);
    let enc: Vec<Vec<u8>> = (0..2).filter_map(|_| c.clone().share().ok().map(|s| s.to_bytes())).collect();
    if enc.len() != 2 {
      continue;
    }
    let obs = match decode_all(&enc) {
      Some(d) => recover_obs(&d),
      None => "err".into(),
    };
    let want = format!("ok {} {}", hex(&m), static_part(&enc[0]));
    out.case(
      format!("adss.recover {}", enc.iter().map(|b| hex(b)).collect::<Vec<_>>().join(" ")),
      obs.clone(),
      if obs == want { Ok(()) } else { Err(format!("a sharing with a {}-byte message and {}-byte coins does not recover", ml, rl)) },
    );
  }
}

pub fn gen(seed: u64, thorough: bool, only: Option<u64>, out: &mut Out) {
  if only.is_none() {
    gen_special(out);
  }
  let groups: u64 = if thorough { 600 } else { 40 };
  let ts: &[u32] = if thorough { &[0, 1, 2, 3, 4, 5, 8, 13, 16, 33, 64, 128, 256, 257, 9, 11, 63, 65] } else { &[0, 1, 2, 3, 5, 8, 9, 11, 16, 33, 64, 65] };
  for g in 0..groups {
    if let Some(o) = only {
      if o != g {
        continue;
      }
    }
    let mut r = Prng::for_case(seed, "C16", g);
    let t = if g < ts.len() as u64 { ts[g as usize] } else { *r.pick(ts) };
    // (quick tier: thresholds above 8 - odd ones, and 64 and its neighbours - only in the fixed leading groups)
    let t = if !thorough && t > 8 && g >= ts.len() as u64 { 8 } else { t };
    // thresholds above 2^8 only in the fixed leading groups (a 256-share recovery costs the model ~40 s)
    let t = if t >= 256 && g >= ts.len() as u64 { 64 } else { t };
    let ml = if thorough && r.below(40) == 0 { 100_000 } else { *r.pick(LENS) };
    let rl = *r.pick(LENS);
    let m = r.blob(ml);
    let coins = r.blob(rl);
    // group 4 (threshold 5, history block below) is the fixed witness of the known finding C16/short-sharing
    let (m, coins) = if g == 4 { (vec![], vec![]) } else { (m, coins) };
    let custom = r.below(6) == 0;
    let desc = if custom {
      let ll = 1 + r.below(12) as usize;
      let al = r.below(5) as usize;
      Some((r.bytes(ll), vec![r.bytes(al)]))
    } else {
      None
    };
    let (tr, trd) = mk_transcript(&desc);
    let n = (t as usize).max(1) + r.below(3) as usize;
    let c = Commune::new(t, m.clone(), coins.clone(), tr);
    let shares: Vec<Share> = match (0..n).map(|_| c.clone().share()).collect::<Result<Vec<_>, _>>() {
      Ok(s) => s,
      Err(_) => {
        out.case(format!("adss.share {} {} {} {}", t, hex(&m), hex(&coins), trd), "err".into(), Ok(()));
        continue;
      }
    };
    let enc: Vec<Vec<u8>> = shares.iter().map(|s| s.to_bytes()).collect();
    let xs: Vec<String> = enc.iter().map(|b| hex(&share_x(b).unwrap_or_default())).collect();
    // (1) the shares themselves: everything but x is a function of (t, M, R, T)
    let statics: Vec<String> = enc.iter().map(|b| static_part(b)).collect();
    let det = statics.iter().all(|s| *s == statics[0]);
    out.case(
      format!("adss.share {} {} {} {} {}", t, hex(&m), hex(&coins), trd, xs.join(" ")),
      format!("ok {}", enc.iter().map(|b| hex(b)).collect::<Vec<_>>().join(",")),
      if det { Ok(()) } else { Err("static part of two shares of one sharing differs".into()) },
    );
    // (2) recovery from a random selection holding t distinct shares, after an encode/decode round trip
    let dec = match decode_all(&enc) {
      Some(d) => d,
      None => {
        out.case(format!("adss.decode {}", hex(&enc[0])), "err".into(), Err("honest share does not decode".into()));
        continue;
      }
    };
    let mut idx: Vec<usize> = (0..n).collect();
    r.shuffle(&mut idx);
    let mut sel: Vec<usize> = idx[..(t as usize).max(1).min(n)].to_vec();
    for _ in 0..r.below(3) {
      let d = *r.pick(&sel);
      sel.insert(r.below(sel.len() as u64 + 1) as usize, d);
    }
    let picked: Vec<Share> = sel.iter().map(|&i| dec[i].clone()).collect();
    let obs = recover_obs(&picked);
    let expect_ok = t >= 1 && !custom;
    let verdict = if expect_ok {
      let want = format!("ok {} {}", hex(&m), statics[0]);
      if obs == want { Ok(()) } else { Err(format!("recover gave {} want {}", &obs[..obs.len().min(40)], &want[..want.len().min(40)])) }
    } else if obs.starts_with("ok") {
      Err(format!("recover succeeded with t={} custom_transcript={}", t, custom))
    } else if obs == "panic" {
      Err("recover panicked".into())
    } else {
      Ok(())
    };
    out.case(
      format!("adss.recover {}", sel.iter().map(|&i| hex(&enc[i])).collect::<Vec<_>>().join(" ")),
      obs,
      verdict,
    );
    // (2'') the same shares handed over through iterator adaptors (filter, skip_while, flat_map): same result
    if expect_ok && g % 2 == 0 {
      let want = recover_obs(&picked);
      let via: Vec<(&str, Option<bool>)> = vec![
        ("filter", guarded(|| recover(picked.iter().filter(|_| true)).map(|c| c.get_message()).ok() == Some(m.clone()))),
        ("skip_while", guarded(|| recover(picked.iter().skip_while(|_| false)).map(|c| c.get_message()).ok() == Some(m.clone()))),
        ("flat_map", guarded(|| recover(picked.chunks(1).flat_map(|c| c.iter())).map(|c| c.get_message()).ok() == Some(m.clone()))),
      ];
      let mut v = Ok(());
      for (name, got) in via {
        if want.starts_with("ok") && got != Some(true) {
          v = Err(format!("recovery from the same {} shares handed over through `{}` does not return the message", picked.len(), name));
        }
      }
      out.case(
        format!("adss.recover {}", sel.iter().map(|&i| hex(&enc[i])).collect::<Vec<_>>().join(" ")),
        want,
        v,
      );
    }
    // (2') the authentication tag altered in TWO bytes by the same mask (every byte of the tag must count, not a
    // digest of them): never accepted
    if expect_ok {
      let mut tam: Vec<Vec<u8>> = sel.iter().map(|&i| enc[i].clone()).collect();
      let l = tam[0].len();
      let (i, j) = (l - 64 + r.below(32) as usize, l - 32 + r.below(32) as usize);
      let mask = 1 + r.below(255) as u8;
      tam[0][i] ^= mask;
      tam[0][j] ^= mask;
      let obs = match decode_all(&tam) {
        Some(d) => recover_obs(&d),
        None => "err".into(),
      };
      out.case(
        format!("adss.recover {}", tam.iter().map(|b| hex(b)).collect::<Vec<_>>().join(" ")),
        obs.clone(),
        if obs == "err" { Ok(()) } else { Err(format!("a tag altered in bytes {} and {} by the same mask was accepted", i + 64 - l, j + 64 - l)) },
      );
    }
    // (3) re-sharing: a share made from the recovered commune combines with t-1 old ones
    if expect_ok {
      if let Ok(rc) = recover(&picked) {
        if let Ok(ns) = rc.share() {
          let nb = ns.to_bytes();
          let mut mix: Vec<Vec<u8>> = vec![nb.clone()];
          for &i in idx.iter().take((t as usize).saturating_sub(1)) {
            mix.push(enc[i].clone());
          }
          r.shuffle(&mut mix);
          let obs2 = match decode_all(&mix) {
            Some(d) => recover_obs(&d),
            None => "err".into(),
          };
          let want = format!("ok {} {}", hex(&m), statics[0]);
          out.case(
            format!("adss.recover {}", mix.iter().map(|b| hex(b)).collect::<Vec<_>>().join(" ")),
            obs2.clone(),
            if obs2 == want { Ok(()) } else { Err("re-shared share does not combine with the original shares".into()) },
          );
        }
      }
    }
    // (5) history on one thread: the same (threshold, message, coins) under ANOTHER transcript, then under the first
    // one again. The two sharings must not share their authenticated part, must not combine, and going back must
    // give the first sharing again (nothing may be remembered between calls).
    if g % 3 == 1 && t >= 1 {
      let other_desc = if custom { None } else { Some((b"another transcript".to_vec(), vec![vec![1u8, 2, 3]])) };
      let (tr2, trd2) = mk_transcript(&other_desc);
      let c2 = Commune::new(t, m.clone(), coins.clone(), tr2);
      if let Ok(sh2) = (0..n).map(|_| c2.clone().share()).collect::<Result<Vec<_>, _>>() {
        let enc2: Vec<Vec<u8>> = sh2.iter().map(|s| s.to_bytes()).collect();
        let xs2: Vec<String> = enc2.iter().map(|b| hex(&share_x(b).unwrap_or_default())).collect();
        let st2: Vec<String> = enc2.iter().map(|b| static_part(b)).collect();
        let v2 = if st2.iter().any(|x| *x != st2[0]) {
          Err("static part of two shares of one sharing differs".to_string())
        } else if st2[0] == statics[0] {
          Err("the same (threshold, message, coins) under two different transcripts gives the same authenticated share fields".to_string())
        } else {
          Ok(())
        };
        out.case(
          format!("adss.share {} {} {} {} {}", t, hex(&m), hex(&coins), trd2, xs2.join(" ")),
          format!("ok {}", enc2.iter().map(|b| hex(b)).collect::<Vec<_>>().join(",")),
          v2,
        );
        if t >= 2 {
          for first_is_second in [false, true] {
            let (a, b) = if first_is_second { (&enc2, &enc) } else { (&enc, &enc2) };
            let mut mix: Vec<Vec<u8>> = vec![a[0].clone()];
            mix.extend(b.iter().take(t as usize - 1).cloned());
            let obs = match decode_all(&mix) {
              Some(d) => recover_obs(&d),
              None => "err".into(),
            };
            out.case(
              format!("adss.recover {}", mix.iter().map(|b| hex(b)).collect::<Vec<_>>().join(" ")),
              obs.clone(),
              if obs == "err" {
                Ok(())
              } else if m.len() + coins.len() < 16 {
                // known finding short-sharing (see C05): fewer than 16 bytes of plaintext bind the sharing key
                Err(format!("short-sharing: message and coins together have {} bytes (< 16), so the sharing key is bound only through them and points of a sharing under another transcript are accepted when the wrong key decrypts them alike (always for 0 bytes)", m.len() + coins.len()))
              } else {
                Err("shares made under two different transcripts combined".to_string())
              },
            );
          }
        }
        let (tr3, _) = mk_transcript(&desc);
        let c3 = Commune::new(t, m.clone(), coins.clone(), tr3);
        if let Ok(s3) = c3.share() {
          let e3 = s3.to_bytes();
          let x3 = hex(&share_x(&e3).unwrap_or_default());
          out.case(
            format!("adss.share {} {} {} {} {}", t, hex(&m), hex(&coins), trd, x3),
            format!("ok {}", hex(&e3)),
            if static_part(&e3) == statics[0] { Ok(()) } else { Err("sharing the same (threshold, message, coins, transcript) again after another sharing gives different share fields".to_string()) },
          );
        }
      }
    }
    // (4) one share short never recovers (t >= 2)
    if t >= 2 && !custom {
      let few: Vec<Share> = idx.iter().take(t as usize - 1).map(|&i| dec[i].clone()).collect();
      let obs3 = recover_obs(&few);
      out.case(
        format!("adss.recover {}", idx.iter().take(t as usize - 1).map(|&i| hex(&enc[i])).collect::<Vec<_>>().join(" ")),
        obs3.clone(),
        if obs3 == "err" { Ok(()) } else { Err("t-1 shares did not yield an error".into()) },
      );
    }
  }
}
