//! C17 (WASM string API, called natively) and C18 (reference aggregation server).
use crate::g_star::*;
use crate::layout::*;
use crate::util::*;
use base64::{engine::Engine as _, prelude::BASE64_STANDARD};
use sta_rs::{Message, MessageGenerator, SingleMeasurement};
use star_test_utils::AggregationServer;
use star_wasm::{create_share, group_shares};

fn json_fields(s: &str) -> Option<(String, String, String)> {
  let s = s.strip_prefix("{\"key\": \"")?;
  let (k, rest) = s.split_once("\", \"share\": \"")?;
  let (sh, rest) = rest.split_once("\", \"tag\": \"")?;
  let tg = rest.strip_suffix("\"}")?;
  Some((k.to_string(), sh.to_string(), tg.to_string()))
}

fn epoch_str(r: &mut Prng) -> String {
  match r.below(9) {
    0 => String::new(),
    1 => "t".into(),
    // white space is part of the epoch: clients that used it get their key only under exactly that string
    6 => "2024-06 ".into(),
    7 => " t\n".into(),
    8 => "\u{a0}w\u{3000}".into(),
    2 => "2024-05".into(),
    3 => "épöque-ü".into(),
    4 => "\u{65e5}\u{672c}\u{1f600}".into(),
    _ => (0..1 + r.below(12)).map(|_| (b'a' + r.below(26) as u8) as char).collect(),
  }
}

fn group_obs(ser: &str, epoch: &str) -> String {
  match guarded(|| group_shares(ser, epoch)) {
    Some(Some(k)) => format!("some {}", hex(k.as_bytes())),
    Some(None) => "none".into(),
    None => "panic".into(),
  }
}

/// Sharing keys with a zero first or last byte (one measurement in 128): found by search at threshold 1, where the key
/// is the share value; the grouping call must return the clients' key for them like for any other
fn gen_c17_zero_keys(out: &mut Out) {
  let epoch = "2026-10-01";
  let mut found = 0;
  for i in 0..4000u32 {
    if found >= 6 {
      break;
    }
    let m = format!("page/{}", i).into_bytes();
    let js = match guarded(|| create_share(&m, 1, epoch)) { Some(s) => s, None => continue };
    let (k, sh, _) = match json_fields(&js) { Some(f) => f, None => continue };
    let sb = match BASE64_STANDARD.decode(&sh) { Ok(b) => b, Err(_) => continue };
    if sb.len() < 48 || !(sb[32] == 0 || sb[47] == 0) {
      continue;
    }
    found += 1;
    let x = share_x(&sb).unwrap_or_default();
    out.case(format!("wasm.create {} {} {} {}", hex(&m), 1, hex(epoch.as_bytes()), hex(&x)), hex(js.as_bytes()), Ok(()));
    let obs = group_obs(&sh, epoch);
    let v = if obs == format!("some {}", hex(k.as_bytes())) { Ok(()) } else { Err(format!("measurement {}: the sharing key has a zero {} byte and the grouping call does not return the clients' key", String::from_utf8_lossy(&m), if sb[32] == 0 { "first" } else { "last" })) };
    out.case(format!("wasm.group {} {}", hex(sh.as_bytes()), hex(epoch.as_bytes())), obs, v);
  }
}

pub fn gen_c17(seed: u64, thorough: bool, only: Option<u64>, out: &mut Out) {
  if only.is_none() {
    gen_c17_zero_keys(out);
  }
  let groups: u64 = if thorough { 300 } else { 30 };
  for gi in 0..groups {
    if only.map_or(false, |o| o != gi) {
      continue;
    }
    let mut r = Prng::for_case(seed, "C17", gi);
    let t = *r.pick(&[1u32, 2, 2, 3, 3, 5]);
    // fixed groups with thresholds whose encoding uses the upper bytes (only share creation and a sub-threshold
    // grouping are run for them)
    let high = match gi { 3 => Some(256u32), 4 => Some(300), 5 => Some(511), _ => None };
    let t = high.unwrap_or(t);
    let ml = *r.pick(&[0usize, 1, 4, 16, 32, 200]);
    let m = match r.below(4) {
      0 => vec![0xff, 0xfe, 0x00, 0x80][..ml.min(4)].to_vec(),
      1 => vec![0x80; ml.min(3)],
      _ => r.blob(ml),
    };
    let epoch = epoch_str(&mut r);
    let n = if high.is_some() { 3 } else { t as usize + 1 };
    let mut shares_b64: Vec<String> = vec![];
    let mut key0 = String::new();
    for i in 0..n {
      let js = match guarded(|| create_share(&m, t, &epoch)) {
        Some(s) => s,
        None => {
          out.case(format!("wasm.create {} {} {} -", hex(&m), t, hex(epoch.as_bytes())), "panic".into(), Err("create_share panicked".into()));
          continue;
        }
      };
      let mut v = Ok(());
      let fields = json_fields(&js);
      let mut x = vec![];
      match &fields {
        None => v = Err("create_share output does not have the documented JSON shape".to_string()),
        Some((k, sh, tg)) => {
          let kb = BASE64_STANDARD.decode(k);
          let sb = BASE64_STANDARD.decode(sh);
          let tb = BASE64_STANDARD.decode(tg);
          match (kb, sb, tb) {
            (Ok(kb), Ok(sb), Ok(tb)) => {
              // what the core library derives for the same inputs
              let mg = MessageGenerator::new(SingleMeasurement::new(&m), t, epoch.as_bytes());
              let mut rnd = [0u8; 32];
              mg.sample_local_randomness(&mut rnd);
              let r3 = derive3(&rnd);
              if kb.len() != 16 || kb != ske_key(&r3[0], epoch.as_bytes()) {
                v = Err("key field is not the 16-byte key the core library derives".to_string());
              }
              if tb.len() != 32 || tb != r3[2] {
                v = Err("tag field is not the 32-byte tag the core library derives".to_string());
              }
              match sta_rs::Share::from_bytes(&sb) {
                None => v = Err("share field does not decode to a share".to_string()),
                Some(sh) => {
                  // a valid share: it re-encodes to the same bytes and carries the caller's threshold
                  if sh.to_bytes() != sb {
                    v = Err(format!("threshold {}: the share field decodes to a share that encodes differently", t));
                  }
                  if sb.len() < 4 || sb[..4] != t.to_le_bytes() {
                    v = Err(format!("threshold {}: the share field does not carry the threshold", t));
                  }
                }
              }
              x = share_x(&sb).unwrap_or_default();
              if i == 0 {
                key0 = k.clone();
              }
              shares_b64.push(sh.clone());
            }
            _ => v = Err("a field of the JSON is not valid base64".to_string()),
          }
          if js.contains('\\') || js.matches('"').count() != 12 {
            v = Err("output is not well-formed JSON".to_string());
          }
        }
      }
      out.case(format!("wasm.create {} {} {} {}", hex(&m), t, hex(epoch.as_bytes()), hex(&x)), hex(js.as_bytes()), v);
    }
    if shares_b64.len() < n {
      continue;
    }
    if high.is_some() {
      let ser = shares_b64.join("\n");
      let obs = group_obs(&ser, &epoch);
      let v = if obs == "none" { Ok(()) } else { Err(format!("three shares of a threshold-{} sharing: something was returned", t)) };
      out.case(format!("wasm.group {} {}", hex(ser.as_bytes()), hex(epoch.as_bytes())), obs, v);
      continue;
    }
    // grouping: exactly t, a repeat early in the list, one short, wrong epoch, mixed measurement, malformed
    let tt = t as usize;
    let mut variants: Vec<(Vec<String>, String, Option<bool>, &str)> = vec![];
    variants.push((shares_b64[..tt].to_vec(), epoch.clone(), Some(true), "t distinct shares"));
    let mut dup = vec![shares_b64[0].clone()];
    dup.extend(shares_b64[..tt].iter().cloned());
    dup.push(shares_b64[tt].clone());
    variants.push((dup, epoch.clone(), Some(true), "a repeated share ahead of t distinct ones"));
    if tt >= 2 {
      let mut few = shares_b64[..tt - 1].to_vec();
      few.push(shares_b64[0].clone());
      variants.push((few, epoch.clone(), Some(false), "t-1 distinct shares padded with a repeat"));
    }
    // (asked right after the same list under the clients' epoch: nothing may be carried over from that call)
    variants.push((shares_b64[..tt].to_vec(), epoch.clone(), Some(true), "t distinct shares"));
    let other_epoch = format!("{}x", epoch);
    variants.push((shares_b64[..tt].to_vec(), other_epoch, None, "t distinct shares, different epoch"));
    variants.push((shares_b64[..tt].to_vec(), epoch.clone(), Some(true), "t distinct shares, the clients' epoch again"));
    // epochs that differ only in surrounding white space are different epochs
    for (k, other) in [format!("{} ", epoch), format!("{}\n", epoch), format!(" {}", epoch), epoch.trim().to_string()].into_iter().enumerate() {
      if other != epoch {
        variants.push((shares_b64[..tt].to_vec(), other, None, ["t distinct shares, epoch plus a trailing blank", "t distinct shares, epoch plus a newline", "t distinct shares, epoch with a leading blank", "t distinct shares, trimmed epoch"][k]));
      }
    }
    // foreign measurement: single share of another measurement first
    let mut m2 = m.clone();
    m2.push(1);
    if tt >= 2 {
      if let Some((_, sh2, _)) = json_fields(&create_share(&m2, t, &epoch)) {
        let mut mix = vec![sh2.clone()];
        mix.extend(shares_b64[..tt - 1].iter().cloned());
        variants.push((mix, epoch.clone(), Some(false), "no measurement reaches its threshold"));
      }
    }
    variants.push((vec!["!!!".to_string()], epoch.clone(), Some(false), "undecodable base64"));
    variants.push((vec!["".to_string()], epoch.clone(), Some(false), "empty input"));
    variants.push((vec!["AAAA".to_string()], epoch.clone(), Some(false), "three zero bytes"));
    let mut trailing = shares_b64[..tt].to_vec();
    trailing.push(String::new());
    variants.push((trailing, epoch.clone(), Some(false), "trailing newline"));
    let mut badpad = shares_b64[..tt].to_vec();
    badpad[0] = badpad[0].trim_end_matches('=').to_string() + if badpad[0].ends_with('=') { "" } else { "=" };
    variants.push((badpad, epoch.clone(), None, "non-canonical padding"));
    // lines of unequal length: a share with surplus bytes after / before honest ones, a long line, a short one
    if let Ok(raw) = BASE64_STANDARD.decode(&shares_b64[0]) {
      let mut padded = raw.clone();
      padded.extend(std::iter::repeat(0x41u8).take(64));
      let long = BASE64_STANDARD.encode(&padded);
      let mut a = shares_b64[..tt].to_vec();
      a.push(long.clone());
      variants.push((a, epoch.clone(), None, "a longer line after the honest shares"));
      let mut b = vec![long.clone()];
      b.extend(shares_b64[..tt].iter().cloned());
      variants.push((b, epoch.clone(), None, "a longer line before the honest shares"));
      let mut c = shares_b64[..tt.min(1)].to_vec();
      c.push(BASE64_STANDARD.encode(vec![7u8; 3000]));
      variants.push((c, epoch.clone(), Some(false), "a 3000-byte line after an honest share"));
      let mut d = shares_b64[..tt].to_vec();
      d.insert(1.min(d.len()), "AAAA".to_string());
      variants.push((d, epoch.clone(), Some(false), "a three-byte line among the honest shares"));
    }
    // a repeat that is NOT next to its first occurrence, inside the first t distinct shares
    if tt >= 3 {
      let mut l: Vec<String> = vec![shares_b64[0].clone(), shares_b64[1].clone(), shares_b64[0].clone()];
      l.extend(shares_b64[2..tt].iter().cloned());
      variants.push((l, epoch.clone(), Some(true), "a share repeated after another one, ahead of the remaining distinct shares"));
    }
    // threshold 1: the polynomial is constant, so the share is valid at every point - also at points >= 2^128
    if tt == 1 {
      if let Ok(raw) = BASE64_STANDARD.decode(&shares_b64[0]) {
        for x in [crate::g_fp::le24(1, 5), crate::g_fp::le24(1, 12450), crate::g_fp::le24(0, u128::MAX)] {
          let mut b = raw.clone();
          if b.len() >= 32 {
            b[8..32].copy_from_slice(&x);
            variants.push((vec![BASE64_STANDARD.encode(&b)], epoch.clone(), Some(true), "a threshold-1 share moved to a point at the top of the field"));
          }
        }
      }
    }
    // text that is not ASCII: a two-, three- and four-byte character inserted at every byte offset 0..15 of a share line
    if gi % 5 == 0 {
      for ch in ['\u{e9}', '\u{20ac}', '\u{1f600}'] {
        for off in 0..16usize {
          let mut line = shares_b64[0].clone();
          if off <= line.len() {
            line.insert(off, ch);
            let mut l2 = vec![line];
            l2.extend(shares_b64[1..tt.max(1)].iter().cloned());
            variants.push((l2, epoch.clone(), Some(false), "a non-ASCII character inside the first line"));
          }
        }
      }
    }
    for (list, ep, expect, what) in variants {
      let ser = list.join("\n");
      let obs = group_obs(&ser, &ep);
      let v = if obs == "panic" {
        Err(format!("group_shares panicked ({})", what))
      } else {
        match expect {
          Some(true) => (obs == format!("some {}", hex(key0.as_bytes()))).then_some(()).ok_or(format!("{}: the clients' key was not returned", what)),
          Some(false) => (obs == "none").then_some(()).ok_or(format!("{}: something was returned", what)),
          None => (obs != format!("some {}", hex(key0.as_bytes())) || what == "non-canonical padding").then_some(()).ok_or(format!("{}: the clients' key was returned", what)),
        }
      };
      out.case(format!("wasm.group {} {}", hex(ser.as_bytes()), hex(ep.as_bytes())), obs, v);
    }
  }
}

fn canon_outputs(outs: Vec<(Vec<u8>, Vec<Option<Vec<u8>>>)>) -> String {
  let mut v: Vec<String> = outs
    .into_iter()
    .map(|(m, aux)| {
      let mut a: Vec<String> = aux.iter().map(hex_opt).collect();
      a.sort();
      format!("{}:{}", hex(&m), a.join(","))
    })
    .collect();
  v.sort();
  format!("ok {}", v.join(" "))
}

pub fn gen_c18(seed: u64, thorough: bool, only: Option<u64>, out: &mut Out) {
  let runs: u64 = if thorough { 120 } else { 10 };
  for gi in 0..runs {
    if only.map_or(false, |o| o != gi) {
      continue;
    }
    let mut r = Prng::for_case(seed, "C18", gi);
    let t = *r.pick(&[1u32, 2, 3, 4]);
    let epoch: String = (0..r.below(4)).map(|_| (b'a' + r.below(26) as u8) as char).collect();
    // labels with surrounding white space are labels too (runs 2 and 3, and now and then in the thorough tier)
    let epoch = match (gi, thorough && r.below(8) == 0) { (2, _) => format!("{}\n", epoch), (3, _) => format!(" {} x", epoch), (_, true) => format!("\t{} ", epoch), _ => epoch };
    let ngroups = if thorough { 2 + r.below(60) as usize } else { 2 + r.below(9) as usize };
    // one large submission (over a thousand reports, groups interleaved by the shuffle): batching and merging of
    // partial results only show at this size
    let big = gi == 1 || (thorough && gi % 40 == 7);
    let ngroups = if big { 520 } else { ngroups };
    let mut wire: Vec<Vec<u8>> = vec![];
    let mut expected: Vec<(Vec<u8>, Vec<Option<Vec<u8>>>)> = vec![];
    let mut has_empty_aux = false;
    let mut qualifying: Vec<Vec<Vec<u8>>> = vec![];
    for g in 0..ngroups {
      let size = match r.below(4) {
        0 => (t as usize).saturating_sub(1),
        1 => t as usize,
        2 => t as usize + 1,
        _ => 1 + r.below(2 * t as u64) as usize,
      };
      if size == 0 {
        continue;
      }
      let m = { let mut mm = { let l_ = 1 + r.below(20) as usize; r.bytes(l_) }; mm.push(g as u8); mm.push((g >> 8) as u8); mm };
      let auxs: Vec<Option<Vec<u8>>> = (0..size)
        .map(|i| match (i + g) % 4 {
          0 => None,
          // (now and then associated data longer than a kilobyte: several cipher blocks, more than any fixed buffer)
          1 => Some({ let l_ = if !big && (g + i) % 7 == 1 { 1000 + r.below(600) as usize } else { 1 + r.below(30) as usize }; r.bytes(l_) }),
          2 if gi % 3 == 0 => { has_empty_aux = true; Some(vec![]) }
          _ => Some(r.bytes(3)),
        })
        .collect();
      let grp = match make_group(&mut r, m.clone(), epoch.as_bytes().to_vec(), t, true, auxs.clone()) {
        Some(g) => g,
        None => continue,
      };
      wire.extend(grp.wire.iter().cloned());
      if size >= t as usize {
        expected.push((m, auxs));
        qualifying.push(grp.wire.clone());
      }
    }
    // runs 4 and 5 keep the groups in generation order and end with a group of exactly t reports (a group that only
    // appears in the last t positions); run 6 has one group of 70 and one of 20 reports
    if gi == 4 || gi == 5 {
      let m = vec![0xee, gi as u8, 1];
      let auxs: Vec<Option<Vec<u8>>> = (0..t as usize).map(|i| Some(vec![i as u8, 9])).collect();
      if let Some(grp) = make_group(&mut r, m.clone(), epoch.as_bytes().to_vec(), t, true, auxs.clone()) {
        wire.extend(grp.wire.iter().cloned());
        expected.push((m, auxs));
      }
    } else {
      if gi == 6 {
        for (sz, tagb) in [(70usize, 0xa1u8), (20, 0xa2)] {
          let m = vec![0xdd, tagb];
          let auxs: Vec<Option<Vec<u8>>> = (0..sz).map(|i| if i % 3 == 0 { None } else { Some(vec![i as u8, tagb]) }).collect();
          if let Some(grp) = make_group(&mut r, m.clone(), epoch.as_bytes().to_vec(), t, true, auxs.clone()) {
            wire.extend(grp.wire.iter().cloned());
            if sz >= t as usize {
              expected.push((m, auxs));
            }
          }
        }
      }
      r.shuffle(&mut wire);
    }
    let msgs: Vec<Message> = wire.iter().map(|b| Message::from_bytes(b).unwrap()).collect();
    let agg = AggregationServer::new(t, &epoch);
    let want_exact = canon_outputs(expected.clone());
    let want_norm = canon_outputs(expected.iter().map(|(m, a)| (m.clone(), a.iter().map(|x| match x { Some(v) if v.is_empty() => None, o => o.clone() }).collect())).collect());
    let mut verdict = Ok(());
    let mut first_obs = String::new();
    let pools: &[usize] = if gi == 1 { &[1, 2, 3, 4, 5, 6, 7, 8, 16] } else { &[1, 2, 3, 4, 8, 16] };
    for (k, threads) in pools.iter().enumerate() {
      let mut order = msgs.clone();
      if k > 0 {
        r.shuffle(&mut order);
      }
      let pool = rayon::ThreadPoolBuilder::new().num_threads(*threads).build().unwrap();
      let obs = match guarded(|| pool.install(|| agg.retrieve_outputs(&order))) {
        Some(o) => canon_outputs(o.into_iter().map(|x| (x.x.as_vec(), x.aux.into_iter().map(|a| a.map(|d| d.as_vec())).collect())).collect()),
        None => "panic".into(),
      };
      if k == 0 {
        first_obs = obs.clone();
      }
      if obs != first_obs {
        verdict = Err(format!("output depends on input order or pool size ({} threads)", threads));
      }
      if obs != want_norm {
        verdict = Err(format!("aggregation output is not one entry per measurement with >= t reports carrying its clients' associated data ({} threads)", threads));
      } else if obs != want_exact && verdict.is_ok() {
        verdict = Err("empty-aux: associated data Some(b\"\") is reported as None".to_string());
      }
    }
    let _ = has_empty_aux;
    // the result is a function of the submission alone: the same server object, asked again with fewer than t reports
    // of a measurement it has already revealed (and with reports of measurements it has not), reveals nothing
    if t >= 2 {
      if let Some(q) = qualifying.first() {
        let few: Vec<Message> = q.iter().take(t as usize - 1).map(|b| Message::from_bytes(b).unwrap()).collect();
        for (what, srv) in [("the same server object", &agg), ("a fresh server", &AggregationServer::new(t, &epoch))] {
          match guarded(|| srv.retrieve_outputs(&few)) {
            Some(o) if o.is_empty() => {}
            Some(_) => verdict = Err(format!("{} asked again with t-1 reports of an already revealed measurement reveals it", what)),
            None => verdict = Err(format!("{} panicked on a sub-threshold submission", what)),
          }
        }
        // ... and the full submission once more gives the same answer as before
        let again = match guarded(|| agg.retrieve_outputs(&msgs)) {
          Some(o) => canon_outputs(o.into_iter().map(|x| (x.x.as_vec(), x.aux.into_iter().map(|a| a.map(|d| d.as_vec())).collect())).collect()),
          None => "panic".into(),
        };
        if again != first_obs && verdict.is_ok() {
          verdict = Err("the same submission to the same server object gives a different result the second time".to_string());
        }
      }
    }
    out.case(format!("agg.run {} {} {}", t, hex(epoch.as_bytes()), wire.iter().map(|b| hex(b)).collect::<Vec<_>>().join(" ")), first_obs, verdict);
  }
}
