//! C10 / C11: the GGM puncturable PRF through its public trait, key material through the hook.
use crate::util::*;
use bitvec::prelude::*;
use ppoprf::ggm::GGM;
use ppoprf::PPRF;
use serde::Deserialize;

#[derive(Deserialize)]
pub struct Prg {
  pub key: [u8; 32],
}
#[derive(Deserialize)]
pub struct Pfx {
  pub bits: BitVec<usize, Lsb0>,
}
#[derive(Deserialize)]
pub struct KeyState {
  pub prgs: Vec<Prg>,
  pub prefixes: Vec<(Pfx, Vec<u8>)>,
  pub punctured: Vec<Pfx>,
}

pub fn bits_str(b: &BitVec<usize, Lsb0>) -> String {
  b.iter().map(|x| if *x { '1' } else { '0' }).collect()
}
pub fn key_state(g: &GGM) -> KeyState {
  bincode::deserialize(&g.verif_key_state()).expect("key state parses")
}
pub fn state_str(ks: &KeyState) -> String {
  let p: Vec<String> = ks.prefixes.iter().map(|(p, s)| format!("{}:{}", bits_str(&p.bits), hex(s))).collect();
  let q: Vec<String> = ks.punctured.iter().map(|p| bits_str(&p.bits)).collect();
  format!("[{}] [{}]", p.join(","), q.join(","))
}
/// FNV-1a over a canonical byte form of the state (same function in the OCaml driver)
pub fn state_digest(ks: &KeyState) -> u64 {
  let mut h: u64 = 0xcbf29ce484222325;
  let mut eat = |b: u8| {
    h ^= b as u64;
    h = h.wrapping_mul(0x100000001b3);
  };
  for (p, s) in &ks.prefixes {
    for b in p.bits.iter() {
      eat(*b as u8);
    }
    eat(2);
    for b in s {
      eat(*b);
    }
    eat(3);
  }
  eat(4);
  for p in &ks.punctured {
    for b in p.bits.iter() {
      eat(*b as u8);
    }
    eat(2);
  }
  h
}

fn err_name(e: &ppoprf::PPRFError) -> &'static str {
  match e {
    ppoprf::PPRFError::NoPrefixFound => "NoPrefixFound",
    ppoprf::PPRFError::AlreadyPunctured => "AlreadyPunctured",
    ppoprf::PPRFError::BadInputLength { .. } => "BadInputLength",
    _ => "Other",
  }
}

pub enum Op {
  Eval(Vec<u8>),
  Punct(Vec<u8>),
}

/// runs a history on a fresh key; returns (case line, observation, verdict)
pub fn run_history(ops: &[Op], full_sweeps: bool) -> (String, String, Result<(), String>) {
  let mut g = GGM::setup();
  let ks0 = key_state(&g);
  let mut case = format!("ggm.run {} {} {} {}", hex(&ks0.prgs[0].key), hex(&ks0.prgs[1].key), hex(&ks0.prefixes[0].1), hex(&ks0.prefixes[1].1));
  // values of the whole domain on the fresh key
  let mut v0: Vec<Vec<u8>> = vec![];
  for x in 0..=255u8 {
    let mut out = [0u8; 32];
    g.eval(&[x], &mut out).expect("fresh key evaluates everywhere");
    v0.push(out.to_vec());
  }
  let mut verdict: Result<(), String> = Ok(());
  {
    let set: std::collections::BTreeSet<&Vec<u8>> = v0.iter().collect();
    if set.len() != 256 {
      verdict = Err("two inputs of the fresh key have the same value".into());
    }
  }
  let mut punctured = [false; 256];
  let mut obs: Vec<String> = vec![];
  for op in ops {
    match op {
      Op::Eval(i) => {
        case.push_str(&format!(" e{}", hex(i)));
        let mut out = [0u8; 32];
        let before = state_digest(&key_state(&g));
        match guarded(|| g.eval(i, &mut out)) {
          Some(Ok(())) => {
            obs.push(format!("v:{}", hex(&out)));
            if i.len() == 1 {
              if punctured[i[0] as usize] {
                verdict = Err(format!("punctured input {} evaluates again", i[0]));
              } else if out.to_vec() != v0[i[0] as usize] {
                verdict = Err(format!("value of unpunctured input {} changed", i[0]));
              }
            } else {
              verdict = Err("input of the wrong length was evaluated".into());
            }
          }
          Some(Err(e)) => {
            obs.push(format!("E:{}", err_name(&e)));
            if i.len() == 1 && !punctured[i[0] as usize] {
              verdict = Err(format!("unpunctured input {} no longer evaluates", i[0]));
            }
          }
          None => {
            obs.push("panic".into());
            verdict = Err("eval panicked".into());
          }
        }
        if state_digest(&key_state(&g)) != before {
          verdict = Err("evaluation changed the key".into());
        }
      }
      Op::Punct(i) => {
        case.push_str(&format!(" p{}", hex(i)));
        let before = state_digest(&key_state(&g));
        match guarded(|| g.puncture(i)) {
          Some(Ok(())) => {
            let ks = key_state(&g);
            obs.push(format!("ok#{:016x}", state_digest(&ks)));
            if i.len() != 1 {
              verdict = Err("input of the wrong length was punctured".into());
            } else {
              if punctured[i[0] as usize] {
                verdict = Err(format!("input {} was punctured twice", i[0]));
              }
              punctured[i[0] as usize] = true;
            }
            // C11: nothing on the path to a punctured input survives; every other input is covered once
            for x in 0..=255u8 {
              let xb: BitVec<usize, Lsb0> = BitVec::<u8, Lsb0>::from_slice(&[x]).iter().map(|b| *b).collect();
              let cover = ks.prefixes.iter().filter(|(p, _)| xb.starts_with(&p.bits)).count();
              if punctured[x as usize] && cover != 0 {
                verdict = Err(format!("forward security: a retained node still covers punctured input {}", x));
              }
              if !punctured[x as usize] && cover != 1 {
                verdict = Err(format!("unpunctured input {} is covered by {} retained nodes", x, cover));
              }
            }
          }
          Some(Err(e)) => {
            obs.push(format!("E:{}", err_name(&e)));
            if state_digest(&key_state(&g)) != before {
              verdict = Err("a refused puncture changed the key".into());
            }
            if i.len() == 1 && !punctured[i[0] as usize] {
              verdict = Err(format!("puncturing fresh input {} was refused", i[0]));
            }
          }
          None => {
            obs.push("panic".into());
            verdict = Err("puncture panicked".into());
          }
        }
        if full_sweeps {
          for x in 0..=255u8 {
            let mut out = [0u8; 32];
            let r = g.eval(&[x], &mut out);
            match (r, punctured[x as usize]) {
              (Ok(()), false) => {
                if out.to_vec() != v0[x as usize] {
                  verdict = Err(format!("value of unpunctured input {} changed after puncturing", x));
                }
              }
              (Err(_), true) => {}
              (Ok(()), true) => verdict = Err(format!("punctured input {} still evaluates", x)),
              (Err(_), false) => verdict = Err(format!("unpunctured input {} no longer evaluates", x)),
            }
          }
        }
      }
    }
  }
  let fin = state_str(&key_state(&g));
  (case, format!("{} | {}", obs.join(" "), fin), verdict)
}

pub fn gen(seed: u64, thorough: bool, only: Option<u64>, out: &mut Out) {
  let mut hists: Vec<Vec<Op>> = vec![];
  let mut r = Prng::for_case(seed, "C10", 0);
  // a short history that the in-kernel anchor can afford
  hists.push(vec![Op::Eval(vec![5]), Op::Punct(vec![5]), Op::Eval(vec![5]), Op::Eval(vec![133])]);
  // every single puncture followed by sibling/cousin evaluations
  let singles: Vec<u8> = if thorough { (0..=255).collect() } else { (0..=255).step_by(5).collect() };
  for x in singles {
    let mut h = vec![Op::Eval(vec![x]), Op::Punct(vec![x]), Op::Eval(vec![x]), Op::Punct(vec![x])];
    for k in 0..8 {
      h.push(Op::Eval(vec![x ^ (1 << k)]));
    }
    hists.push(h);
  }
  // ordered pairs: sibling-first at every level, cousins, and seeded pairs (all pairs in thorough)
  let mut pairs: Vec<(u8, u8)> = vec![];
  for k in 0..8 {
    for x in [0u8, 0x55, 0xff, r.next() as u8] {
      pairs.push((x, x ^ (1 << k)));
      pairs.push((x ^ (1 << k), x));
      pairs.push((x ^ (1 << k), x ^ (1 << ((k + 1) % 8))));
    }
  }
  if thorough {
    for a in 0..=255u8 {
      for b in [a ^ 0x80, a ^ 0x40, a ^ 0xc0, a.wrapping_add(1), r.next() as u8] {
        pairs.push((a, b));
      }
    }
  }
  for (a, b) in pairs {
    hists.push(vec![Op::Punct(vec![a]), Op::Punct(vec![b]), Op::Eval(vec![a]), Op::Eval(vec![b]), Op::Eval(vec![a ^ 0x80]), Op::Eval(vec![b ^ 0x80]), Op::Eval(vec![a ^ 0x40]), Op::Eval(vec![b ^ 1])]);
  }
  // exhaustive subsets of small sub-domains (aligned and unaligned), each in a seeded order
  let bases: Vec<(u8, Vec<u8>)> = vec![
    (0, (0..8).collect()),
    (0xf8, (0xf8..=0xff).collect()),
    (3, vec![3, 4, 5, 6, 7, 8, 9, 10]),
    (0, vec![0, 0x80, 0x40, 0xc0, 0x20, 0xa0, 0x60, 0xe0]),
  ];
  for (_, dom) in &bases {
    let nsub = if thorough { 256 } else { 24 };
    for k in 0..nsub {
      let mask = if thorough { k as u32 } else { r.below(256) as u32 };
      let mut sel: Vec<u8> = dom.iter().enumerate().filter(|(i, _)| mask >> i & 1 == 1).map(|(_, x)| *x).collect();
      r.shuffle(&mut sel);
      let mut h: Vec<Op> = sel.iter().map(|x| Op::Punct(vec![*x])).collect();
      for x in dom {
        h.push(Op::Eval(vec![*x]));
      }
      hists.push(h);
    }
  }
  // long seeded and adversarial sequences, up to complete puncturing; wrong-length inputs sprinkled in
  let nlong = if thorough { 40 } else { 4 };
  for k in 0..nlong {
    let mut order: Vec<u8> = (0..=255).collect();
    match k % 4 {
      0 => r.shuffle(&mut order),
      1 => order.sort_by_key(|x| x.reverse_bits()), // sibling-first at the deepest level
      2 => order.reverse(),
      _ => {
        r.shuffle(&mut order);
        order.sort_by_key(|x| x & 0x0f); // subtree-last in the high bits
      }
    }
    let upto = if k < 2 || thorough { 256 } else { 60 + r.below(150) as usize };
    let mut h = vec![];
    for (j, x) in order.iter().take(upto).enumerate() {
      h.push(Op::Punct(vec![*x]));
      if j % 7 == 0 {
        h.push(Op::Eval(vec![r.next() as u8]));
      }
      if j % 31 == 3 {
        h.push(Op::Punct(vec![*x]));
        h.push(Op::Eval(vec![]));
        h.push(Op::Punct(vec![*x, 0]));
        h.push(Op::Eval(vec![1, 2]));
        // lengths whose bit count wraps in a byte or a 16-bit word
        for l in [32usize, 33, 65, 97, 256, 257] {
          if (j / 31 + l) % 3 == 0 {
            // (made of a byte that is punctured last, so that a too-long input is not refused for lack of a cover)
            let y = order[255];
            h.push(Op::Eval(vec![y; l]));
            h.push(Op::Punct(vec![y; l]));
          }
        }
      }
    }
    hists.push(h);
  }
  for (i, h) in hists.iter().enumerate() {
    if only.map_or(false, |o| o != i as u64) {
      continue;
    }
    let sweeps = h.len() <= 24 || i % 16 == 0;
    let (c, o, v) = run_history(h, sweeps);
    out.case(c, o, v);
  }
}
