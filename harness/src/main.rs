mod g_adss;
mod g_codec;
mod g_star;
mod g_wasm;
mod g_fp;
mod g_ggm;
mod g_interf;
mod g_pp;
mod g_sharks;
mod layout;
mod util;

use std::io::Write;

static LAST_PANIC: std::sync::Mutex<String> = std::sync::Mutex::new(String::new());

fn main() {
  // panics of the code under test are caught per call; keep stderr quiet
  // ... but remember the last message: a panic in a call that no generator guards is reported as a failing case
  std::panic::set_hook(Box::new(|info| {
    if let Ok(mut g) = LAST_PANIC.lock() {
      *g = format!("{}", info).replace('\n', " ");
    }
  }));
  let args: Vec<String> = std::env::args().collect();
  if args.len() < 2 {
    eprintln!("usage: verif-harness gen <property> <quick|thorough> <seed> [only-index]");
    std::process::exit(2);
  }
  match args[1].as_str() {
    "gen" => {
      let prop = args[2].as_str();
      let thorough = args[3] == "thorough";
      let seed: u64 = args[4].parse().expect("seed");
      let only: Option<u64> = args.get(5).map(|s| s.parse().expect("index"));
      let mut out = util::Out::new();
      let known = ["C01", "C02", "C03", "C04", "C05", "C06", "C07", "C08", "C09", "C10", "C11", "C12", "C13", "C14", "C15", "C16", "C17", "C18"];
      if !known.contains(&prop) {
        eprintln!("unknown property {}", prop);
        std::process::exit(2);
      }
      let run = std::panic::catch_unwind(std::panic::AssertUnwindSafe(|| {
      match prop {
        "C16" => g_adss::gen(seed, thorough, only, &mut out),
        "C06" => g_sharks::gen(seed, thorough, only, &mut out),
        "C01" => g_star::gen_c01(seed, thorough, only, &mut out),
        "C02" => g_star::gen_c02(seed, thorough, only, &mut out),
        "C03" => g_star::gen_c03(seed, thorough, only, &mut out),
        "C04" => g_star::gen_c04(seed, thorough, only, &mut out),
        "C05" => g_star::gen_c05(seed, thorough, only, &mut out),
        "C10" => g_ggm::gen(seed, thorough, only, &mut out),
        "C11" => {
          g_ggm::gen(seed, thorough, only, &mut out);
          // the exported key state: export / import between server instances at every point of a history
          g_pp::gen_c14(seed ^ 0x11, thorough, only, &mut out);
          g_pp::gen_keystate(seed ^ 0x11, thorough, &mut out);
        }
        "C17" => g_wasm::gen_c17(seed, thorough, only, &mut out),
        "C18" => g_wasm::gen_c18(seed, thorough, only, &mut out),
        "C08" => g_codec::gen(seed, thorough, only, &mut out),
        "C09" => {
          g_codec::gen(seed ^ 0x9, thorough, only, &mut out);
          g_codec::gen_degenerate(seed, thorough, &mut out);
          g_pp::gen_c09(seed, thorough, &mut out);
          g_pp::gen_c15(seed ^ 0x15, false, only, &mut out);
          g_wasm::gen_c17(seed ^ 0x17, false, only, &mut out);
        }
        "C12" => g_pp::gen_c12(seed, thorough, only, &mut out),
        "C13" => g_pp::gen_c13(seed, thorough, only, &mut out),
        "C14" => {
          g_pp::gen_c14(seed, thorough, only, &mut out);
          g_pp::gen_keystate(seed, thorough, &mut out);
        }
        "C15" => {
          g_pp::gen_c15(seed, thorough, only, &mut out);
          g_pp::gen_json(seed, thorough, &mut out);
        }
        "C07" => {
          g_fp::gen(seed, thorough, only, &mut out);
          // the same operations down to the internal Montgomery limbs, against the model of the generated limb code
          g_fp::gen_limbs(seed, thorough, &mut out);
          // encodings not below the modulus are also refused where a secret is cut into elements
          g_sharks::gen_bad_chunks(&mut out);
        }
        _ => {}
      }
      // results must not depend on what ran before on the same thread / object (calls of this property judged)
      if only.is_none() {
        g_interf::gen(prop, seed, thorough, &mut out);
      }
      }));
      if run.is_err() {
        let msg = LAST_PANIC.lock().map(|g| g.clone()).unwrap_or_default();
        out.case(
          "harness.panic".to_string(),
          "panic".to_string(),
          Err(format!("a library call made while preparing the cases for {} panicked: {}", prop, msg.chars().take(300).collect::<String>())),
        );
      }
      let stdout = std::io::stdout();
      let mut w = std::io::BufWriter::new(stdout.lock());
      for l in out.lines {
        writeln!(w, "{}", l).unwrap();
      }
    }
    "oracle" => g_pp::oracle(),
    _ => {
      eprintln!("unknown command");
      std::process::exit(2);
    }
  }
}
