//! C06: dealing with a recorded random source, evaluation, recovery.
use crate::g_fp::*;
use crate::util::*;
use rand_core::RngCore;
use star_sharks::{Share, Sharks};
use std::convert::TryFrom;

/// a random source that replays a script of u64 words (then zeros) and counts what was consumed
pub struct ScriptRng {
  pub words: Vec<u64>,
  pub used: usize,
}
impl ScriptRng {
  pub fn new(words: Vec<u64>) -> Self {
    ScriptRng { words, used: 0 }
  }
}
impl RngCore for ScriptRng {
  fn next_u32(&mut self) -> u32 {
    self.next_u64() as u32
  }
  fn next_u64(&mut self) -> u64 {
    // running off the script is a harness error, not a behaviour of the code under test
    let w = self.words.get(self.used).copied().expect("script exhausted");
    self.used += 1;
    w
  }
  fn fill_bytes(&mut self, dest: &mut [u8]) {
    rand_core::impls::fill_bytes_via_next(self, dest)
  }
  fn try_fill_bytes(&mut self, dest: &mut [u8]) -> Result<(), rand_core::Error> {
    self.fill_bytes(dest);
    Ok(())
  }
}

fn script(r: &mut Prng, n: usize) -> Vec<u64> {
  let style = r.below(5);
  (0..n)
    .map(|i| match style {
      0 => r.next(),
      1 => i as u64 + 1,
      2 => {
        if r.below(4) == 0 {
          u64::MAX
        } else {
          r.next()
        }
      }
      3 => {
        if i < 6 {
          0
        } else {
          r.next()
        }
      }
      _ => {
        if i % 3 == 2 {
          r.below(4)
        } else {
          r.next()
        }
      }
    })
    .collect()
}

fn words_hex(w: &[u64]) -> String {
  if w.is_empty() {
    return "0x0".into();
  }
  w.iter().map(|x| format!("0x{:x}", x)).collect::<Vec<_>>().join(",")
}

pub fn recover_obs(t: u32, shares: &[Share]) -> String {
  match guarded(|| Sharks(t).recover(shares).map_err(|_| ())) {
    Some(Ok(b)) => format!("ok {}", hex(&b)),
    Some(Err(())) => "err".into(),
    None => "panic".into(),
  }
}

/// the three 64-bit words that make `Fp::random` return x (it reads them as the internal Montgomery form x * 2^192)
fn words_for(x: &star_sharks::Fp) -> Vec<u64> {
  use star_sharks::Fp;
  use ff::Field;
  let mont = *x * Fp::from(2u64).pow_vartime([192u64]);
  let b = crate::g_fp::bytes_of(&mont);
  (0..3).map(|i| u64::from_le_bytes(b[8 * i..8 * i + 8].try_into().unwrap())).collect()
}

/// Share points that agree in their low 128 bits (k and 2^128 + k, both below the modulus 2^128 + 12451) are different
/// points: shares at them must combine.  The random point is forced through a scripted random source.
fn gen_limb_apart(out: &mut Out) {
  for (gi, &(t, k)) in [(2u32, 1u128), (2, 12450), (4, 2), (3, 7)].iter().enumerate() {
    let secret = le24(0, 0x1234_5678_9abc_def0 + gi as u128);
    let target = crate::g_fp::fp_of(&le24(1, k)).expect("2^128 + k is below the modulus");
    let mut ws: Vec<u64> = vec![];
    for i in 0..(t as usize - 1) {
      ws.extend([5 + i as u64, 0, 0]);
    }
    ws.extend(words_for(&target));
    for _ in 0..40 {
      ws.extend([1u64, 0, 0]);
    }
    let n_iter = (k as usize).min(16).max(t as usize) + 1;
    let mut rng = ScriptRng::new(ws.clone());
    let dealt = guarded(|| match Sharks(t).dealer_rng(&secret, &mut rng) {
      Ok(mut ev) => {
        let its: Vec<Share> = (&mut ev).take(n_iter).collect();
        let g = ev.gen(&mut rng);
        Some((its, g))
      }
      Err(_) => None,
    });
    let case = format!("sharks.deal {} {} {} {}", t, hex(&secret), n_iter, words_hex(&ws));
    let (its, gshare) = match dealt {
      Some(Some(x)) => x,
      _ => {
        out.case(case, "err".into(), Err("dealer refused an in-range secret".into()));
        continue;
      }
    };
    let enc: Vec<Vec<u8>> = its.iter().map(|s| Vec::from(s)).collect();
    let genc = Vec::from(&gshare);
    let v = if genc[..24] == le24(1, k)[..] { Ok(()) } else { Err("the scripted random source did not give the intended share point".to_string()) };
    out.case(case, format!("ok {} gen={}", enc.iter().map(|b| hex(b)).collect::<Vec<_>>().join(","), hex(&genc)), v);
    // the iterator share at x = k (when k is small enough to be among them) or x = 1.., with the share at 2^128 + k
    let near = if (k as usize) <= enc.len() { k as usize - 1 } else { 0 };
    let mut pick: Vec<Vec<u8>> = vec![enc[near].clone(), genc.clone()];
    for b in enc.iter() {
      if pick.len() < t as usize && !pick.contains(b) {
        pick.push(b.clone());
      }
    }
    for rev in [false, true] {
      let mut sel = pick.clone();
      if rev {
        sel.reverse();
      }
      let shares: Vec<Share> = sel.iter().map(|b| Share::try_from(b.as_slice()).unwrap()).collect();
      let obs = recover_obs(t, &shares);
      let want = format!("ok {}", hex(&secret));
      out.case(
        format!("sharks.recover {} {}", t, sel.iter().map(|b| hex(b)).collect::<Vec<_>>().join(" ")),
        obs.clone(),
        if obs == want { Ok(()) } else { Err(format!("{} shares with distinct points (two of them 2^128 apart) of threshold {} gave {}", t, t, &obs[..obs.len().min(30)])) },
      );
    }
  }
}

/// The random share point under chosen draws of the random source: 0 (must be redrawn), then 1, -1, -2, 2^128: the
/// share is never issued at x = 0 (where its value is the secret itself)
pub fn gen_forced_points(out: &mut Out) {
  use ff::Field;
  let secret = le24(0, 0x5ec2e7);
  let t = 2u32;
  let one = star_sharks::Fp::ONE;
  let draws: Vec<(&str, Vec<star_sharks::Fp>)> = vec![
    ("0, then 1", vec![star_sharks::Fp::ZERO, one]),
    ("0, 0, then -1", vec![star_sharks::Fp::ZERO, star_sharks::Fp::ZERO, -one]),
    ("-1", vec![-one]),
    ("-2", vec![-one - one]),
    ("1", vec![one]),
    ("2^128", vec![crate::g_fp::fp_of(&le24(1, 0)).unwrap()]),
  ];
  for (what, ds) in draws {
    let mut ws: Vec<u64> = vec![7, 0, 0];
    for d in &ds {
      ws.extend(words_for(d));
    }
    for _ in 0..12 {
      ws.extend([1u64, 0, 0]);
    }
    let mut rng = ScriptRng::new(ws.clone());
    let dealt = guarded(|| match Sharks(t).dealer_rng(&secret, &mut rng) {
      Ok(mut ev) => {
        let its: Vec<Share> = (&mut ev).take(2).collect();
        let g = ev.gen(&mut rng);
        Some((its, g))
      }
      Err(_) => None,
    });
    let case = format!("sharks.deal {} {} {} {}", t, hex(&secret), 2, words_hex(&ws));
    match dealt {
      Some(Some((its, g))) => {
        let genc = Vec::from(&g);
        let v = if genc[..24] == [0u8; 24] || genc[24..48] == secret[..] {
          Err(format!("random source draws {}: the share is issued at x = 0 / carries the secret as its value", what))
        } else {
          Ok(())
        };
        out.case(case, format!("ok {} gen={}", its.iter().map(|s| hex(&Vec::from(s))).collect::<Vec<_>>().join(","), hex(&genc)), v);
      }
      _ => out.case(case, "err".into(), Err("dealer refused an in-range secret".into())),
    }
  }
}

/// The dealt shares through the iterator adaptors (`nth`, `skip`, `step_by`) instead of plain stepping: the share that
/// comes out is the one at the position counted from the start, never x = 0, never a point twice.
fn gen_adaptors(out: &mut Out) {
  let secret = le24(0, 0xfeed_beef);
  let t = 3u32;
  let mut ws: Vec<u64> = vec![];
  for i in 0..2u64 {
    ws.extend([9 + i, 0, 0]);
  }
  for _ in 0..8 {
    ws.extend([1u64, 0, 0]);
  }
  let case = format!("sharks.deal {} {} {} {}", t, hex(&secret), 12, words_hex(&ws));
  // reference: twelve shares by plain stepping (this is what the case line asks the model for)
  let plain = guarded(|| {
    let mut rng = ScriptRng::new(ws.clone());
    let mut ev = Sharks(t).dealer_rng(&secret, &mut rng).ok()?;
    let its: Vec<Share> = (&mut ev).take(12).collect();
    let g = ev.gen(&mut rng);
    Some((its, g))
  });
  let (its, gshare) = match plain {
    Some(Some(x)) => x,
    _ => {
      out.case(case, "err".into(), Err("dealer refused an in-range secret".into()));
      return;
    }
  };
  let enc: Vec<Vec<u8>> = its.iter().map(|s| Vec::from(s)).collect();
  let mut v = Ok(());
  let via = |f: &dyn Fn(&mut dyn Iterator<Item = Share>) -> Vec<Share>| -> Option<Vec<Vec<u8>>> {
    guarded(|| {
      let mut rng = ScriptRng::new(ws.clone());
      let mut ev = Sharks(t).dealer_rng(&secret, &mut rng).ok()?;
      Some(f(&mut ev).iter().map(|s| Vec::from(s)).collect::<Vec<_>>())
    })
    .flatten()
  };
  let checks: Vec<(&str, Option<Vec<Vec<u8>>>, Vec<usize>)> = vec![
    ("nth(0)", via(&|ev| ev.nth(0).into_iter().collect()), vec![0]),
    ("nth(4)", via(&|ev| ev.nth(4).into_iter().collect()), vec![4]),
    ("next, next, nth(0), nth(2)", via(&|ev| { let mut o = vec![]; o.extend(ev.next()); o.extend(ev.next()); o.extend(ev.nth(0)); o.extend(ev.nth(2)); o }), vec![0, 1, 2, 5]),
    ("skip(5).take(3)", via(&|ev| ev.skip(5).take(3).collect()), vec![5, 6, 7]),
    ("step_by(3).take(4)", via(&|ev| ev.step_by(3).take(4).collect()), vec![0, 3, 6, 9]),
  ];
  for (what, got, want) in checks {
    let wanted: Vec<Vec<u8>> = want.iter().map(|&i| enc[i].clone()).collect();
    if got.as_ref() != Some(&wanted) {
      let xs: Vec<String> = got.unwrap_or_default().iter().map(|b| hex(&b[..3])).collect();
      v = Err(format!("dealt shares taken with {} are not the shares at positions {:?} (points start {:?})", what, want, xs));
    }
  }
  out.case(case, format!("ok {} gen={}", enc.iter().map(|b| hex(b)).collect::<Vec<_>>().join(","), hex(&Vec::from(&gshare))), v);
}

/// secrets with an element that is not below the modulus, at every position among in-range elements: always refused
pub fn gen_bad_chunks(out: &mut Out) {
  let good = [le24(0, 7), le24(0, u128::MAX), le24(1, 12450)];
  let bads = [le24(1, 12451), le24(1, 12452), le24(2, 0), { let mut b = le24(0, 5); b[23] = 1; b }, vec![0xff; 24]];
  for k in 1..=3usize {
    for pos in 0..k {
      for (bi, bad) in bads.iter().enumerate() {
        if (pos + bi + k) % 2 == 1 && k == 3 {
          continue;
        }
        let mut secret = vec![];
        for i in 0..k {
          secret.extend(if i == pos { bad.clone() } else { good[i % 3].clone() });
        }
        let ws: Vec<u64> = (0..60).flat_map(|i| [3 + i as u64, 0, 0]).collect();
        let mut rng = ScriptRng::new(ws.clone());
        let obs = match guarded(|| Sharks(2).dealer_rng(&secret, &mut rng).map(|mut ev| (&mut ev).take(2).map(|s| Vec::from(&s)).collect::<Vec<_>>())) {
          Some(Ok(sh)) => format!("ok {} gen=-", sh.iter().map(|b| hex(b)).collect::<Vec<_>>().join(",")),
          Some(Err(_)) => "err".to_string(),
          None => "panic".to_string(),
        };
        let v = if obs == "err" { Ok(()) } else { Err(format!("a secret of {} elements whose element {} is not below the modulus was dealt", k, pos)) };
        out.case(format!("sharks.deal 2 {} 2 {}", hex(&secret), words_hex(&ws)), obs, v);
      }
    }
  }
}

pub fn gen(seed: u64, thorough: bool, only: Option<u64>, out: &mut Out) {
  if only.is_none() {
    gen_limb_apart(out);
    gen_adaptors(out);
    gen_bad_chunks(out);
    gen_forced_points(out);
  }
  let groups: u64 = if thorough { 500 } else { 60 };
  let lat = lattice();
  for g in 0..groups {
    if let Some(o) = only {
      if o != g {
        continue;
      }
    }
    let mut r = Prng::for_case(seed, "C06", g);
    let t: u32 = if thorough {
      *r.pick(&[1, 2, 3, 4, 5, 7, 8, 16, 33, 40, 64, 100, 255, 300])
    } else {
      *r.pick(&[1, 2, 3, 4, 5, 7, 8, 12, 16, 40])
    };
    // fixed groups: threshold 0, and thresholds at and just above 2^8 (a narrowed threshold shows there)
    let t = match g { 0 => 0, 1 => 256, 2 => 257, _ => t };
    let k = if thorough { r.below(17) as usize } else { r.below(5) as usize };
    let k = if t > 100 { k.min(2) } else { k };
    let mut secret = vec![];
    let mut bad = false;
    for _ in 0..k {
      let e = match r.below(10) {
        0 => {
          bad = true;
          le24(1, 12451 + r.below(3) as u128)
        }
        1..=5 => r.pick(&lat).clone(),
        _ => le24(0, ((r.next() as u128) << 64) | r.next() as u128),
      };
      secret.extend(e);
    }
    let partial = r.below(4) == 0;
    if partial {
      let n = 1 + r.below(23) as usize;
      secret.extend(r.bytes(n));
    }
    let nwords = 8 * (t as usize).max(1) * k.max(1) + 64;
    let mut ws = script(&mut r, nwords);
    ws.truncate(ws.len() - ws.len() % 3);
    // tail that every draw accepts as the element 2^-192 (non-zero), so no sampler can starve
    for _ in 0..40 {
      ws.extend([1u64, 0, 0]);
    }
    let n_iter = (t as usize).max(1) + r.below(3) as usize;
    let n_iter = n_iter.min(if thorough { 310 } else if t >= 256 { 260 } else { 48 });
    let mut rng = ScriptRng::new(ws.clone());
    let sharks = Sharks(t);
    let dealt = guarded(|| match sharks.dealer_rng(&secret, &mut rng) {
      Ok(mut ev) => {
        let its: Vec<Share> = (&mut ev).take(n_iter).collect();
        let g = ev.gen(&mut rng);
        Some((its, g))
      }
      Err(_) => None,
    });
    let case = format!("sharks.deal {} {} {} {}", t, hex(&secret), n_iter, words_hex(&ws));
    let (its, gshare) = match dealt {
      None => {
        out.case(case, "panic".into(), Err("dealer panicked".into()));
        continue;
      }
      Some(None) => {
        out.case(case, "err".into(), if bad { Ok(()) } else { Err("dealer refused an in-range secret".into()) });
        continue;
      }
      Some(Some(x)) => x,
    };
    let enc: Vec<Vec<u8>> = its.iter().map(|s| Vec::from(s)).collect();
    let genc = Vec::from(&gshare);
    let mut verdict = Ok(());
    if bad {
      verdict = Err("secret with an out-of-range element was accepted".to_string());
    }
    for (i, e) in enc.iter().enumerate() {
      if e[..24] != le24(0, i as u128 + 1)[..] {
        verdict = Err(format!("iterator share {} is not at x = {}", i, i + 1));
      }
      if e.len() != 24 * (k + 1) {
        verdict = Err("share has the wrong number of y values".into());
      }
    }
    if genc[..24] == [0u8; 24] {
      verdict = Err("gen returned the share at x = 0".into());
    }
    out.case(
      case,
      format!("ok {} gen={}", enc.iter().map(|b| hex(b)).collect::<Vec<_>>().join(","), hex(&genc)),
      verdict,
    );
    if t == 0 {
      out.case(
        format!("sharks.recover 0 {}", hex(&enc[0])),
        recover_obs(0, &its[..1]),
        if recover_obs(0, &its[..1]) == "err" { Ok(()) } else { Err("threshold 0 recovered".into()) },
      );
      continue;
    }
    // recovery from selections: exactly t in shuffled order, with duplicates, with surplus, one short
    let canonical_secret = secret[..24 * k].to_vec();
    let mut all: Vec<Vec<u8>> = enc.clone();
    all.push(genc.clone());
    let mut idx: Vec<usize> = (0..all.len()).collect();
    // (quick tier, thresholds above 2^8: the model's per-term inversions make a full recovery take ~45 s, so only
    //  the dealing and the one-short refusal are compared there; the thorough tier runs all variants)
    for variant in 0..4 {
      if !thorough && t >= 256 && variant != 3 {
        continue;
      }
      r.shuffle(&mut idx);
      let mut sel: Vec<usize> = match variant {
        0 => idx[..t as usize].to_vec(),
        1 => {
          let mut s = idx[..t as usize].to_vec();
          for _ in 0..1 + r.below(3) {
            let d = *r.pick(&s);
            s.insert(r.below(s.len() as u64 + 1) as usize, d);
          }
          s
        }
        2 => idx.clone(),
        _ => idx[..t as usize - 1].to_vec(),
      };
      if variant == 3 && !sel.is_empty() {
        // pad the short selection with repeats so that the count alone reaches t
        let d = sel[0];
        sel.push(d);
        sel.push(d);
      }
      let distinct: std::collections::BTreeSet<usize> = sel.iter().copied().collect();
      let shares: Vec<Share> = sel.iter().map(|&i| Share::try_from(all[i].as_slice()).unwrap()).collect();
      let obs = recover_obs(t, &shares);
      let want = if distinct.len() >= t as usize { format!("ok {}", hex(&canonical_secret)) } else { "err".to_string() };
      out.case(
        format!("sharks.recover {} {}", t, sel.iter().map(|&i| hex(&all[i])).collect::<Vec<_>>().join(" ")),
        obs.clone(),
        if obs == want { Ok(()) } else { Err(format!("recover from {} distinct of threshold {} gave {}", distinct.len(), t, &obs[..obs.len().min(30)])) },
      );
    }
    // ... also when the odd share repeats the point of an earlier share
    if k >= 1 && all.len() >= t as usize && t >= 2 && (thorough || t < 100) {
      let mut mix: Vec<Vec<u8>> = all.iter().take(t as usize).cloned().collect();
      let mut short = all[0].clone();
      short.truncate(24 * k);
      mix.insert(2.min(mix.len()), short);
      let shares: Vec<Share> = mix.iter().map(|b| Share::try_from(b.as_slice()).unwrap()).collect();
      let obs = recover_obs(t, &shares);
      out.case(
        format!("sharks.recover {} {}", t, mix.iter().map(|b| hex(b)).collect::<Vec<_>>().join(" ")),
        obs.clone(),
        if obs == "err" { Ok(()) } else { Err("a shorter share that repeats an earlier share's point was not refused".into()) },
      );
    }
    // shares of unequal length are refused
    if k >= 1 && all.len() >= 2 {
      let mut a = all[0].clone();
      a.truncate(24 * k);
      let mut mix = vec![a];
      for b in all.iter().skip(1).take(t as usize) {
        mix.push(b.clone());
      }
      let shares: Vec<Share> = mix.iter().map(|b| Share::try_from(b.as_slice()).unwrap()).collect();
      let obs = recover_obs(t, &shares);
      out.case(
        format!("sharks.recover {} {}", t, mix.iter().map(|b| hex(b)).collect::<Vec<_>>().join(" ")),
        obs.clone(),
        if obs == "err" { Ok(()) } else { Err("shares of unequal length were combined".into()) },
      );
    }
  }
}
