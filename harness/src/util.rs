//! Shared helpers: hex, the single PRNG every random choice derives from, panic capture.
use std::panic::{catch_unwind, AssertUnwindSafe};

pub fn hex(b: &[u8]) -> String {
  if b.is_empty() {
    return "-".to_string();
  }
  let mut s = String::with_capacity(b.len() * 2);
  for x in b {
    s.push_str(&format!("{:02x}", x));
  }
  s
}

pub fn unhex(s: &str) -> Vec<u8> {
  if s == "-" {
    return vec![];
  }
  (0..s.len() / 2)
    .map(|i| u8::from_str_radix(&s[2 * i..2 * i + 2], 16).expect("hex"))
    .collect()
}

pub fn hex_opt(b: &Option<Vec<u8>>) -> String {
  match b {
    None => "~".to_string(),
    Some(v) => hex(v),
  }
}

/// splitmix64; every case derives its own stream from (seed, property tag, case index)
#[derive(Clone)]
pub struct Prng(pub u64);
impl Prng {
  pub fn for_case(seed: u64, tag: &str, index: u64) -> Prng {
    let mut h = seed ^ 0x9e3779b97f4a7c15;
    for b in tag.bytes() {
      h = (h ^ b as u64).wrapping_mul(0x100000001b3);
    }
    let mut p = Prng(h ^ index.wrapping_mul(0xd1342543de82ef95));
    p.next();
    p
  }
  pub fn next(&mut self) -> u64 {
    self.0 = self.0.wrapping_add(0x9e3779b97f4a7c15);
    let mut z = self.0;
    z = (z ^ (z >> 30)).wrapping_mul(0xbf58476d1ce4e5b9);
    z = (z ^ (z >> 27)).wrapping_mul(0x94d049bb133111eb);
    z ^ (z >> 31)
  }
  pub fn below(&mut self, n: u64) -> u64 {
    if n == 0 {
      0
    } else {
      self.next() % n
    }
  }
  pub fn pick<'a, T>(&mut self, v: &'a [T]) -> &'a T {
    &v[self.below(v.len() as u64) as usize]
  }
  pub fn bytes(&mut self, n: usize) -> Vec<u8> {
    let mut v = Vec::with_capacity(n);
    while v.len() < n {
      let w = self.next().to_le_bytes();
      for b in w {
        if v.len() < n {
          v.push(b);
        }
      }
    }
    v
  }
  /// byte strings with structure: random, all-zero, all-0xff, ascii, repeated
  pub fn blob(&mut self, n: usize) -> Vec<u8> {
    match self.below(8) {
      0 => vec![0u8; n],
      1 => vec![0xffu8; n],
      2 => (0..n).map(|i| b'a' + (i % 26) as u8).collect(),
      _ => self.bytes(n),
    }
  }
  pub fn shuffle<T>(&mut self, v: &mut [T]) {
    for i in (1..v.len()).rev() {
      let j = self.below(i as u64 + 1) as usize;
      v.swap(i, j);
    }
  }
}

/// run f, mapping a panic to None
pub fn guarded<T>(f: impl FnOnce() -> T) -> Option<T> {
  catch_unwind(AssertUnwindSafe(f)).ok()
}

pub struct Out {
  pub lines: Vec<String>,
}
impl Out {
  pub fn new() -> Out {
    Out { lines: vec![] }
  }
  /// one case: the case line, what the implementation produced, and the property-level verdict
  pub fn case(&mut self, case: String, imp: String, verdict: Result<(), String>) {
    self.lines.push(format!("C {}", case));
    self.lines.push(format!("I {}", imp));
    match verdict {
      Ok(()) => self.lines.push("P ok".to_string()),
      Err(e) => self.lines.push(format!("P FAIL {}", e)),
    }
  }
}
