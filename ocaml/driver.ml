(* Driver for the extracted model: one case per input line, one result per output line.
   Byte strings are hex ("-" = empty, "~" = None); numbers are decimal or 0x-hex. *)
open Model

let rec pos_of_int (i : int) : positive =
  if i = 1 then XH else if i land 1 = 0 then XO (pos_of_int (i lsr 1)) else XI (pos_of_int (i lsr 1))
let n_of_int (i : int) : n = if i = 0 then N0 else Npos (pos_of_int i)
let rec int_of_pos = function XH -> 1 | XO p -> 2 * int_of_pos p | XI p -> 2 * int_of_pos p + 1
let int_of_n = function N0 -> 0 | Npos p -> int_of_pos p
let rec nat_of_int (i : int) : nat = if i <= 0 then O else S (nat_of_int (i - 1))
let rec int_of_nat = function O -> 0 | S k -> 1 + int_of_nat k

let hexval c =
  match c with
  | '0' .. '9' -> Char.code c - 48
  | 'a' .. 'f' -> Char.code c - 87
  | 'A' .. 'F' -> Char.code c - 55
  | _ -> failwith "bad hex digit"

let bytes_of_hex (s : string) : n list =
  if s = "-" then []
  else begin
    if String.length s mod 2 <> 0 then failwith "odd hex";
    List.init (String.length s / 2) (fun i -> n_of_int ((hexval s.[2 * i] * 16) + hexval s.[(2 * i) + 1]))
  end

let hex_of_bytes (l : n list) : string =
  if l = [] then "-"
  else begin
    let b = Buffer.create (2 * List.length l) in
    List.iter (fun x -> Buffer.add_string b (Printf.sprintf "%02x" (int_of_n x))) l;
    Buffer.contents b
  end

let opt_bytes_of_hex s = if s = "~" then None else Some (bytes_of_hex s)
let hex_of_opt = function None -> "~" | Some b -> hex_of_bytes b

(* big numbers: 0x.. hex of any length, or decimal that fits an OCaml int *)
let two32 = n_of_int 4294967296
let n_of_string (s : string) : n =
  if String.length s > 2 && s.[0] = '0' && s.[1] = 'x' then begin
    let acc = ref N0 in
    String.iteri (fun i c -> if i >= 2 then acc := N.add (N.mul !acc (n_of_int 16)) (n_of_int (hexval c))) s;
    !acc
  end else n_of_int (int_of_string s)

let fp_of_hex (s : string) : fp =
  match from_repr (bytes_of_hex s) with
  | Some x -> x
  | None -> failwith "non-canonical field element in case line"
let hex_of_fp (x : fp) : string = hex_of_bytes (to_repr x)

let kf = keccak_bytes

(* u64 limbs: 0x-hex in, 0x-hex out *)
let zs (s : string) : z = Z.of_N (n_of_string s)
let hex_of_z (v : z) : string =
  let be = List.rev (bytes_of_le (nat_of_int 8) (Z.to_N v)) in
  "0x" ^ String.concat "" (List.map (fun x -> Printf.sprintf "%02x" (int_of_n x)) be)
let limbs_str (((a0, a1), a2) : (z * z) * z) : string = hex_of_z a0 ^ "," ^ hex_of_z a1 ^ "," ^ hex_of_z a2

let out_bytes = function Ok b -> "ok " ^ hex_of_bytes b | Err -> "err" | Panic -> "panic"

let split_on c s = if s = "" then [] else String.split_on_char c s

(* T descriptor: "~" or label:ad1,ad2 *)
let transcript_of_string s =
  if s = "~" then None
  else
    match String.split_on_char ':' s with
    | [ l; ads ] -> Some (bytes_of_hex l, List.map bytes_of_hex (split_on ',' ads))
    | [ l ] -> Some (bytes_of_hex l, [])
    | _ -> failwith "bad transcript descriptor"

let pay_to_string = function
  | Ok (m, a) -> "(" ^ hex_of_bytes m ^ "," ^ hex_of_opt a ^ ")"
  | Err -> "(err)"
  | Panic -> "(panic)"

let star_result_to_string (r : star_result) =
  let wire = String.concat "," (List.map hex_of_bytes r.srWire) in
  Printf.sprintf "wire=%s rec=%s key=%s pay=%s" wire
    (match r.srRec with Ok m -> "ok:" ^ hex_of_bytes m | Err -> "err" | Panic -> "panic")
    (hex_of_bytes r.srKey)
    (String.concat "" (List.map pay_to_string r.srPay))

let rec take_clients k l =
  if k = 0 then ([], l)
  else
    match l with
    | a :: x :: rest ->
        let cs, rest' = take_clients (k - 1) rest in
        ((opt_bytes_of_hex a, fp_of_hex x) :: cs, rest')
    | _ -> failwith "client list too short"

(* ---- GGM ---- *)
let bits_to_string (b : bool list) = String.concat "" (List.map (fun x -> if x then "1" else "0") b)
let gerr_name = function NoPrefixFound -> "NoPrefixFound" | AlreadyPunctured -> "AlreadyPunctured" | BadInputLength -> "BadInputLength"
let fnv_state (g : bytes gstate) : string =
  let h = ref 0xcbf29ce484222325L in
  let eat (b : int) = h := Int64.mul (Int64.logxor !h (Int64.of_int b)) 0x100000001b3L in
  List.iter (fun (p, s) ->
      List.iter (fun b -> eat (if b then 1 else 0)) p; eat 2;
      List.iter (fun b -> eat (int_of_n b)) s; eat 3) g.gPrefixes;
  eat 4;
  List.iter (fun p -> List.iter (fun b -> eat (if b then 1 else 0)) p; eat 2) g.gPunctured;
  Printf.sprintf "%016Lx" !h
let state_string (g : bytes gstate) : string =
  Printf.sprintf "[%s] [%s]"
    (String.concat "," (List.map (fun (p, s) -> bits_to_string p ^ ":" ^ hex_of_bytes s) g.gPrefixes))
    (String.concat "," (List.map bits_to_string g.gPunctured))
let gop_of_string (t : string) : gop =
  let arg = String.sub t 1 (String.length t - 1) in
  match t.[0] with
  | 'e' -> GEval (bytes_of_hex arg)
  | 'p' -> GPunct (bytes_of_hex arg)
  | _ -> failwith "bad ggm op"
(* run step by step so that the state digest after each successful puncture can be printed *)
let ggm_run_string k0 k1 s0 s1 (ops : gop list) : string =
  let g = ref (ginit s0 s1) in
  let outs = List.map (fun o ->
      let g', (v, e) = ggm_step k0 k1 !g o in
      g := g';
      match o, v, e with
      | GEval _, Some x, _ -> "v:" ^ hex_of_bytes x
      | _, _, Some er -> "E:" ^ gerr_name er
      | GPunct _, _, None -> "ok#" ^ fnv_state g'
      | GEval _, None, None -> "E:?") ops in
  String.concat " " outs ^ " | " ^ state_string !g

(* ---- group oracle: a child process wrapping curve25519-dalek (verif-harness oracle) ---- *)
let oracle : (in_channel * out_channel) option ref = ref None
let oracle_chan () =
  match !oracle with
  | Some c -> c
  | None ->
      let exe = try Sys.getenv "VERIF_HARNESS" with Not_found ->
        Filename.concat (Filename.dirname Sys.executable_name) "../harness/target/debug/verif-harness" in
      let c = Unix.open_process (Filename.quote exe ^ " oracle") in
      oracle := Some c; c
let ask (q : string) : string =
  let ic, oc = oracle_chan () in
  output_string oc q; output_char oc '\n'; flush oc;
  input_line ic
let z_hex (z : z) : string = hex_of_bytes (sc_to_bytes z)
let grp : grp = {
  g_valid = (fun p -> ask ("valid " ^ hex_of_bytes p) = "1");
  g_mul = (fun k p -> bytes_of_hex (ask ("mul " ^ z_hex k ^ " " ^ hex_of_bytes p)));
  g_add = (fun p q -> bytes_of_hex (ask ("add " ^ hex_of_bytes p ^ " " ^ hex_of_bytes q)));
  g_base = bytes_of_hex "e2f2ae0a6abc4e71a884a961c500515f58e30b6aa582dd8db6a65945e08d2d76";
  g_id = bytes_of_hex "0000000000000000000000000000000000000000000000000000000000000000";
  g_hash = (fun u -> bytes_of_hex (ask ("hash " ^ hex_of_bytes u)));
}
let z_of_hex (h : string) : z = Z.of_N (le_of_bytes (bytes_of_hex h))
let perr_name = function
  | BadTag -> "BadTag" | PNoPrefixFound -> "NoPrefixFound" | PAlreadyPunctured -> "AlreadyPunctured"
  | PBadInputLength -> "BadInputLength" | TooBig -> "TooBig" | Bincode -> "Bincode" | BadPointEncoding -> "BadPointEncoding"
let proof_hex = function None -> "-" | Some p -> hex_of_bytes (proof_to_bincode p)
let sop_of_string (t : string) : sop =
  match String.split_on_char ':' t with
  | [ "e"; i; md; p; v; r ] -> SEval (nat_of_int (int_of_string i), n_of_int (int_of_string md), bytes_of_hex p, v = "v", (if r = "-" then Z0 else z_of_hex r))
  | [ "p"; i; md ] -> SPunct (nat_of_int (int_of_string i), n_of_int (int_of_string md))
  | [ "c"; i ] -> SClone (nat_of_int (int_of_string i))
  | [ "y"; a; b ] -> SSync (nat_of_int (int_of_string a), nat_of_int (int_of_string b))
  | _ -> failwith "bad server op"
let fnv_bytes (b : n list) : string =
  let h = ref 0xcbf29ce484222325L in
  List.iter (fun x -> h := Int64.mul (Int64.logxor !h (Int64.of_int (int_of_n x))) 0x100000001b3L) b;
  Printf.sprintf "%016Lx" !h
let sres_string = function
  | REval (Inr (o, pr)) -> "ok:" ^ hex_of_bytes o ^ ":" ^ proof_hex pr
  | REval (Inl e) -> "E:" ^ perr_name e
  | RPunct None -> "ok"
  | RPunct (Some e) -> "E:" ^ perr_name e
  | RDone -> "done"
  | RBad -> "bad-instance"
let server_string (s : server) : string =
  Printf.sprintf "{pk=%s ggm=%s}" (hex_of_bytes (pk_to_bincode s.sv_pk)) (state_string s.sv_ggm)

let dispatch (w : string list) : string =
  match w with
  (* ---------------- field ---------------- *)
  | [ "fp.bin"; op; a; b ] ->
      let a = fp_of_hex a and b = fp_of_hex b in
      hex_of_fp (match op with "add" -> fadd a b | "sub" -> fsub a b | "mul" -> fmul a b | _ -> failwith "op")
  | [ "fp.un"; op; a ] -> (
      let a = fp_of_hex a in
      match op with
      | "neg" -> hex_of_fp (fopp a)
      | "dbl" -> hex_of_fp (fdouble a)
      | "sq" -> hex_of_fp (fsquare a)
      | "inv" -> if feqb a fzero then "none" else hex_of_fp (finv a)
      | "sqrt" -> ( match fsqrt a with Some r -> hex_of_fp r | None -> "none")
      | _ -> failwith "op")
  | [ "fp.pow"; a; e ] -> hex_of_fp (fpow (fp_of_hex a) (Z.of_N (n_of_string e)))
  | [ "fp.dec"; b ] -> ( match from_repr (bytes_of_hex b) with Some x -> "ok " ^ hex_of_fp x | None -> "none")
  | [ "fp.limbs"; a; b; c ] -> (
      match fp_of_limbs (n_of_string a) (n_of_string b) (n_of_string c) with
      | Some x -> "ok " ^ hex_of_fp x
      | None -> "none")
  | [ "fp.vec"; a ] -> hex_of_fp (fp_of_hex a)
  | [ "fp.const" ] ->
      let be = List.rev (bytes_of_le (nat_of_int 24) (Z.to_N p)) in
      let hx = String.concat "" (List.map (fun x -> Printf.sprintf "%02x" (int_of_n x)) be) in
      let i = ref 0 in
      while !i < String.length hx - 1 && hx.[!i] = '0' do incr i done;
      let zi z = int_of_n (Z.to_N z) in
      Printf.sprintf "modulus=%s num_bits=%d capacity=%d s=%d two_inv=%s gen=%s rou=%s rou_inv=%s delta=%s"
        (String.sub hx !i (String.length hx - !i)) (zi f_num_bits) (zi f_capacity) (zi f_S)
        (hex_of_fp f_two_inv) (hex_of_fp f_gen) (hex_of_fp f_rou) (hex_of_fp f_rou_inv) (hex_of_fp f_delta)
  (* ---------------- field, limb level (ff_derive's generated code; internal Montgomery limbs) ---------------- *)
  | [ "fpl.bin"; op; a0; a1; a2; b0; b1; b2 ] ->
      let a = ((zs a0, zs a1), zs a2) and b = ((zs b0, zs b1), zs b2) in
      limbs_str (match op with "add" -> ladd a b | "sub" -> lsub a b | "mul" -> lmul a b | _ -> failwith "op")
  | [ "fpl.un"; op; a0; a1; a2 ] -> (
      let a = ((zs a0, zs a1), zs a2) in
      match op with
      | "neg" -> limbs_str (lneg a)
      | "dbl" -> limbs_str (ldouble a)
      | "sq" -> limbs_str (lsquare a)
      | "canon" -> limbs_str (lto_canon a) ^ " " ^ hex_of_bytes (lto_repr a) ^ (if lis_odd a then " odd" else " even")
      | "inv" -> ( match linvert a with Some r -> limbs_str r | None -> "none")
      | "sqrt" -> ( match lsqrt a with Some r -> limbs_str r | None -> "none")
      | _ -> failwith "op")
  | [ "fpl.cmp"; a0; a1; a2; b0; b1; b2 ] ->
      (match lcmp ((zs a0, zs a1), zs a2) ((zs b0, zs b1), zs b2) with Eq -> "eq" | Lt -> "lt" | Gt -> "gt")
      ^ (if leqb ((zs a0, zs a1), zs a2) ((zs b0, zs b1), zs b2) then " same" else " differ")
  | [ "fpl.pow"; a0; a1; a2; e0; e1; e2; e3 ] ->
      limbs_str (lpow_vartime ((zs a0, zs a1), zs a2) [ zs e0; zs e1; zs e2; zs e3 ])
  | [ "fpl.from"; b ] -> ( match lfrom_repr (bytes_of_hex b) with Some r -> limbs_str r | None -> "none")
  | [ "fpl.u64"; v ] -> limbs_str (lfrom_u64 (zs v))
  | [ "fpl.rand"; w0; w1; w2 ] -> ( match lrandom_round (zs w0) (zs w1) (zs w2) with Some r -> limbs_str r | None -> "none")
  | [ "fpl.const" ] ->
      String.concat " " (List.map limbs_str [ lone; r2; tWO_INV; gENERATOR; rOOT_OF_UNITY; rOOT_OF_UNITY_INV; dELTA; mODULUS_LIMBS ])
  (* ---------------- sharks ---------------- *)
  | [ "sharks.deal"; t; secret; niter; words ] -> (
      let ws = List.map n_of_string (split_on ',' words) in
      match sharks_deal (n_of_string t) (bytes_of_hex secret) (nat_of_int (int_of_string niter)) ws with
      | Ok (Some (its, g)) ->
          "ok "
          ^ String.concat "," (List.map (fun s -> hex_of_bytes (share_to_bytes s)) its)
          ^ " gen=" ^ (match g with Some s -> hex_of_bytes (share_to_bytes s) | None -> "nofuel")
      | Ok None -> "nofuel"
      | Err -> "err"
      | Panic -> "panic")
  | "sharks.recover" :: t :: shares -> (
      match decode_shares (List.map bytes_of_hex shares) with
      | Ok shs -> out_bytes (recover (n_of_string t) shs)
      | Err -> "decode-err"
      | Panic -> "decode-panic")
  | [ "sharks.decode"; b ] -> (
      match share_from_bytes (bytes_of_hex b) with
      | Ok s -> "ok " ^ hex_of_bytes (share_to_bytes s)
      | Err -> "err"
      | Panic -> "panic")
  (* ---------------- adss ---------------- *)
  | "adss.share" :: t :: m :: r :: tr :: xs -> (
      match adss_shares (n_of_string t) (bytes_of_hex m) (bytes_of_hex r) (transcript_of_string tr) (List.map fp_of_hex xs) with
      | Ok (Some shs) -> "ok " ^ String.concat "," (List.map (fun s -> hex_of_bytes (ashare_to_bytes s)) shs)
      | Ok None -> "nofuel"
      | Err -> "err"
      | Panic -> "panic")
  | [ "adss.coeffs"; t; m; r ] -> (
      match adss_coeffs (n_of_string t) (bytes_of_hex m) (bytes_of_hex r) with
      | Ok (Some [ pl ]) -> "ok " ^ String.concat "," (List.map hex_of_fp pl)
      | Ok (Some _) -> "unexpected"
      | Ok None -> "nofuel"
      | Err -> "err"
      | Panic -> "panic")
  | [ "wasm.mat"; m; e; t; x ] -> (
      match wasm_material kf (bytes_of_hex m) (bytes_of_hex e) (n_of_string t) (fp_of_hex x) with
      | Ok (Some ((k, sh), tg)) -> Printf.sprintf "key=%s share=%s tag=%s" (hex_of_bytes k) (hex_of_bytes (ashare_to_bytes sh)) (hex_of_bytes tg)
      | Ok None -> "nofuel"
      | Err -> "err"
      | Panic -> "panic")
  | "star.shrec" :: shares | "adss.recover" :: shares -> (
      match adss_recover (List.map bytes_of_hex shares) with
      | Ok c ->
          let h = sharing_of kf c in
          Printf.sprintf "ok %s %s %s %s %s" (hex_of_bytes c.cM) (hex_of_bytes (le32 c.cA)) (hex_of_bytes h.hC) (hex_of_bytes h.hD) (hex_of_bytes h.hJ)
      | Err -> "err"
      | Panic -> "panic")
  | [ "adss.decode"; b ] -> (
      match ashare_from_bytes (bytes_of_hex b) with
      | Ok s -> "ok " ^ hex_of_bytes (ashare_to_bytes s)
      | Err -> "err"
      | Panic -> "panic")
  | [ "adss.load_bytes"; b ] -> out_bytes (load_bytes (bytes_of_hex b))
  | "selfcheck" :: _ -> "ok"
  | [ "adss.load_u32"; b ] -> ( match load_u32 (bytes_of_hex b) with Some v -> "some " ^ string_of_int (int_of_n v) | None -> "none")
  | [ "adss.store_bytes"; b ] -> hex_of_bytes (store_bytes (bytes_of_hex b))
  (* ---------------- star ---------------- *)
  | "star.scn" :: m :: e :: t :: rnd :: n :: rest -> (
      let m = bytes_of_hex m and e = bytes_of_hex e and t = n_of_string t in
      let rnd = if rnd = "L" then (let r, _ = star_derive m e t in fst r) else bytes_of_hex rnd in
      let clients, rest = take_clients (int_of_string n) rest in
      let sel = List.map (fun s -> nat_of_int (int_of_string s)) rest in
      match star_scenario m e t rnd clients sel with
      | Ok (Some r) -> star_result_to_string r
      | Ok None -> "nofuel"
      | Err -> "err"
      | Panic -> "panic")
  | "star.recover" :: e :: nsel :: rest ->
      let k = int_of_string nsel in
      let sel = List.filteri (fun i _ -> i < k) rest and wire = List.filteri (fun i _ -> i >= k) rest in
      let r = star_recover_from (bytes_of_hex e) (List.map bytes_of_hex wire) (List.map (fun s -> nat_of_int (int_of_string s)) sel) in
      star_result_to_string { r with srWire = [] }
  | [ "star.derive"; m; e; t ] ->
      let (rnd, ((a, b), c)), k = star_derive (bytes_of_hex m) (bytes_of_hex e) (n_of_string t) in
      ignore a; ignore b;
      Printf.sprintf "rnd=%s tag=%s key=%s" (hex_of_bytes rnd) (hex_of_bytes c) (hex_of_bytes k)
  | [ "star.decode"; b ] -> (
      match message_from_bytes (bytes_of_hex b) with
      | Ok s -> "ok " ^ hex_of_bytes (message_to_bytes s)
      | Err -> "err"
      | Panic -> "panic")
  | [ "star.parse"; b ] -> pay_to_string (parse_payload (bytes_of_hex b))
  | [ "wasm.create"; m; t; e; x ] -> (
      if x = "-" then "driver-error:no share point" else
      match wasm_create (bytes_of_hex m) (n_of_string t) (bytes_of_hex e) (fp_of_hex x) with
      | Ok (Some js) -> hex_of_bytes js
      | Ok None -> "nofuel"
      | Err -> "err"
      | Panic -> "panic")
  | [ "wasm.group"; ser; e ] -> (
      match wasm_group (bytes_of_hex ser) (bytes_of_hex e) with
      | Ok (Some k) -> "some " ^ hex_of_bytes k
      | Ok None -> "none"
      | Err -> "err"
      | Panic -> "panic")
  | "agg.run" :: t :: e :: wire -> (
      match agg_run (n_of_string t) (bytes_of_hex e) (List.map bytes_of_hex wire) with
      | Ok outs ->
          let items = List.map (fun (m, aux) ->
              hex_of_bytes m ^ ":" ^ String.concat "," (List.sort compare (List.map hex_of_opt aux))) outs in
          "ok " ^ String.concat " " (List.sort compare items)
      | Err -> "err"
      | Panic -> "panic")
  | "srv.run" :: sk :: k0 :: k1 :: s0 :: s1 :: mds :: ops -> (
      let mdl = List.map (fun b -> b) (bytes_of_hex mds) in
      match pp_server_new grp (z_of_hex sk) (bytes_of_hex k0) (bytes_of_hex k1) (bytes_of_hex s0) (bytes_of_hex s1) mdl with
      | Inl e -> "new-E:" ^ perr_name e
      | Inr srv ->
          let w = ref [ srv ] in
          let outs = List.map (fun o ->
              let exported = (match o with
                | SSync (src, _) -> (match nth_error !w src with
                    | Some s ->
                        (* the exported bytes, and the import of them: must give back the exporter's state (KeyStateFacts) *)
                        let b = server_to_bincode s in
                        let chk = if not (server_okb s) then "!premise-of-roundtrip-theorem-not-met"
                          else (match server_from_bincode b with Some s' when s' = s -> "" | _ -> "!import-differs") in
                        "#" ^ fnv_bytes b ^ chk
                    | None -> "")
                | _ -> "") in
              let w', r = srv_step grp !w o in
              w := w';
              sres_string r ^ exported) (List.map sop_of_string ops) in
          String.concat " " outs ^ " | " ^ String.concat " " (List.map server_string !w))
  | [ "harness.panic" ] -> "no-panic"
  | [ "ks.load"; b ] ->
      (match server_from_bincode (bytes_of_hex b) with
       | Some s -> "ok " ^ fnv_bytes (server_to_bincode s)
       | None -> "err")
  | [ "cl.blind"; input; r ] -> hex_of_bytes (pp_client_blind grp (bytes_of_hex input) (z_of_hex r))
  | [ "cl.h2g"; input ] -> hex_of_bytes (pp_hash_to_group grp (bytes_of_hex input))
  | [ "cl.unblind"; p; r ] -> out_bytes (client_unblind grp (bytes_of_hex p) (z_of_hex r))
  | [ "cl.finalize"; input; md; p ] -> hex_of_bytes (pp_client_finalize (bytes_of_hex input) (n_of_int (int_of_string md)) (bytes_of_hex p))
  | [ "cl.verify"; pkb; inp; outp; pr; md ] -> (
      match pk_from_bincode (bytes_of_hex pkb) with
      | Inl e -> "pk-E:" ^ perr_name e
      | Inr pk ->
          let prf = if pr = "-" then None else (match proof_from_bincode (bytes_of_hex pr) with Inr p -> Some p | Inl _ -> failwith "bad proof in case line") in
          if pp_client_verify grp pk (bytes_of_hex inp) (bytes_of_hex outp) prf (n_of_int (int_of_string md)) then "true" else "false")
  | [ "json.ev"; b ] -> (
      match json_evaluation_decode (bytes_of_hex b) with
      | Some (o, pr) -> "ok " ^ hex_of_bytes o ^ " " ^ proof_hex pr ^ " " ^ hex_of_bytes (json_evaluation o pr)
      | None -> "err")
  | [ "json.pt"; b ] -> (
      match json_point_decode (bytes_of_hex b) with
      | Some o -> "ok " ^ hex_of_bytes o ^ " " ^ hex_of_bytes (json_array o)
      | None -> "err")
  | [ "pk.load"; b ] -> ( match pk_from_bincode (bytes_of_hex b) with Inr pk -> "ok " ^ hex_of_bytes (pk_to_bincode pk) | Inl e -> "E:" ^ perr_name e)
  | [ "proof.load"; b ] -> ( match proof_from_bincode (bytes_of_hex b) with Inr p -> "ok " ^ hex_of_bytes (proof_to_bincode p) | Inl e -> "E:" ^ perr_name e)
  | "ggm.run" :: k0 :: k1 :: s0 :: s1 :: ops ->
      ggm_run_string (bytes_of_hex k0) (bytes_of_hex k1) (bytes_of_hex s0) (bytes_of_hex s1) (List.map gop_of_string ops)
  | _ -> failwith "unknown command"

let () =
  try
    while true do
      let line = input_line stdin in
      let w = List.filter (fun s -> s <> "") (String.split_on_char ' ' line) in
      let r = try dispatch w with Failure s -> "driver-error:" ^ s | Not_found -> "driver-error:not_found" | Stack_overflow -> "driver-error:stack" in
      print_string r;
      print_newline ()
    done
  with End_of_file -> ()
