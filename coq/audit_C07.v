From StarV Require Import C07.
Goal True. idtac "@@ C07_modulus". Abort.
Print Assumptions C07_modulus.
Goal True. idtac "@@ C07_prime". Abort.
Print Assumptions C07_prime.
Goal True. idtac "@@ C07_ops_are_mod_p". Abort.
Print Assumptions C07_ops_are_mod_p.
Goal True. idtac "@@ C07_canonical". Abort.
Print Assumptions C07_canonical.
Goal True. idtac "@@ C07_field". Abort.
Print Assumptions C07_field.
Goal True. idtac "@@ C07_inverse". Abort.
Print Assumptions C07_inverse.
Goal True. idtac "@@ C07_pow". Abort.
Print Assumptions C07_pow.
Goal True. idtac "@@ C07_fermat". Abort.
Print Assumptions C07_fermat.
Goal True. idtac "@@ C07_sqrt_sound". Abort.
Print Assumptions C07_sqrt_sound.
Goal True. idtac "@@ C07_sqrt_complete". Abort.
Print Assumptions C07_sqrt_complete.
Goal True. idtac "@@ C07_encode_decode". Abort.
Print Assumptions C07_encode_decode.
Goal True. idtac "@@ C07_one_encoding". Abort.
Print Assumptions C07_one_encoding.
Goal True. idtac "@@ C07_reject". Abort.
Print Assumptions C07_reject.
Goal True. idtac "@@ C07_random_limbs". Abort.
Print Assumptions C07_random_limbs.
Goal True. idtac "@@ C07_generator_order". Abort.
Print Assumptions C07_generator_order.
Goal True. idtac "@@ C07_generator_generates". Abort.
Print Assumptions C07_generator_generates.
Goal True. idtac "@@ C07_generator_nonresidue". Abort.
Print Assumptions C07_generator_nonresidue.
Goal True. idtac "@@ C07_constants". Abort.
Print Assumptions C07_constants.
Goal True. idtac "@@ C07_limbs_ring_ops". Abort.
Print Assumptions C07_limbs_ring_ops.
Goal True. idtac "@@ C07_limbs_eq". Abort.
Print Assumptions C07_limbs_eq.
Goal True. idtac "@@ C07_limbs_invert". Abort.
Print Assumptions C07_limbs_invert.
Goal True. idtac "@@ C07_limbs_invert_chain". Abort.
Print Assumptions C07_limbs_invert_chain.
Goal True. idtac "@@ C07_limbs_sqrt". Abort.
Print Assumptions C07_limbs_sqrt.
Goal True. idtac "@@ C07_limbs_mont_reduce". Abort.
Print Assumptions C07_limbs_mont_reduce.
Goal True. idtac "@@ C07_limbs_to_repr". Abort.
Print Assumptions C07_limbs_to_repr.
Goal True. idtac "@@ C07_limbs_from_repr". Abort.
Print Assumptions C07_limbs_from_repr.
Goal True. idtac "@@ C07_limbs_from_u64". Abort.
Print Assumptions C07_limbs_from_u64.
Goal True. idtac "@@ C07_limbs_random". Abort.
Print Assumptions C07_limbs_random.
Goal True. idtac "@@ C07_limbs_constants". Abort.
Print Assumptions C07_limbs_constants.
Goal True. idtac "@@ C07_limbs_pow_vartime". Abort.
Print Assumptions C07_limbs_pow_vartime.
Goal True. idtac "@@ C07_limbs_to_repr_bytes". Abort.
Print Assumptions C07_limbs_to_repr_bytes.
Goal True. idtac "@@ C07_limbs_from_repr_bytes". Abort.
Print Assumptions C07_limbs_from_repr_bytes.
Goal True. idtac "@@ C07_limbs_lift". Abort.
Print Assumptions C07_limbs_lift.
