(* star-wasm wrapper and the reference aggregation server *)
From Coq Require Import ZArith NArith Arith Bool List Lia Permutation.
Import ListNotations.
Require Import ZifyN.
Ltac Zify.zify_post_hook ::= Z.div_mod_to_equations.
From StarV Require Import Params Bytes Strobe Fp Shamir Adss Star Wasm BytesFacts FieldFacts ShamirFacts StrobeFacts AdssFacts CodecFacts StarFacts.

(* ---------- base64 ---------- *)
Lemma b64_val_char v : (v < 64)%N -> b64_val (b64_char v) = Some v.
Proof.
  intros Hv. unfold b64_char.
  destruct (v <? 26)%N eqn:E1; [apply N.ltb_lt in E1|apply N.ltb_ge in E1].
  { unfold b64_val. replace ((65 <=? 65 + v) && (65 + v <=? 90))%N with true
      by (symmetry; apply andb_true_intro; split; apply N.leb_le; lia). f_equal. lia. }
  destruct (v <? 52)%N eqn:E2; [apply N.ltb_lt in E2|apply N.ltb_ge in E2].
  { unfold b64_val. replace ((65 <=? 97 + (v - 26)) && (97 + (v - 26) <=? 90))%N with false
      by (symmetry; apply andb_false_intro2; apply N.leb_gt; lia).
    replace ((97 <=? 97 + (v - 26)) && (97 + (v - 26) <=? 122))%N with true
      by (symmetry; apply andb_true_intro; split; apply N.leb_le; lia). f_equal. lia. }
  destruct (v <? 62)%N eqn:E3; [apply N.ltb_lt in E3|apply N.ltb_ge in E3].
  { unfold b64_val. replace ((65 <=? 48 + (v - 52)) && (48 + (v - 52) <=? 90))%N with false
      by (symmetry; apply andb_false_intro1; apply N.leb_gt; lia).
    replace ((97 <=? 48 + (v - 52)) && (48 + (v - 52) <=? 122))%N with false
      by (symmetry; apply andb_false_intro1; apply N.leb_gt; lia).
    replace ((48 <=? 48 + (v - 52)) && (48 + (v - 52) <=? 57))%N with true
      by (symmetry; apply andb_true_intro; split; apply N.leb_le; lia). f_equal. lia. }
  destruct (v =? 62)%N eqn:E4; [apply N.eqb_eq in E4; subst; reflexivity|apply N.eqb_neq in E4].
  assert (v = 63%N) by lia. subst. reflexivity.
Qed.
Lemma b64_char_not_pad v : b64_char v <> pad.
Proof.
  unfold b64_char, pad. destruct (v <? 26)%N eqn:E1; [apply N.ltb_lt in E1; lia|apply N.ltb_ge in E1].
  destruct (v <? 52)%N eqn:E2; [apply N.ltb_lt in E2; lia|apply N.ltb_ge in E2].
  destruct (v <? 62)%N eqn:E3; [apply N.ltb_lt in E3; lia|]. destruct (v =? 62)%N; lia.
Qed.
(* the alphabet needs no JSON escaping *)
Definition json_safe (c : N) : Prop := c <> 34%N /\ c <> 92%N /\ (32 <= c < 127)%N.
Lemma b64_char_safe v : json_safe (b64_char v).
Proof.
  unfold json_safe, b64_char. destruct (v <? 26)%N eqn:E1; [apply N.ltb_lt in E1; lia|apply N.ltb_ge in E1].
  destruct (v <? 52)%N eqn:E2; [apply N.ltb_lt in E2; lia|apply N.ltb_ge in E2].
  destruct (v <? 62)%N eqn:E3; [apply N.ltb_lt in E3; lia|]. destruct (v =? 62)%N; lia.
Qed.

Lemma list_ind3 {A} (P : list A -> Prop) :
  P [] -> (forall a, P [a]) -> (forall a b, P [a; b]) -> (forall a b c l, P l -> P (a :: b :: c :: l)) -> forall l, P l.
Proof.
  intros H0 H1 H2 H3. fix IH 1. intros [|a [|b [|c l]]]; [exact H0|apply H1|apply H2|apply H3, IH].
Qed.

Lemma b64_encode_safe : forall bs, Forall json_safe (b64_encode bs).
Proof.
  apply list_ind3; intros; cbn [b64_encode]; repeat constructor; try apply b64_char_safe; try (unfold json_safe, pad; lia); assumption.
Qed.

Lemma div_mod_facts a b c : (a < 256 -> b < 256 -> c < 256 ->
  a / 4 < 64 /\ (a mod 4) * 16 + b / 16 < 64 /\ (b mod 16) * 4 + c / 64 < 64 /\ c mod 64 < 64 /\
  (a / 4) * 4 + ((a mod 4) * 16 + b / 16) / 16 = a /\
  (((a mod 4) * 16 + b / 16) mod 16) * 16 + ((b mod 16) * 4 + c / 64) / 4 = b /\
  (((b mod 16) * 4 + c / 64) mod 4) * 64 + c mod 64 = c)%N.
Proof.
  intros Ha Hb Hc. repeat split; lia.
Qed.

Lemma b64_raw_roundtrip : forall bs, wf bs -> forall fuel, (length (b64_encode bs) < fuel)%nat ->
  b64_decode_raw fuel (b64_encode bs) = Some bs.
Proof.
  apply (list_ind3 (fun bs => wf bs -> forall fuel, (length (b64_encode bs) < fuel)%nat -> b64_decode_raw fuel (b64_encode bs) = Some bs)).
  - intros _ fuel Hf. destruct fuel; [cbn in Hf; lia|reflexivity].
  - intros a Hwf fuel Hf. destruct fuel; [cbn in Hf; lia|]. inversion Hwf as [|? ? Ha _]; subst.
    destruct (div_mod_facts a 0 0 Ha ltac:(lia) ltac:(lia)) as (B0 & B1 & _ & _ & E0 & _).
    cbn [b64_encode b64_decode_raw]. rewrite !b64_val_char by (try assumption; rewrite N.add_0_r in B1; change (0 / 16)%N with 0%N in B1; lia).
    change (N.eqb pad pad) with true. cbv iota. f_equal. f_equal.
    change (0 / 16)%N with 0%N in E0. rewrite N.add_0_r in E0. exact E0.
  - intros a b Hwf fuel Hf. destruct fuel; [cbn in Hf; lia|]. inversion Hwf as [|? ? Ha Hwf']; subst. inversion Hwf' as [|? ? Hb _]; subst.
    destruct (div_mod_facts a b 0 Ha Hb ltac:(lia)) as (B0 & B1 & B2 & _ & E0 & E1 & _).
    change (0 / 64)%N with 0%N in *. rewrite N.add_0_r in B2, E1.
    cbn [b64_encode b64_decode_raw]. rewrite !b64_val_char by assumption.
    replace (N.eqb (b64_char ((b mod 16) * 4)) pad) with false by (symmetry; apply N.eqb_neq, b64_char_not_pad).
    change (N.eqb pad pad) with true. cbv iota. rewrite E0, E1. reflexivity.
  - intros a b c l IH Hwf fuel Hf. destruct fuel; [cbn in Hf; lia|].
    inversion Hwf as [|? ? Ha Hwf1]; subst. inversion Hwf1 as [|? ? Hb Hwf2]; subst. inversion Hwf2 as [|? ? Hc Hwf3]; subst.
    destruct (div_mod_facts a b c Ha Hb Hc) as (B0 & B1 & B2 & B3 & E0 & E1 & E2).
    cbn [b64_encode length] in Hf.
    assert (IH' := IH Hwf3 fuel ltac:(lia)).
    cbn [b64_encode b64_decode_raw].
    destruct (b64_encode l) as [|e0 rest] eqn:El.
    + rewrite !b64_val_char by assumption.
      replace (N.eqb (b64_char ((b mod 16) * 4 + c / 64)) pad) with false by (symmetry; apply N.eqb_neq, b64_char_not_pad).
      replace (N.eqb (b64_char (c mod 64)) pad) with false by (symmetry; apply N.eqb_neq, b64_char_not_pad).
      rewrite E0, E1, E2. destruct l as [|x [|y [|z l']]]; [reflexivity|discriminate El|discriminate El|discriminate El].
    + rewrite !b64_val_char by assumption. rewrite IH'. rewrite E0, E1, E2. reflexivity.
Qed.

Lemma bytes_eqb_refl l : bytes_eqb l l = true.
Proof. induction l as [|a l IH]; cbn [bytes_eqb]; [reflexivity|]. rewrite N.eqb_refl, IH. reflexivity. Qed.
Lemma bytes_eqb_eq a b : bytes_eqb a b = true -> a = b.
Proof.
  revert b. induction a as [|x a IH]; intros [|y b] H; cbn [bytes_eqb] in H; try discriminate; [reflexivity|].
  apply andb_true_iff in H. destruct H as [H1 H2]. apply N.eqb_eq in H1. rewrite H1, (IH b H2). reflexivity.
Qed.

Theorem b64_roundtrip bs : wf bs -> b64_decode (b64_encode bs) = Some bs.
Proof.
  intros H. unfold b64_decode. rewrite (b64_raw_roundtrip bs H) by lia. rewrite bytes_eqb_refl. reflexivity.
Qed.
(* the strict decoder accepts exactly canonical encodings *)
Theorem b64_decode_canonical s bs : b64_decode s = Some bs -> s = b64_encode bs.
Proof.
  unfold b64_decode. destruct (b64_decode_raw (S (length s)) s) as [b|]; [|discriminate].
  destruct (bytes_eqb (b64_encode b) s) eqn:E; [|discriminate]. intros H. injection H as <-.
  symmetry. apply bytes_eqb_eq. exact E.
Qed.

(* ---------- the reference aggregation server ---------- *)
Definition norm_aux (a : option bytes) : option bytes := match a with Some [] => None | o => o end.

Lemma parse_payload_lenient m aux : fits32 m -> match aux with Some a => fits32 a | None => True end ->
  parse_payload (payload m aux) = Ok (m, norm_aux aux).
Proof.
  intros Hm Ha. unfold parse_payload, payload. rewrite load_store_bytes by exact Hm.
  rewrite skip_store. cbn [obind]. destruct aux as [a|]; [|reflexivity].
  destruct (store_bytes a) as [|b0 rest] eqn:Es.
  { apply (f_equal (@length N)) in Es. rewrite store_bytes_length in Es. cbn in Es. lia. }
  rewrite <- Es. rewrite load_store_bytes_nil by exact Ha. destruct a; reflexivity.
Qed.

(* the documented behaviour "exactly the associated data attached" fails for empty associated data *)
Theorem exact_aux_refuted : exists (m : bytes) (aux : option bytes),
  parse_payload (payload m aux) = Ok (m, None) /\ aux <> None.
Proof. exists [1%N], (Some []). split; [reflexivity|discriminate]. Qed.


(* ---------- grouping by tag: each bucket is the sub-list of the reports with that tag, in input order,
   and the buckets appear in the order in which their tags are first seen ---------- *)
Definition has_tag (T : bytes) (m : message) : bool := bytes_eqb (mTag m) T.
Definition first_tags (l : list message) : list bytes :=
  fold_left (fun acc m => if existsb (fun T => bytes_eqb T (mTag m)) acc then acc else acc ++ [mTag m]) l [].
Definition buckets_of (l : list message) : list (bytes * list message) :=
  map (fun T => (T, filter (has_tag T) l)) (first_tags l).

Lemma bytes_eqb_sym a b : bytes_eqb a b = bytes_eqb b a.
Proof.
  revert b. induction a as [|x a IH]; intros [|y b]; cbn [bytes_eqb]; try reflexivity.
  rewrite N.eqb_sym, IH. reflexivity.
Qed.
Lemma bytes_eqb_false a b : bytes_eqb a b = false <-> a <> b.
Proof.
  split.
  - intros H E. subst. rewrite bytes_eqb_refl in H. discriminate.
  - intros H. destruct (bytes_eqb a b) eqn:E; [apply bytes_eqb_eq in E; contradiction|reflexivity].
Qed.

Lemma NoDup_app_snoc {A} (l : list A) a : NoDup l -> ~ In a l -> NoDup (l ++ [a]).
Proof.
  induction l as [|x l IH]; intros Hnd Hn; cbn [app]; [constructor; [intros []|constructor]|].
  apply NoDup_cons_iff in Hnd. destruct Hnd as [Hx Hnd]. constructor.
  - intro Hin. apply in_app_or in Hin. destruct Hin as [Hin|[Eq|[]]]; [contradiction|]. apply Hn. left. symmetry. exact Eq.
  - apply IH; [exact Hnd|]. intro H. apply Hn. right. exact H.
Qed.
Lemma existsb_tag tags T : existsb (fun T' => bytes_eqb T' T) tags = true <-> In T tags.
Proof.
  rewrite existsb_exists. split.
  - intros [x [Hx E]]. apply bytes_eqb_eq in E. subst. exact Hx.
  - intros H. exists T. split; [exact H|apply bytes_eqb_refl].
Qed.
Lemma filter_snoc {A} (f : A -> bool) l a : filter f (l ++ [a]) = filter f l ++ (if f a then [a] else []).
Proof. rewrite filter_app. reflexivity. Qed.

Lemma has_tag_self m : has_tag (mTag m) m = true.
Proof. unfold has_tag. apply bytes_eqb_refl. Qed.
Lemma has_tag_other T m : T <> mTag m -> has_tag T m = false.
Proof. intros H. unfold has_tag. apply bytes_eqb_false. congruence. Qed.

Lemma add_to_bucket_map (m : message) (pre : list message) : forall tags, NoDup tags ->
  (~ In (mTag m) tags -> filter (has_tag (mTag m)) pre = []) ->
  add_to_bucket (mTag m) m (map (fun T => (T, filter (has_tag T) pre)) tags) =
  map (fun T => (T, filter (has_tag T) (pre ++ [m])))
      (if existsb (fun T => bytes_eqb T (mTag m)) tags then tags else tags ++ [mTag m]).
Proof.
  induction tags as [|T0 rest IH]; intros Hnd Hunseen.
  - cbn [map add_to_bucket existsb app]. rewrite filter_snoc, Hunseen by (intros []).
    rewrite has_tag_self. reflexivity.
  - apply NoDup_cons_iff in Hnd. destruct Hnd as [Hnot Hnd]. cbn [map add_to_bucket existsb].
    destruct (bytes_eqb T0 (mTag m)) eqn:E; cbn [orb].
    + apply bytes_eqb_eq in E. subst T0. cbn [map]. f_equal.
      * rewrite filter_snoc, has_tag_self. reflexivity.
      * apply map_ext_in. intros T HT. rewrite filter_snoc, has_tag_other, app_nil_r; [reflexivity|].
        intro Eq. apply Hnot. rewrite <- Eq. exact HT.
    + assert (Hne : T0 <> mTag m) by (apply bytes_eqb_false; exact E).
      rewrite IH; [|exact Hnd|].
      * destruct (existsb (fun T => bytes_eqb T (mTag m)) rest); cbn [map app]; f_equal;
          rewrite filter_snoc, (has_tag_other T0 m Hne), app_nil_r; reflexivity.
      * intros Hn. apply Hunseen. intros [Eq|Hin]; [contradiction|contradiction].
Qed.

Lemma first_tags_snoc l m : first_tags (l ++ [m]) =
  if existsb (fun T => bytes_eqb T (mTag m)) (first_tags l) then first_tags l else first_tags l ++ [mTag m].
Proof. unfold first_tags. rewrite fold_left_app. reflexivity. Qed.
Lemma collect_snoc l m : collect (l ++ [m]) = add_to_bucket (mTag m) m (collect l).
Proof. unfold collect. rewrite fold_left_app. reflexivity. Qed.

Lemma first_tags_inv : forall l, NoDup (first_tags l) /\ (forall T, ~ In T (first_tags l) -> filter (has_tag T) l = []).
Proof.
  induction l as [|m l IH] using rev_ind; [split; [constructor|reflexivity]|].
  destruct IH as [Hnd Hun]. rewrite first_tags_snoc.
  destruct (existsb (fun T => bytes_eqb T (mTag m)) (first_tags l)) eqn:E.
  - split; [exact Hnd|]. intros T HT. rewrite filter_snoc, (Hun T HT).
    rewrite has_tag_other; [reflexivity|]. intro Eq. apply HT. rewrite Eq. apply existsb_tag. exact E.
  - split.
    + apply NoDup_app_snoc; [exact Hnd|]. intro Hin. apply existsb_tag in Hin. congruence.
    + intros T HT. rewrite filter_snoc, Hun by (intro; apply HT; apply in_or_app; left; assumption).
      rewrite has_tag_other; [reflexivity|]. intro Eq. apply HT. apply in_or_app. right. left. symmetry. exact Eq.
Qed.

Theorem collect_spec : forall l, collect l = buckets_of l.
Proof.
  induction l as [|m l IH] using rev_ind; [reflexivity|].
  destruct (first_tags_inv l) as [Hnd Hun].
  rewrite collect_snoc, IH. unfold buckets_of. rewrite first_tags_snoc.
  apply add_to_bucket_map; [exact Hnd|apply Hun].
Qed.

Section WF.
Variable F : list N -> list N.

(* ---------- create_share ---------- *)
Theorem create_share_spec m (t : N) epoch x js : create_share F m t epoch x = Ok (Some js) -> js <> [] ->
  exists k sh tg,
    js = Params.wasm_json_p0 ++ b64_encode k ++ Params.wasm_json_p1 ++ b64_encode (ashare_to_bytes sh)
         ++ Params.wasm_json_p2 ++ b64_encode tg ++ Params.wasm_json_p3 /\
    k = derive_ske_key F (r0 F (sample_local F m epoch t)) epoch /\ tg = r2 F (sample_local F m epoch t) /\
    share_at F (commune_of F t (sample_local F m epoch t)) x = Ok (Some sh).
Proof.
  unfold create_share. destruct (wasm_material F m epoch t x) as [[[[k sh] tg]|]| |] eqn:E; intros H Hne;
    try discriminate H.
  - apply Ok_inj in H. assert (H' : Params.wasm_json_p0 ++ b64_encode k ++ Params.wasm_json_p1 ++ b64_encode (ashare_to_bytes sh)
         ++ Params.wasm_json_p2 ++ b64_encode tg ++ Params.wasm_json_p3 = js) by congruence.
    destruct (wasm_material_spec F m epoch t x k sh tg E) as (A & B & C). exists k, sh, tg. repeat split; try assumption. symmetry. exact H'.
  - apply Ok_inj in H. assert (js = []) by congruence. contradiction.
Qed.

(* the output is a JSON object of three string members whose contents need no escaping *)
Theorem create_share_json_safe k sb tg :
  Forall json_safe (b64_encode k) /\ Forall json_safe (b64_encode sb) /\ Forall json_safe (b64_encode tg).
Proof. repeat split; apply b64_encode_safe. Qed.

(* ---------- group_shares ---------- *)
Theorem group_shares_spec ser epoch shs : decode_chunks (split_nl [] ser) = Ok shs ->
  group_shares F ser epoch =
    match share_recover F shs with
    | Ok c => Ok (Some (b64_encode (derive_ske_key F (cM c) epoch)))
    | Err => Ok None
    | Panic => Panic
    end.
Proof. intros H. unfold group_shares. rewrite H. reflexivity. Qed.

Lemma decode_chunks_total l : decode_chunks l <> Panic.
Proof.
  induction l as [|c l IH]; cbn [decode_chunks]; [discriminate|].
  destruct (b64_decode c) as [b|]; [|discriminate].
  destruct (ashare_from_bytes b) eqn:E; cbn [obind]; [|discriminate|exfalso; exact (ashare_from_bytes_total _ E)].
  destruct (decode_chunks l); cbn [obind]; [discriminate|discriminate|contradiction].
Qed.
Theorem group_shares_total ser epoch : group_shares F ser epoch <> Panic.
Proof.
  unfold group_shares. destruct (decode_chunks (split_nl [] ser)) as [shs| |] eqn:E; [|discriminate|exfalso; exact (decode_chunks_total _ E)].
  destruct (share_recover F shs) eqn:E2; [discriminate|discriminate|exfalso; exact (arecover_never_panics F shs E2)].
Qed.
Theorem group_shares_malformed ser epoch : decode_chunks (split_nl [] ser) = Err -> group_shares F ser epoch = Ok None.
Proof. intros H. unfold group_shares. rewrite H. reflexivity. Qed.

Hypothesis F_bytes : forall l, wf (F l).

(* one bucket of honest reports of one measurement with t distinct share points:
   the measurement, and per client its associated data (empty reported as absent) *)
Theorem agg_bucket_honest m e (t : N) rnd clients msgs :
  (1 <= t < two32)%N -> fits32 m -> Forall (client_ok m) clients -> clients <> [] ->
  star_reports F m e t rnd clients = Ok (Some msgs) ->
  (t <= N.of_nat (length (nodup fp_eq_dec (map snd clients))))%N ->
  agg_bucket F e msgs = Ok (m, map (fun cl => norm_aux (fst cl)) clients).
Proof.
  intros Ht Hm Hcl Hne Hs Hcnt.
  destruct (star_end_to_end F F_bytes m e t rnd clients msgs Ht Hm Hcl Hs) as (_ & Hrec & _).
  destruct (star_reports_inv F _ _ _ _ _ _ Hs) as (polys & Hp & Emsgs).
  assert (Hxs : map (fun mm => sx (aS (mShare mm))) msgs = map snd clients).
  { rewrite Emsgs, map_map. apply map_ext. intros cl. reflexivity. }
  assert (Hmne : msgs <> []) by (rewrite Emsgs; destruct clients; [congruence|discriminate]).
  specialize (Hrec msgs (incl_refl _) Hmne). rewrite Hxs in Hrec. specialize (Hrec Hcnt).
  unfold agg_bucket. rewrite Hrec.
  change (cM (commune_of F t rnd)) with (r0 F rnd).
  assert (Hsplits : map (fun mm => parse_payload (ct_decrypt F (derive_ske_key F (r0 F rnd) e) (mCt mm) Params.lbl_agg_decrypt)) msgs
                    = map (fun cl => Ok (m, norm_aux (fst cl))) clients).
  { rewrite Emsgs, map_map. apply map_ext_in. intros cl Hin. unfold report_of. cbn [mCt].
    rewrite labels_agree, ct_roundtrip. rewrite Forall_forall in Hcl. destruct (Hcl cl Hin) as [_ Ha].
    apply parse_payload_lenient; assumption. }
  cbv zeta. rewrite Hsplits. destruct clients as [|cl0 rest]; [congruence|]. cbn [map].
  replace (forallb _ _) with true.
  - f_equal. f_equal. f_equal. rewrite map_map. reflexivity.
  - symmetry. cbn [forallb]. rewrite bytes_eqb_refl. cbn [andb]. apply forallb_forall. intros o Ho.
    apply in_map_iff in Ho. destruct Ho as [cl [<- _]]. apply bytes_eqb_refl.
Qed.


(* ---------- honest encodings consist of bytes ---------- *)
Lemma wf_le32 n : wf (le32 n). Proof. apply wf_bytes_of_le. Qed.
Lemma wf_store s : wf s -> wf (store_bytes s).
Proof. intros H. unfold store_bytes. apply wf_app. split; [apply wf_le32|exact H]. Qed.
Lemma wf_flat_repr l : wf (flat_map to_repr l).
Proof. induction l as [|a l IH]; cbn [flat_map]; [constructor|apply wf_app; split; [apply wf_to_repr|exact IH]]. Qed.
Lemma sharing_wf c : wf (cM c) -> wf (cR c) ->
  wf (hJ (sharing_of F c)) /\ wf (hC (sharing_of F c)) /\ wf (hD (sharing_of F c)).
Proof.
  intros HM HR. destruct (sharing_of_fields F c) as (HJ & _ & HC & HD & _). cbv zeta in *.
  rewrite HJ, HC, HD. repeat split; [apply (send_mac_wf F F_bytes)|apply (send_enc_wf F F_bytes); exact HM|apply (send_enc_wf F F_bytes); exact HR].
Qed.
Lemma mk_share_bytes_wf (t : N) (h : sharing) polys x : wf (hJ h) -> wf (hC h) -> wf (hD h) ->
  wf (ashare_to_bytes (mk_share t h polys x)).
Proof.
  intros HJ HC HD. unfold ashare_to_bytes. cbn [aA aS aC aD aJ mk_share].
  apply wf_app. split; [apply wf_le32|]. apply wf_app. split.
  - apply wf_store. unfold share_to_bytes. apply wf_app. split; [apply wf_to_repr|apply wf_flat_repr].
  - apply wf_app. split; [apply wf_store; exact HC|]. apply wf_app. split; [apply wf_store; exact HD|exact HJ].
Qed.

(* ---------- newline-separated lists ---------- *)
Fixpoint join_nl (l : list bytes) : bytes :=
  match l with
  | [] => []
  | [a] => a
  | a :: rest => a ++ 10%N :: join_nl rest
  end.
Lemma split_nl_chunk : forall a cur s, Forall (fun c => c <> 10%N) a -> split_nl cur (a ++ s) = split_nl (rev a ++ cur) s.
Proof.
  induction a as [|c a IH]; intros cur s H; [reflexivity|]. inversion H as [|? ? Hc Ha]; subst.
  cbn [app split_nl]. replace (N.eqb c 10) with false by (symmetry; apply N.eqb_neq; exact Hc).
  rewrite IH by exact Ha. cbn [rev]. rewrite <- app_assoc. reflexivity.
Qed.
Lemma split_join : forall l, l <> [] -> Forall (Forall (fun c => c <> 10%N)) l -> split_nl [] (join_nl l) = l.
Proof.
  induction l as [|a l IH]; intros Hne H; [congruence|]. inversion H as [|? ? Ha Hl]; subst.
  destruct l as [|b l].
  - cbn [join_nl]. rewrite <- (app_nil_r a) at 1. rewrite split_nl_chunk by exact Ha. cbn [split_nl]. rewrite app_nil_r, rev_involutive. reflexivity.
  - change (join_nl (a :: b :: l)) with (a ++ 10%N :: join_nl (b :: l)).
    rewrite split_nl_chunk by exact Ha. cbn [split_nl]. rewrite N.eqb_refl, app_nil_r, rev_involutive.
    f_equal. apply IH; [discriminate|exact Hl].
Qed.
Lemma b64_no_newline bs : Forall (fun c => c <> 10%N) (b64_encode bs).
Proof. eapply Forall_impl; [|apply b64_encode_safe]. intros c (_ & _ & H). lia. Qed.

Lemma decode_chunks_encoded : forall shs, Forall (fun s => ashare_wf s /\ wf (ashare_to_bytes s)) shs ->
  decode_chunks (map (fun s => b64_encode (ashare_to_bytes s)) shs) = Ok shs.
Proof.
  induction shs as [|s shs IH]; intros H; [reflexivity|]. inversion H as [|? ? [Hwf Hb] Hr]; subst.
  cbn [map decode_chunks]. rewrite b64_roundtrip by exact Hb. rewrite ashare_roundtrip by exact Hwf. cbn [obind].
  rewrite IH by exact Hr. reflexivity.
Qed.

(* the shares created for one measurement, handed to group_shares with the clients' epoch, yield the key
   every contributing client holds - as soon as t distinct shares are present *)
Theorem group_of_created m (t : N) epoch xs shs :
  (1 <= t < two32)%N -> wf epoch ->
  shares_at F (commune_of F t (sample_local F m epoch t)) xs = Ok (Some shs) -> xs <> [] ->
  (t <= N.of_nat (length (nodup fp_eq_dec xs)))%N ->
  group_shares F (join_nl (map (fun s => b64_encode (ashare_to_bytes s)) shs)) epoch
  = Ok (Some (b64_encode (derive_ske_key F (r0 F (sample_local F m epoch t)) epoch))).
Proof.
  intros [Ht1 Ht2] He Hs Hne Hcnt.
  set (c := commune_of F t (sample_local F m epoch t)) in *.
  pose proof (shares_recover F F_bytes c xs shs eq_refl Ht1 Hs Hne Hcnt) as Hrec.
  destruct (shares_at_inv F c xs shs Hs) as (polys & Hp & Eshs).
  destruct (polys_from_key F (cA c) (sharing_of F c) polys (hK_len F c) (hK_wf F F_bytes c) Hp) as (cs & el & Hpolys & _ & _).
  assert (HwM : wf (cM c)) by (apply (prf_wf F F_bytes)).
  assert (HwR : wf (cR c)) by (apply (prf_wf F F_bytes)).
  destruct (sharing_wf c HwM HwR) as (WJ & WC & WD).
  destruct (sharing_lengths F c) as (LC & LD & LJ).
  assert (Hall : Forall (fun s => ashare_wf s /\ wf (ashare_to_bytes s)) shs).
  { rewrite Eshs. apply Forall_forall. intros s Hin. apply in_map_iff in Hin. destruct Hin as [x [<- _]].
    rewrite Hpolys. split.
    - apply mk_share_wf; [exact Ht2| | |exact LJ].
      + apply (fits32_small _ 32); [rewrite LC; exact (length_r0 F _)|reflexivity].
      + apply (fits32_small _ 32); [rewrite LD; exact (length_r1 F _)|reflexivity].
    - apply mk_share_bytes_wf; assumption. }
  assert (Hshs : shs <> []) by (rewrite Eshs; destruct xs; [congruence|discriminate]).
  rewrite (group_shares_spec _ _ shs).
  - unfold share_recover. rewrite Hrec. reflexivity.
  - rewrite split_join.
    + apply decode_chunks_encoded. exact Hall.
    + destruct shs; [congruence|discriminate].
    + apply Forall_forall. intros ch Hch. apply in_map_iff in Hch. destruct Hch as [s [<- _]]. apply b64_no_newline.
Qed.

(* ---------- the whole aggregation on honest reports ---------- *)
Record gspec := { gm : bytes; grnd : bytes; gpolys : list (list fp) }.
Definition item := (gspec * (option bytes * fp))%type.
Definition itag (it : item) : bytes := r2 F (grnd (fst it)).

Section Agg.
Variables (e : bytes) (t : N).
Definition imsg (it : item) : message := report_of F (gm (fst it)) e t (grnd (fst it)) (gpolys (fst it)) (snd it).
Definition clients_of (items : list item) (T : bytes) : list (option bytes * fp) :=
  map snd (filter (fun it => bytes_eqb (itag it) T) items).
Definition gm_of (items : list item) (T : bytes) : bytes :=
  match find (fun it => bytes_eqb (itag it) T) items with Some it => gm (fst it) | None => [] end.
Definition qualifies (items : list item) (T : bytes) : bool := (t <=? N.of_nat (length (clients_of items T)))%N.

Lemma star_reports_of m rnd polys clients :
  polys_from F t (sharing_of F (commune_of F t rnd)) = Ok (Some polys) ->
  star_reports F m e t rnd clients = Ok (Some (map (report_of F m e t rnd polys) clients)).
Proof.
  intros Hp. unfold star_reports, shares_at. cbv zeta. cbn [cA commune_of]. rewrite Hp. cbv zeta.
  rewrite (combine_map_snd (mk_share t (sharing_of F (commune_of F t rnd)) polys) clients
            (fun p => {| mCt := ct_new F (derive_ske_key F (r0 F rnd) e) (payload m (fst (fst p))) Params.lbl_star_encrypt;
                         mShare := snd p; mTag := r2 F rnd |})).
  reflexivity.
Qed.

Lemma filter_map_comm {A B} (f : B -> bool) (g : A -> B) l : filter f (map g l) = map g (filter (fun a => f (g a)) l).
Proof. induction l as [|a l IH]; cbn [map filter]; [reflexivity|]. destruct (f (g a)); cbn [map]; rewrite IH; reflexivity. Qed.
Lemma all_ok_map {A B} (f : A -> outcome B) (g : A -> B) l : (forall a, In a l -> f a = Ok (g a)) -> all_ok (map f l) = Ok (map g l).
Proof.
  induction l as [|a l IH]; intros H; cbn [map all_ok]; [reflexivity|].
  rewrite (H a (or_introl eq_refl)). rewrite IH by (intros b Hb; apply H; right; exact Hb). reflexivity.
Qed.
Lemma first_tags_in l T : In T (first_tags l) -> exists m, In m l /\ mTag m = T.
Proof.
  induction l as [|m l IH] using rev_ind; intros H; [destruct H|]. rewrite first_tags_snoc in H.
  destruct (existsb _ _).
  - destruct (IH H) as [m0 [Hin E]]. exists m0. split; [apply in_or_app; left; exact Hin|exact E].
  - apply in_app_or in H. destruct H as [H|[E|[]]].
    + destruct (IH H) as [m0 [Hin E]]. exists m0. split; [apply in_or_app; left; exact Hin|exact E].
    + exists m. split; [apply in_or_app; right; left; reflexivity|exact E].
Qed.

(* every report is honest, groups are told apart by their tags, every group that reaches the threshold has
   t distinct share points: the output is, in the order tags are first seen, one entry per group with at
   least t reports, carrying the group's measurement and its clients' associated data in input order *)
Theorem aggregate_honest (items : list item) :
  (1 <= t < two32)%N ->
  Forall (fun it => fits32 (gm (fst it)) /\ client_ok (gm (fst it)) (snd it) /\
                    polys_from F t (sharing_of F (commune_of F t (grnd (fst it)))) = Ok (Some (gpolys (fst it)))) items ->
  (forall a b, In a items -> In b items -> itag a = itag b -> fst a = fst b) ->
  (forall T, qualifies items T = true ->
     (t <= N.of_nat (length (nodup fp_eq_dec (map snd (clients_of items T)))))%N) ->
  aggregate F t e (map imsg items) =
  Ok (map (fun T => (gm_of items T, map (fun cl => norm_aux (fst cl)) (clients_of items T)))
          (filter (qualifies items) (first_tags (map imsg items)))).
Proof.
  intros Ht Hhon Hinj Hdist. unfold aggregate. rewrite collect_spec. unfold buckets_of.
  assert (Hb : forall T, filter (has_tag T) (map imsg items) = map imsg (filter (fun it => bytes_eqb (itag it) T) items)).
  { intros T. apply filter_map_comm. }
  rewrite filter_map_comm. cbn [snd]. rewrite map_map. cbn [snd].
  assert (Hq : forall T, (t <=? N.of_nat (length (filter (has_tag T) (map imsg items))))%N = qualifies items T).
  { intros T. unfold qualifies, clients_of. rewrite Hb, !map_length. reflexivity. }
  rewrite (filter_ext _ _ Hq).
  apply all_ok_map. intros T HT. apply filter_In in HT. destruct HT as [HTin HTq].
  destruct (first_tags_in _ _ HTin) as [m0 [Hm0 Etag]]. apply in_map_iff in Hm0. destruct Hm0 as [it0 [<- Hit0]].
  change (mTag (imsg it0)) with (itag it0) in Etag.
  (* all items with this tag belong to it0's group *)
  set (g := fst it0).
  assert (Hgrp : forall it, In it (filter (fun it => bytes_eqb (itag it) T) items) -> fst it = g).
  { intros it Hin. apply filter_In in Hin. destruct Hin as [Hin E]. apply bytes_eqb_eq in E.
    apply (Hinj it it0 Hin Hit0). congruence. }
  assert (Hbucket : filter (has_tag T) (map imsg items)
                    = map (report_of F (gm g) e t (grnd g) (gpolys g)) (clients_of items T)).
  { rewrite Hb. unfold clients_of. rewrite map_map. apply map_ext_in. intros it Hin. unfold imsg. rewrite (Hgrp it Hin). reflexivity. }
  rewrite Hbucket.
  rewrite Forall_forall in Hhon. destruct (Hhon it0 Hit0) as (Hfm & _ & Hp). fold g in Hfm, Hp.
  assert (Hne : clients_of items T <> []).
  { unfold clients_of. intro E. apply map_eq_nil in E.
    assert (Hin0 : In it0 (filter (fun it => bytes_eqb (itag it) T) items)).
    { apply filter_In. split; [exact Hit0|]. rewrite Etag. apply bytes_eqb_refl. }
    rewrite E in Hin0. destruct Hin0. }
  assert (Hgm : gm_of items T = gm g).
  { unfold gm_of. destruct (find (fun it => bytes_eqb (itag it) T) items) as [it1|] eqn:Ef.
    - apply find_some in Ef. destruct Ef as [Hin1 E1]. apply bytes_eqb_eq in E1.
      rewrite (Hinj it1 it0 Hin1 Hit0) by congruence. reflexivity.
    - exfalso. pose proof (find_none _ _ Ef it0 Hit0) as Hn. cbv beta in Hn. rewrite Etag, bytes_eqb_refl in Hn. discriminate. }
  rewrite Hgm.
  apply (agg_bucket_honest (gm g) e t (grnd g) (clients_of items T)); try assumption.
  - apply Forall_forall. intros cl Hcl. unfold clients_of in Hcl. apply in_map_iff in Hcl. destruct Hcl as [it [<- Hin]].
    pose proof (Hgrp it Hin) as Eg. apply filter_In in Hin. destruct Hin as [Hin _].
    destruct (Hhon it Hin) as (_ & Hc & _). rewrite Eg in Hc. exact Hc.
  - apply star_reports_of. exact Hp.
  - apply Hdist. exact HTq.
Qed.

(* order of the input: a permutation of the reports changes neither which groups qualify nor, per group, the
   multiset of clients whose associated data is reported; the tags listed are the same set *)
Lemma Permutation_filter' {A} (f : A -> bool) l l' : Permutation l l' -> Permutation (filter f l) (filter f l').
Proof.
  induction 1 as [|x l l' _ IH|x y l|l l' l'' _ IH1 _ IH2]; cbn [filter].
  - constructor.
  - destruct (f x); [constructor; exact IH|exact IH].
  - destruct (f x), (f y); try reflexivity. apply perm_swap.
  - eapply Permutation_trans; eassumption.
Qed.
Theorem clients_perm (items items' : list item) T : Permutation items items' ->
  Permutation (clients_of items T) (clients_of items' T).
Proof. intros H. unfold clients_of. apply Permutation_map, Permutation_filter'. exact H. Qed.
Theorem qualifies_perm (items items' : list item) T : Permutation items items' ->
  qualifies items T = qualifies items' T.
Proof. intros H. unfold qualifies. rewrite (Permutation_length (clients_perm items items' T H)). reflexivity. Qed.
Lemma first_tags_complete l m : In m l -> In (mTag m) (first_tags l).
Proof.
  intros Hin. destruct (first_tags_inv l) as [_ Hun].
  destruct (in_dec (list_eq_dec N.eq_dec) (mTag m) (first_tags l)) as [H|H]; [exact H|exfalso].
  specialize (Hun _ H). assert (Hf : In m (filter (has_tag (mTag m)) l)) by (apply filter_In; split; [exact Hin|apply has_tag_self]).
  rewrite Hun in Hf. destruct Hf.
Qed.
Theorem first_tags_perm (l l' : list message) : Permutation l l' -> Permutation (first_tags l) (first_tags l').
Proof.
  intros H. apply NoDup_Permutation; try apply first_tags_inv.
  intros T. split; intros HT; destruct (first_tags_in _ _ HT) as [m [Hm <-]]; apply first_tags_complete.
  - eapply Permutation_in; eassumption.
  - eapply Permutation_in; [apply Permutation_sym; eassumption|exact Hm].
Qed.
End Agg.
End WF.
