(* The dealer at the limb level: one round of `Fp::random` as the limb code performs it is the sampler of model/Fp.v
   (`fp_of_limbs`), so the coefficients the dealer draws are the same field elements; and every share value the limb
   code computes (Horner over the limb operations, for every dealt polynomial) represents the share of the big-integer
   model.  Together with LimbShamir (interpolation) this carries the whole of sharks' arithmetic down to the limbs. *)
From Coq Require Import ZArith NArith List Bool Lia.
Import ListNotations.
From StarV Require Import Params Bytes Fp PolyDefs Shamir LimbPrim LimbGen FpLimbs FieldFacts ShamirFacts LimbFacts LimbLift LimbShamir.
Open Scope Z_scope.

Lemma land1_N2Z c : Z.land (Z.of_N c) 1 = Z.of_N (N.land c 1).
Proof.
  change 1 with (Z.ones 1) at 1. rewrite Z.land_ones by lia.
  change 1%N with (N.ones 1). rewrite N.land_ones. rewrite N2Z.inj_mod. reflexivity.
Qed.

(* u64 words as the random source hands them over (N below 2^64) *)
Theorem lrandom_round_is_fp_of_limbs (a b c : N) : (a < 18446744073709551616)%N -> (b < 18446744073709551616)%N -> (c < 18446744073709551616)%N ->
  match lrandom_round (Z.of_N a) (Z.of_N b) (Z.of_N c), fp_of_limbs a b c with
  | Some t, Some x => lvalid t /\ labs t = x
  | None, None => True
  | _, _ => False
  end.
Proof.
  intros Ha Hb Hc.
  assert (Wa : wf64 (Z.of_N a)) by (unfold wf64, W; lia).
  assert (Wb : wf64 (Z.of_N b)) by (unfold wf64, W; lia).
  assert (Wc : wf64 (Z.of_N c)) by (unfold wf64, W; lia).
  pose proof (lrandom_round_correct (Z.of_N a) (Z.of_N b) (Z.of_N c)) as Hr.
  unfold fp_of_limbs.
  set (v := Z.of_N (a + 18446744073709551616 * b + 340282366920938463463374607431768211456 * N.land c 1)).
  assert (Hv : v = lval (Z.of_N a, Z.of_N b, Z.land (Z.of_N c) 1)).
  { unfold v, lval, W2, W. rewrite land1_N2Z, !N2Z.inj_add, !N2Z.inj_mul. reflexivity. }
  unfold lrandom_round in *. change (shr64 (W - 1) GEN_REPR_SHAVE_BITS) with 1 in *.
  assert (Hw : lwf (Z.of_N a, Z.of_N b, Z.land (Z.of_N c) 1)).
  { unfold lwf. repeat split; try apply Wa; try apply Wb.
    - rewrite land1_N2Z. lia.
    - rewrite land1_N2Z. assert (N.land c 1 < 2)%N.
      { change 1%N with (N.ones 1). rewrite N.land_ones. apply N.mod_lt. discriminate. }
      unfold W. lia. }
  unfold LM in *. rewrite (is_valid_spec _ Hw) in *. rewrite <- Hv in *.
  destruct (v <? p) eqn:E.
  - destruct (Hr _ Wa Wb Wc eq_refl) as (Vt & _). split; [exact Vt|].
    unfold labs. rewrite <- Hv. reflexivity.
  - exact I.
Qed.

(* every share value: Horner over the limb operations for each dealt polynomial *)
Definition levaluate (polys : list (list limbs)) (x : limbs) : limbs * list limbs := (x, map (fun pl => lhorner pl x) polys).
Theorem levaluate_correct polys polys' x x' :
  Forall2 (Forall2 lrel) polys polys' -> lrel x x' ->
  lrel (fst (levaluate polys x)) (sx (evaluate polys' x')) /\
  Forall2 lrel (snd (levaluate polys x)) (sy (evaluate polys' x')).
Proof.
  intros Hp Hx. unfold levaluate, evaluate. cbn [fst snd sx sy]. split; [exact Hx|].
  induction Hp as [|pl pl' polys polys' Hpl Hp IH]; cbn [map]; constructor; [|exact IH].
  apply lhorner_correct; assumption.
Qed.
(* the iterator steps x by ONE: x += Fp::ONE *)
Lemma lstep_correct x x' : lrel x x' -> lrel (ladd x lone) (fadd x' fone).
Proof. intros Hx. apply lrel_add; [exact Hx|exact lrel_one]. Qed.
