(* Ordering and the de-duplication key of sharks::recover at the limb level.
   `impl Ord for Fp` (generated): both sides are taken out of Montgomery form and compared limb-wise from the top;
   `Sharks::recover` keys its BTreeSet of seen points by `x.to_repr()` bytes. *)
From Coq Require Import ZArith NArith List Bool Lia.
Import ListNotations.
From StarV Require Import Params Bytes Fp LimbPrim LimbGen FpLimbs FieldFacts ShamirFacts LimbFacts LimbLift.
Open Scope Z_scope.

Theorem lcmp_correct a b : lvalid a -> lvalid b -> lcmp a b = (val (labs a) ?= val (labs b)).
Proof.
  intros Ha Hb. unfold lcmp.
  destruct (lto_canon_correct a Ha) as ((Wa & _) & Ea). destruct (lto_canon_correct b Hb) as ((Wb & _) & Eb).
  rewrite (cmp_native_spec _ _ Wa Wb), Ea, Eb. reflexivity.
Qed.
(* the key under which recover remembers a share point: equal bytes iff equal field elements iff equal limbs *)
Theorem ldedup_key a b : lvalid a -> lvalid b ->
  (lto_repr a = lto_repr b <-> labs a = labs b) /\ (labs a = labs b <-> a = b).
Proof.
  intros Ha Hb. rewrite (lto_repr_correct a Ha), (lto_repr_correct b Hb). split.
  - split; [|intros ->; reflexivity].
    intros E. assert (H : from_repr (to_repr (labs a)) = from_repr (to_repr (labs b))) by (rewrite E; reflexivity).
    rewrite !from_to_repr in H. apply (f_equal (fun o => match o with Some v => v | None => labs a end)) in H. exact H.
  - split; [apply labs_inj; assumption|intros ->; reflexivity].
Qed.
