(* The limb-level code that ff_derive generates for Fp (model/LimbGen.v, regenerated from the expanded source on
   every run; model/FpLimbs.v) computes in Montgomery form exactly what the big-integer field of model/Fp.v
   computes: for ALL operands.  Part 1: primitives and three-limb helpers. *)
From Coq Require Import ZArith NArith List Bool Lia.
Import ListNotations.
From StarV Require Import Params Bytes Fp LimbPrim LimbGen FpLimbs FieldFacts.
Open Scope Z_scope.

Lemma W_val : W = 2 ^ 64. Proof. reflexivity. Qed.
Lemma W2_val : W2 = W * W. Proof. reflexivity. Qed.
Lemma p_val : p = W2 + 12451. Proof. reflexivity. Qed.
Lemma LM_val : lval MODULUS_LIMBS = p. Proof. reflexivity. Qed.
Lemma LM_wf : lwf MODULUS_LIMBS. Proof. unfold lwf, MODULUS_LIMBS, wf64, W. lia. Qed.

Ltac wfs := first [assumption | (unfold wf64, W in *; lia)].

(* ---------- primitives ---------- *)
Lemma mac_spec a b c d lo hi : wf64 a -> wf64 b -> wf64 c -> wf64 d -> mac a b c d = (lo, hi) ->
  lo + W * hi = a + b * c + d /\ wf64 lo /\ wf64 hi.
Proof.
  unfold wf64, mac. intros Ha Hb Hc Hd E. injection E as <- <-.
  assert (Hbc : 0 <= b * c <= (W - 1) * (W - 1)).
  { split; [apply Z.mul_nonneg_nonneg; lia|apply Z.mul_le_mono_nonneg; lia]. }
  set (t := a + b * c + d) in *.
  assert (Ht : 0 <= t < W * W) by (unfold t, W in *; lia).
  pose proof (Z.div_mod t W ltac:(unfold W; lia)) as Hdm.
  pose proof (Z.mod_pos_bound t W ltac:(unfold W; lia)) as Hm.
  assert (0 <= t / W) by (apply Z.div_pos; unfold W; lia).
  assert (t / W < W) by (apply Z.div_lt_upper_bound; unfold W in *; lia).
  lia.
Qed.
Lemma adc_spec a b c lo hi : wf64 a -> wf64 b -> wf64 c -> adc a b c = (lo, hi) ->
  lo + W * hi = a + b + c /\ wf64 lo /\ 0 <= hi <= 2.
Proof.
  unfold wf64, adc. intros Ha Hb Hc E. injection E as <- <-.
  set (t := a + b + c) in *.
  pose proof (Z.div_mod t W ltac:(unfold W; lia)) as Hdm.
  pose proof (Z.mod_pos_bound t W ltac:(unfold W; lia)) as Hm.
  assert (0 <= t / W) by (apply Z.div_pos; unfold W, t in *; lia).
  assert (t / W < 3) by (apply Z.div_lt_upper_bound; unfold W, t in *; lia).
  lia.
Qed.
(* a borrow word is 0 or 2^64-1; its top bit is what the next sbb subtracts *)
Definition bw_ok (bw : Z) : Prop := bw = 0 \/ bw = W - 1.
Definition bw_bit (bw : Z) : Z := if bw =? 0 then 0 else 1.
Lemma sbb_spec a b bw lo bo : wf64 a -> wf64 b -> bw_ok bw -> sbb a b bw = (lo, bo) ->
  lo = a - b - bw_bit bw + W * bw_bit bo /\ wf64 lo /\ bw_ok bo.
Proof.
  unfold wf64, sbb, bw_ok, bw_bit. intros Ha Hb Hbw E. injection E as <- <-.
  assert (Hq : bw / 9223372036854775808 = if bw =? 0 then 0 else 1).
  { destruct Hbw as [-> | ->]; reflexivity. }
  rewrite Hq. clear Hq.
  set (s := if bw =? 0 then 0 else 1) in *.
  assert (Hs : 0 <= s <= 1) by (unfold s; destruct (bw =? 0); lia).
  clearbody s. clear Hbw bw.
  destruct (Z_lt_le_dec (a - (b + s)) 0) as [Hneg | Hpos].
  - assert (E1 : (a - (b + s)) mod W2 = a - (b + s) + W2).
    { symmetry. apply Z.mod_unique with (q := -1); unfold W2, W in *; lia. }
    rewrite E1.
    assert (E2 : (a - (b + s) + W2) / W = W - 1).
    { symmetry. apply Z.div_unique with (r := a - (b + s) + W); unfold W2, W in *; lia. }
    assert (E3 : (a - (b + s) + W2) mod W = a - (b + s) + W).
    { symmetry. apply Z.mod_unique with (q := W - 1); unfold W2, W in *; lia. }
    rewrite E2, E3. replace (W - 1 =? 0) with false by reflexivity.
    unfold W in *. lia.
  - assert (E1 : (a - (b + s)) mod W2 = a - (b + s)).
    { apply Z.mod_small. unfold W2, W in *; lia. }
    rewrite E1.
    assert (E2 : (a - (b + s)) / W = 0) by (apply Z.div_small; unfold W in *; lia).
    assert (E3 : (a - (b + s)) mod W = a - (b + s)) by (apply Z.mod_small; unfold W in *; lia).
    rewrite E2, E3. replace (0 =? 0) with true by reflexivity. unfold W in *. lia.
Qed.
Lemma bw_ok_0 : bw_ok 0. Proof. left; reflexivity. Qed.

(* ---------- three-limb helpers ---------- *)
Lemma lval_range a : lwf a -> 0 <= lval a < W * W * W.
Proof. destruct a as [[a0 a1] a2]. unfold lwf, lval, wf64, W2, W. lia. Qed.
Lemma lval_inj a b : lwf a -> lwf b -> lval a = lval b -> a = b.
Proof.
  destruct a as [[a0 a1] a2], b as [[b0 b1] b2]. unfold lwf, lval, wf64, W2, W. intros.
  assert (a0 = b0) by lia. assert (a1 = b1) by lia. assert (a2 = b2) by lia. congruence.
Qed.

Lemma cmp_native_spec a b : lwf a -> lwf b -> cmp_native a b = (lval a ?= lval b).
Proof.
  destruct a as [[a0 a1] a2], b as [[b0 b1] b2]. unfold lwf, lval, wf64, cmp_native. intros Ha Hb.
  symmetry.
  destruct (Z.ltb_spec a2 b2); [apply Z.compare_lt_iff; unfold W2, W in *; lia|].
  destruct (Z.ltb_spec b2 a2); [apply Z.compare_gt_iff; unfold W2, W in *; lia|].
  destruct (Z.ltb_spec a1 b1); [apply Z.compare_lt_iff; unfold W2, W in *; lia|].
  destruct (Z.ltb_spec b1 a1); [apply Z.compare_gt_iff; unfold W2, W in *; lia|].
  destruct (Z.ltb_spec a0 b0); [apply Z.compare_lt_iff; unfold W2, W in *; lia|].
  destruct (Z.ltb_spec b0 a0); [apply Z.compare_gt_iff; unfold W2, W in *; lia|].
  apply Z.compare_eq_iff. unfold W2, W in *; lia.
Qed.
Lemma is_valid_spec a : lwf a -> is_valid MODULUS_LIMBS a = (lval a <? p).
Proof.
  intros Ha. unfold is_valid. rewrite (cmp_native_spec a MODULUS_LIMBS Ha LM_wf), LM_val.
  unfold Z.ltb. destruct (lval a ?= p); reflexivity.
Qed.

Lemma add_nocarry_spec a b : lwf a -> lwf b ->
  lwf (add_nocarry a b) /\ lval (add_nocarry a b) = (lval a + lval b) mod (W * W * W).
Proof.
  destruct a as [[a0 a1] a2], b as [[b0 b1] b2]. unfold lwf. intros (A0 & A1 & A2) (B0 & B1 & B2).
  unfold add_nocarry.
  destruct (adc a0 b0 0) as [r0 c0] eqn:E0. apply adc_spec in E0; try wfs. destruct E0 as (E0 & R0 & C0).
  destruct (adc a1 b1 c0) as [r1 c1] eqn:E1. apply adc_spec in E1; try wfs. destruct E1 as (E1 & R1 & C1).
  destruct (adc a2 b2 c1) as [r2 c2] eqn:E2. apply adc_spec in E2; try wfs. destruct E2 as (E2 & R2 & C2).
  split; [auto|].
  unfold lval. apply Z.mod_unique with (q := c2); unfold wf64, W2, W in *; lia.
Qed.
Lemma sub_noborrow_spec a b : lwf a -> lwf b ->
  lwf (sub_noborrow a b) /\ lval (sub_noborrow a b) = (lval a - lval b) mod (W * W * W).
Proof.
  destruct a as [[a0 a1] a2], b as [[b0 b1] b2]. unfold lwf. intros (A0 & A1 & A2) (B0 & B1 & B2).
  unfold sub_noborrow.
  destruct (sbb a0 b0 0) as [r0 c0] eqn:E0. apply sbb_spec in E0; try wfs; [|apply bw_ok_0]. destruct E0 as (E0 & R0 & C0).
  destruct (sbb a1 b1 c0) as [r1 c1] eqn:E1. apply sbb_spec in E1; try wfs. destruct E1 as (E1 & R1 & C1).
  destruct (sbb a2 b2 c1) as [r2 c2] eqn:E2. apply sbb_spec in E2; try wfs. destruct E2 as (E2 & R2 & C2).
  split; [auto|].
  unfold lval. apply Z.mod_unique with (q := - bw_bit c2).
  - unfold wf64, W2, W in *; lia.
  - unfold bw_bit in *. replace (0 =? 0) with true in E0 by reflexivity.
    destruct (c0 =? 0), (c1 =? 0), (c2 =? 0); unfold wf64, W2, W in *; lia.
Qed.

Lemma reduce_spec a : lwf a -> lval a < 2 * p ->
  lwf (reduce MODULUS_LIMBS a) /\ lval (reduce MODULUS_LIMBS a) < p /\
  lval (reduce MODULUS_LIMBS a) = (if lval a <? p then lval a else lval a - p).
Proof.
  intros Ha Hlt. unfold reduce. rewrite (is_valid_spec a Ha).
  pose proof (lval_range a Ha) as Hr.
  destruct (Z.ltb_spec (lval a) p) as [H | H].
  - auto.
  - destruct (sub_noborrow_spec a MODULUS_LIMBS Ha LM_wf) as (Hw & Hv). rewrite LM_val in Hv.
    assert (E : (lval a - p) mod (W * W * W) = lval a - p).
    { apply Z.mod_small. unfold p, Params.modulus, W in *. lia. }
    rewrite E in Hv. rewrite Hv. repeat split; [exact Hw | lia].
Qed.
Lemma reduce_mod a : lwf a -> lval a < 2 * p -> lval (reduce MODULUS_LIMBS a) = lval a mod p.
Proof.
  intros Ha Hlt. destruct (reduce_spec a Ha Hlt) as (_ & _ & E). rewrite E.
  pose proof (lval_range a Ha) as Hr.
  destruct (Z.ltb_spec (lval a) p) as [H | H].
  - symmetry. apply Z.mod_small. lia.
  - apply Z.mod_unique with (q := 1); lia.
Qed.

(* ---------- Montgomery reduction ---------- *)
Lemma inv_spec : (1 + INV * 12451) mod W = 0. Proof. reflexivity. Qed.
Lemma mac_inv_lo r : wf64 r -> fst (mac r (wmul64 r INV) 12451 0) = 0.
Proof.
  intros Hr. unfold mac, wmul64. cbn [fst]. rewrite Z.add_0_r.
  rewrite <- Zplus_mod_idemp_r, Zmult_mod_idemp_l, Zplus_mod_idemp_r.
  replace (r + r * INV * 12451) with (r * (1 + INV * 12451)) by ring.
  rewrite <- Zmult_mod_idemp_r, inv_spec, Z.mul_0_r. reflexivity.
Qed.
Lemma wmul64_wf a b : wf64 (wmul64 a b).
Proof. unfold wf64, wmul64. apply Z.mod_pos_bound. reflexivity. Qed.

Definition val6 (r0 r1 r2 r3 r4 r5 : Z) : Z := r0 + W * r1 + W * W * r2 + W * W * W * r3 + W * W * W * W * r4 + W * W * W * W * W * r5.

Ltac step_mac_inv :=
  match goal with
  | |- context [mac ?r (wmul64 ?r INV) 12451 0] =>
      let lo := fresh "z" in let hi := fresh "c" in let E := fresh "E" in
      let Hz := fresh "Hz" in let k := fresh "kk" in let Hk := fresh "Hk" in
      pose proof (mac_inv_lo r ltac:(wfs)) as Hz;
      pose proof (wmul64_wf r INV) as Hk;
      set (k := wmul64 r INV) in *; clearbody k;
      destruct (mac r k 12451 0) as [lo hi] eqn:E; cbn [fst] in Hz;
      apply mac_spec in E; [|wfs ..];
      destruct E as (E & ? & ?)
  end.
Ltac step_mac :=
  match goal with
  | |- context [mac ?a ?b ?c ?d] =>
      let lo := fresh "r" in let hi := fresh "c" in let E := fresh "E" in
      destruct (mac a b c d) as [lo hi] eqn:E;
      apply mac_spec in E; [|first [wfs | apply wmul64_wf] ..];
      destruct E as (E & ? & ?)
  end.
Ltac step_adc :=
  match goal with
  | |- context [adc ?a ?b ?c] =>
      let lo := fresh "r" in let hi := fresh "c" in let E := fresh "E" in
      destruct (adc a b c) as [lo hi] eqn:E;
      apply adc_spec in E; [|wfs ..];
      destruct E as (E & ? & ?)
  end.

Lemma mont_reduce_spec r0 r1 r2 r3 r4 r5 :
  wf64 r0 -> wf64 r1 -> wf64 r2 -> wf64 r3 -> wf64 r4 -> wf64 r5 ->
  val6 r0 r1 r2 r3 r4 r5 < p * (W * W * W) ->
  let r := gl_mont_reduce r0 r1 r2 r3 r4 r5 in
  lwf r /\ lval r < p /\ exists K, lval r * (W * W * W) = val6 r0 r1 r2 r3 r4 r5 + K * p.
Proof.
  intros H0 H1 H2 H3 H4 H5 HT.
  cbv beta iota zeta delta [gl_mont_reduce MODULUS_LIMBS].
  step_mac_inv. step_mac. step_mac. step_adc.
  step_mac_inv. step_mac. step_mac. step_adc.
  step_mac_inv. step_mac. step_mac. step_adc.
  match goal with |- context [reduce _ (?x, ?y, ?z)] => set (v := (x, y, z)) end.
  assert (Hwf : lwf v) by (unfold v, lwf; auto).
  match goal with H : _ + W * ?c = r5 + _ + _ |- _ => rename c into ctop end.
  assert (Hfull : (lval v + W * W * W * ctop) * (W * W * W) = val6 r0 r1 r2 r3 r4 r5 + (kk + W * kk0 + W * W * kk1) * p).
  { unfold v, lval, val6, p, Params.modulus, W2, wf64, W in *. lia. }
  assert (Htop : ctop = 0).
  { unfold v, lval, val6, p, Params.modulus, W2, wf64, W in *. lia. }
  subst ctop.
  assert (Hkey : lval v * (W * W * W) = val6 r0 r1 r2 r3 r4 r5 + (kk + W * kk0 + W * W * kk1) * p) by lia.
  assert (Hlt : lval v < 2 * p).
  { unfold v, lval, val6, p, Params.modulus, W2, wf64, W in *. lia. }
  destruct (reduce_spec v Hwf Hlt) as (Rw & Rlt & Rv).
  change (reduce (12451, 0, 1) v) with (reduce MODULUS_LIMBS v).
  split; [exact Rw|]. split; [exact Rlt|].
  rewrite Rv. destruct (lval v <? p).
  - exists (kk + W * kk0 + W * W * kk1). exact Hkey.
  - exists (kk + W * kk0 + W * W * kk1 - W * W * W). lia.
Qed.

(* ---------- multiplication ---------- *)
Definition W3 : Z := W * W * W.
Lemma p_lt_W3 : p < W3. Proof. reflexivity. Qed.

Lemma gl_mul_spec a b : lwf a -> lwf b -> lval a < p -> lval b < p ->
  lwf (gl_mul a b) /\ lval (gl_mul a b) < p /\ exists K, lval (gl_mul a b) * W3 = lval a * lval b + K * p.
Proof.
  destruct a as [[a0 a1] a2], b as [[b0 b1] b2]. intros (A0 & A1 & A2) (B0 & B1 & B2) HA HB.
  cbv beta iota zeta delta [gl_mul].
  do 9 step_mac.
  match goal with |- context [gl_mont_reduce ?x0 ?x1 ?x2 ?x3 ?x4 ?x5] =>
    assert (HV : val6 x0 x1 x2 x3 x4 x5 = lval (a0, a1, a2) * lval (b0, b1, b2));
      [|pose proof (mont_reduce_spec x0 x1 x2 x3 x4 x5 ltac:(wfs) ltac:(wfs) ltac:(wfs) ltac:(wfs) ltac:(wfs) ltac:(wfs)) as HM]
  end.
  { unfold val6, lval, W2, W in *. lia. }
  rewrite HV in HM. apply HM.
  pose proof (lval_range (a0, a1, a2) (conj A0 (conj A1 A2))) as Ra.
  pose proof (lval_range (b0, b1, b2) (conj B0 (conj B1 B2))) as Rb.
  apply Z.le_lt_trans with (m := p * lval (b0, b1, b2)).
  - apply Z.mul_le_mono_nonneg_r; lia.
  - apply Z.mul_lt_mono_pos_l; [reflexivity|]. pose proof p_lt_W3. unfold W3 in *. lia.
Qed.

(* ---------- squaring: the doubling of the cross products is done with shifts ---------- *)
Lemma shr63_spec x : wf64 x -> 0 <= shr64 x 63 <= 1 /\ 0 <= x - 9223372036854775808 * shr64 x 63 < 9223372036854775808.
Proof.
  unfold wf64, shr64, W. intros Hx. change (2 ^ 63) with 9223372036854775808.
  pose proof (Z.div_mod x 9223372036854775808 ltac:(lia)).
  pose proof (Z.mod_pos_bound x 9223372036854775808 ltac:(lia)).
  assert (0 <= x / 9223372036854775808) by (apply Z.div_pos; lia).
  assert (x / 9223372036854775808 < 2) by (apply Z.div_lt_upper_bound; lia).
  lia.
Qed.
Lemma shl1_spec x : wf64 x -> shl64 x 1 = 2 * x - W * shr64 x 63.
Proof.
  intros Hx. destruct (shr63_spec x Hx) as (Ht & Hr). unfold shl64. change (2 ^ 1) with 2.
  symmetry. apply Z.mod_unique with (q := shr64 x 63); unfold wf64, W in *; lia.
Qed.
Lemma lor_disjoint a b : 0 <= a -> a mod 2 = 0 -> 0 <= b <= 1 -> Z.lor a b = a + b.
Proof.
  intros Ha Hev Hb. assert (Hl : Z.land a b = 0).
  { assert (E : b = 0 \/ b = 1) by lia. destruct E as [-> | ->].
    - apply Z.land_0_r.
    - change 1 with (Z.ones 1). rewrite Z.land_ones by lia. exact Hev. }
  rewrite <- Z.lxor_lor by exact Hl. symmetry. apply Z.add_nocarry_lxor. exact Hl.
Qed.
Lemma shl_or_spec x y : wf64 x -> wf64 y ->
  lor64 (shl64 x 1) (shr64 y 63) = 2 * x - W * shr64 x 63 + shr64 y 63.
Proof.
  intros Hx Hy. destruct (shr63_spec x Hx) as (Ht & Hr). destruct (shr63_spec y Hy) as (Hty & _).
  unfold lor64. rewrite lor_disjoint; [rewrite (shl1_spec x Hx); reflexivity| | |exact Hty].
  - rewrite (shl1_spec x Hx). unfold wf64, W in *. lia.
  - rewrite (shl1_spec x Hx). unfold W.
    replace (2 * x - 18446744073709551616 * shr64 x 63) with (0 + (x - 9223372036854775808 * shr64 x 63) * 2) by ring.
    apply Z.mod_add. lia.
Qed.

Ltac abstract_shifts :=
  repeat match goal with
  | |- context [lor64 (shl64 ?x 1) (shr64 ?y 63)] =>
      let s := fresh "s" in let Hs := fresh "Hs" in
      pose proof (shl_or_spec x y ltac:(wfs) ltac:(wfs)) as Hs;
      set (s := lor64 (shl64 x 1) (shr64 y 63)) in *; clearbody s
  end;
  repeat match goal with
  | |- context [shl64 ?x 1] =>
      let s := fresh "s" in let Hs := fresh "Hs" in
      pose proof (shl1_spec x ltac:(wfs)) as Hs;
      set (s := shl64 x 1) in *; clearbody s
  end;
  repeat match goal with
  | H : context [shr64 ?x 63] |- _ =>
      let t := fresh "t" in
      pose proof (shr63_spec x ltac:(wfs));
      set (t := shr64 x 63) in *; clearbody t
  end.

Lemma gl_square_spec a : lwf a -> lval a < p ->
  lwf (gl_square a) /\ lval (gl_square a) < p /\ exists K, lval (gl_square a) * W3 = lval a * lval a + K * p.
Proof.
  destruct a as [[a0 a1] a2]. intros (A0 & A1 & A2) HA.
  cbv beta iota zeta delta [gl_square].
  do 3 step_mac.
  abstract_shifts.
  try match goal with |- context [adc (shr64 ?x 63) _ _] =>
    pose proof (shr63_spec x ltac:(wfs)); set (t5 := shr64 x 63) in *; clearbody t5 end.
  step_mac. step_adc. step_mac. step_adc. step_mac. step_adc.
  match goal with |- context [gl_mont_reduce ?x0 ?x1 ?x2 ?x3 ?x4 ?x5] =>
    assert (HV : val6 x0 x1 x2 x3 x4 x5 = lval (a0, a1, a2) * lval (a0, a1, a2));
      [|pose proof (mont_reduce_spec x0 x1 x2 x3 x4 x5 ltac:(wfs) ltac:(wfs) ltac:(wfs) ltac:(wfs) ltac:(wfs) ltac:(wfs)) as HM]
  end.
  { assert (Hsq : lval (a0, a1, a2) * lval (a0, a1, a2) < W3 * W3).
    { pose proof (lval_range (a0, a1, a2) (conj A0 (conj A1 A2))) as Ra.
      apply Z.mul_lt_mono_nonneg; unfold W3; lia. }
    unfold val6, lval, W3, W2, wf64, W in *. lia. }
  rewrite HV in HM. apply HM.
  pose proof (lval_range (a0, a1, a2) (conj A0 (conj A1 A2))) as Ra.
  apply Z.le_lt_trans with (m := p * lval (a0, a1, a2)).
  - apply Z.mul_le_mono_nonneg_r; lia.
  - apply Z.mul_lt_mono_pos_l; [reflexivity|]. pose proof p_lt_W3. unfold W3 in *. lia.
Qed.

(* ---------- addition, subtraction, negation, doubling ---------- *)
Definition lvalid (a : limbs) : Prop := lwf a /\ lval a < p.

Lemma ladd_spec a b : lvalid a -> lvalid b -> lvalid (ladd a b) /\ lval (ladd a b) = (lval a + lval b) mod p.
Proof.
  intros (Ha & Hap) (Hb & Hbp). unfold ladd, LM.
  destruct (add_nocarry_spec a b Ha Hb) as (Hw & Hv).
  pose proof (lval_range a Ha). pose proof (lval_range b Hb).
  assert (E : (lval a + lval b) mod (W * W * W) = lval a + lval b).
  { apply Z.mod_small. pose proof p_lt_W3. unfold W3, p, Params.modulus, W in *. lia. }
  rewrite E in Hv.
  assert (Hlt : lval (add_nocarry a b) < 2 * p) by lia.
  destruct (reduce_spec _ Hw Hlt) as (Rw & Rlt & _).
  split; [split; assumption|]. rewrite (reduce_mod _ Hw Hlt), Hv. reflexivity.
Qed.
Lemma lsub_spec a b : lvalid a -> lvalid b -> lvalid (lsub a b) /\ lval (lsub a b) = (lval a - lval b) mod p.
Proof.
  intros (Ha & Hap) (Hb & Hbp). unfold lsub, LM.
  pose proof (lval_range a Ha) as Ra. pose proof (lval_range b Hb) as Rb.
  rewrite (cmp_native_spec b a Hb Ha).
  destruct (lval b ?= lval a) eqn:C.
  - apply Z.compare_eq_iff in C. destruct (sub_noborrow_spec a b Ha Hb) as (Hw & Hv).
    rewrite C, Z.sub_diag in *. rewrite Z.mod_0_l in Hv by (unfold W; lia). rewrite Z.mod_0_l by (pose proof p_pos; lia).
    split; [split; [exact Hw|pose proof p_pos; lia]|exact Hv].
  - change (lval b < lval a) in C. destruct (sub_noborrow_spec a b Ha Hb) as (Hw & Hv).
    assert (E : (lval a - lval b) mod (W * W * W) = lval a - lval b) by (apply Z.mod_small; lia).
    rewrite E in Hv. split; [split; [exact Hw|lia]|]. rewrite Hv. symmetry. apply Z.mod_small. lia.
  - apply Z.compare_gt_iff in C.
    destruct (add_nocarry_spec a MODULUS_LIMBS Ha LM_wf) as (Hw1 & Hv1). rewrite LM_val in Hv1.
    assert (E1 : (lval a + p) mod (W * W * W) = lval a + p).
    { apply Z.mod_small. pose proof p_lt_W3. unfold W3, p, Params.modulus, W in *. lia. }
    rewrite E1 in Hv1.
    destruct (sub_noborrow_spec _ b Hw1 Hb) as (Hw & Hv). rewrite Hv1 in Hv.
    assert (E : (lval a + p - lval b) mod (W * W * W) = lval a + p - lval b).
    { apply Z.mod_small. pose proof p_lt_W3. unfold W3 in *. lia. }
    rewrite E in Hv. split; [split; [exact Hw|lia]|]. rewrite Hv.
    apply Z.mod_unique with (q := -1); lia.
Qed.
Lemma lis_zero_spec a : lwf a -> lis_zero a = (lval a =? 0).
Proof.
  destruct a as [[a0 a1] a2]. unfold lwf, lis_zero, lval, wf64. intros (A0 & A1 & A2).
  destruct (Z.eqb_spec a0 0), (Z.eqb_spec a1 0), (Z.eqb_spec a2 0); cbn [andb]; symmetry;
    first [apply Z.eqb_eq | apply Z.eqb_neq]; unfold W2, W in *; lia.
Qed.
Lemma lneg_spec a : lvalid a -> lvalid (lneg a) /\ lval (lneg a) = (- lval a) mod p.
Proof.
  intros (Ha & Hap). unfold lneg, LM. rewrite (lis_zero_spec a Ha).
  pose proof (lval_range a Ha) as Ra.
  destruct (Z.eqb_spec (lval a) 0) as [E | E].
  - split; [split; assumption|]. rewrite E. reflexivity.
  - destruct (sub_noborrow_spec MODULUS_LIMBS a LM_wf Ha) as (Hw & Hv). rewrite LM_val in Hv.
    assert (E1 : (p - lval a) mod (W * W * W) = p - lval a).
    { apply Z.mod_small. pose proof p_lt_W3. unfold W3 in *. lia. }
    rewrite E1 in Hv. split; [split; [exact Hw|lia]|]. rewrite Hv.
    apply Z.mod_unique with (q := -1); lia.
Qed.
Lemma ldouble_spec a : lvalid a -> lvalid (ldouble a) /\ lval (ldouble a) = (lval a + lval a) mod p.
Proof.
  destruct a as [[a0 a1] a2]. intros ((A0 & A1 & A2) & Hap).
  cbv beta iota zeta delta [ldouble LM].
  assert (Hz : lor64 (shl64 a0 1) 0 = shl64 a0 1) by apply Z.lor_0_r. rewrite Hz. clear Hz.
  pose proof (shl1_spec a0 A0) as S0. pose proof (shl_or_spec a1 a0 A1 A0) as S1. pose proof (shl_or_spec a2 a1 A2 A1) as S2.
  destruct (shr63_spec a0 A0) as (T0 & U0). destruct (shr63_spec a1 A1) as (T1 & U1). destruct (shr63_spec a2 A2) as (T2 & U2).
  set (r0 := shl64 a0 1) in *. set (r1 := lor64 (shl64 a1 1) (shr64 a0 63)) in *. set (r2 := lor64 (shl64 a2 1) (shr64 a1 63)) in *.
  set (t0 := shr64 a0 63) in *. set (t1 := shr64 a1 63) in *. set (t2 := shr64 a2 63) in *.
  clearbody r0 r1 r2 t0 t1 t2.
  assert (Ht2 : t2 = 0). { unfold lval, p, Params.modulus, W2, wf64, W in *. lia. }
  assert (Hw : lwf (r0, r1, r2)). { unfold lwf, wf64, W in *. lia. }
  assert (Hv : lval (r0, r1, r2) = lval (a0, a1, a2) + lval (a0, a1, a2)). { unfold lval, W2, wf64, W in *. lia. }
  assert (Hlt : lval (r0, r1, r2) < 2 * p) by lia.
  destruct (reduce_spec _ Hw Hlt) as (Rw & Rlt & _).
  split; [split; assumption|]. rewrite (reduce_mod _ Hw Hlt), Hv. reflexivity.
Qed.

(* ---------- the represented field element ---------- *)
Definition labs (a : limbs) : fp := mkfp (lval a * mont_rinv).
Lemma rinv_W3 : (mont_rinv * W3) mod p = 1. Proof. exact mont_rinv_spec. Qed.
Lemma W3_rinv_cancel x : (x * W3 * mont_rinv) mod p = x mod p.
Proof.
  replace (x * W3 * mont_rinv) with (x * (mont_rinv * W3)) by ring.
  rewrite <- Zmult_mod_idemp_r, rinv_W3, Z.mul_1_r. reflexivity.
Qed.
Lemma labs_inj a b : lvalid a -> lvalid b -> labs a = labs b -> a = b.
Proof.
  intros (Ha & Hap) (Hb & Hbp) E. apply lval_inj; try assumption.
  apply mkfp_eq_iff in E.
  assert (E2 : (lval a * mont_rinv * W3) mod p = (lval b * mont_rinv * W3) mod p).
  { rewrite <- (Zmult_mod_idemp_l (lval a * mont_rinv)), E, Zmult_mod_idemp_l. reflexivity. }
  replace (lval a * mont_rinv * W3) with (lval a * (mont_rinv * W3)) in E2 by ring.
  replace (lval b * mont_rinv * W3) with (lval b * (mont_rinv * W3)) in E2 by ring.
  rewrite <- (Zmult_mod_idemp_r (mont_rinv * W3)), rinv_W3, Z.mul_1_r in E2.
  rewrite <- (Zmult_mod_idemp_r (mont_rinv * W3) (lval b)), rinv_W3, Z.mul_1_r in E2.
  pose proof (lval_range a Ha). pose proof (lval_range b Hb).
  rewrite !Z.mod_small in E2 by lia. exact E2.
Qed.

Lemma labs_mul_gen r a b K : lval r * W3 = lval a * lval b + K * p -> labs r = fmul (labs a) (labs b).
Proof.
  intros E. unfold labs, fmul. rewrite !val_mkfp. apply mkfp_eq_iff.
  rewrite <- Zmult_mod.
  assert (E2 : (lval a * lval b) mod p = (lval r * W3) mod p).
  { rewrite E. symmetry. apply Z_mod_plus_full. }
  replace (lval a * mont_rinv * (lval b * mont_rinv)) with ((lval a * lval b) * (mont_rinv * mont_rinv)) by ring.
  rewrite (Zmult_mod (lval a * lval b)), E2, <- Zmult_mod.
  replace (lval r * W3 * (mont_rinv * mont_rinv)) with ((lval r * W3 * mont_rinv) * mont_rinv) by ring.
  rewrite (Zmult_mod (lval r * W3 * mont_rinv)), W3_rinv_cancel, <- Zmult_mod. reflexivity.
Qed.
Theorem lmul_correct a b : lvalid a -> lvalid b -> lvalid (lmul a b) /\ labs (lmul a b) = fmul (labs a) (labs b).
Proof.
  intros (Ha & Hap) (Hb & Hbp). destruct (gl_mul_spec a b Ha Hb Hap Hbp) as (Hw & Hlt & K & E).
  split; [split; assumption|]. exact (labs_mul_gen _ _ _ K E).
Qed.
Theorem lsquare_correct a : lvalid a -> lvalid (lsquare a) /\ labs (lsquare a) = fsquare (labs a).
Proof.
  intros (Ha & Hap). destruct (gl_square_spec a Ha Hap) as (Hw & Hlt & K & E).
  split; [split; assumption|]. exact (labs_mul_gen _ _ _ K E).
Qed.
Corollary lsquare_is_mul a : lvalid a -> lsquare a = lmul a a.
Proof.
  intros Ha. destruct (lsquare_correct a Ha) as (V1 & E1). destruct (lmul_correct a a Ha Ha) as (V2 & E2).
  apply labs_inj; try assumption. rewrite E1, E2. reflexivity.
Qed.
Theorem ladd_correct a b : lvalid a -> lvalid b -> lvalid (ladd a b) /\ labs (ladd a b) = fadd (labs a) (labs b).
Proof.
  intros Ha Hb. destruct (ladd_spec a b Ha Hb) as (V & E). split; [exact V|].
  unfold labs, fadd. rewrite !val_mkfp, E. apply mkfp_eq_iff.
  rewrite Zmult_mod_idemp_l, <- Zplus_mod. f_equal. ring.
Qed.
Theorem lsub_correct a b : lvalid a -> lvalid b -> lvalid (lsub a b) /\ labs (lsub a b) = fsub (labs a) (labs b).
Proof.
  intros Ha Hb. destruct (lsub_spec a b Ha Hb) as (V & E). split; [exact V|].
  unfold labs, fsub. rewrite !val_mkfp, E. apply mkfp_eq_iff.
  rewrite Zmult_mod_idemp_l, <- Zminus_mod. f_equal. ring.
Qed.
Lemma opp_mod_idemp x : (- (x mod p)) mod p = (- x) mod p.
Proof. change (- (x mod p)) with (0 - x mod p). change (- x) with (0 - x). apply Zminus_mod_idemp_r. Qed.
Theorem lneg_correct a : lvalid a -> lvalid (lneg a) /\ labs (lneg a) = fopp (labs a).
Proof.
  intros Ha. destruct (lneg_spec a Ha) as (V & E). split; [exact V|].
  unfold labs, fopp. rewrite !val_mkfp, E. apply mkfp_eq_iff.
  rewrite opp_mod_idemp, Zmult_mod_idemp_l. f_equal. ring.
Qed.
Theorem ldouble_correct a : lvalid a -> lvalid (ldouble a) /\ labs (ldouble a) = fdouble (labs a).
Proof.
  intros Ha. destruct (ldouble_spec a Ha) as (V & E). split; [exact V|].
  unfold labs, fdouble, fadd. rewrite !val_mkfp, E. apply mkfp_eq_iff.
  rewrite Zmult_mod_idemp_l, <- Zplus_mod. f_equal. ring.
Qed.

(* ---------- addition chains (invert, sqrt) ---------- *)
Section ChainSim.
  Variables (A B : Type) (sqA : A -> A) (mulA : A -> A -> A) (dA : A) (sqB : B -> B) (mulB : B -> B -> B) (dB : B).
  Variable Rel : A -> B -> Prop.
  Hypothesis Rd : Rel dA dB.
  Hypothesis Rsq : forall a b, Rel a b -> Rel (sqA a) (sqB b).
  Hypothesis Rmul : forall a b a' b', Rel a b -> Rel a' b' -> Rel (mulA a a') (mulB b b').
  Lemma Forall2_nth_rel la lb n : Forall2 Rel la lb -> Rel (nth n la dA) (nth n lb dB).
  Proof. intros H. revert n. induction H as [|x y la lb Hxy H IH]; intros [|n]; cbn; auto. Qed.
  Lemma Forall2_len la lb : Forall2 Rel la lb -> length la = length lb.
  Proof. induction 1; cbn; congruence. Qed.
  Lemma cget_rel la lb i : Forall2 Rel la lb -> Rel (cget A dA la i) (cget B dB lb i).
  Proof. intros H. unfold cget. rewrite (Forall2_len _ _ H). apply Forall2_nth_rel. exact H. Qed.
  Lemma chain_fold_rel ch : forall la lb, Forall2 Rel la lb ->
    Forall2 Rel (fold_left (cstep_run A sqA mulA dA) ch la) (fold_left (cstep_run B sqB mulB dB) ch lb).
  Proof.
    induction ch as [|s ch IH]; intros la lb H; cbn [fold_left]; [exact H|].
    apply IH. destruct s as [i | i j]; cbn [cstep_run]; constructor; try exact H.
    - apply Rsq. apply cget_rel. exact H.
    - apply Rmul; apply cget_rel; exact H.
  Qed.
  Lemma chain_sim ch x y : Rel x y -> Rel (chain_run A sqA mulA dA ch x) (chain_run B sqB mulB dB ch y).
  Proof.
    intros H. unfold chain_run.
    assert (F : Forall2 Rel (fold_left (cstep_run A sqA mulA dA) ch [x]) (fold_left (cstep_run B sqB mulB dB) ch [y])).
    { apply chain_fold_rel. constructor; [exact H|constructor]. }
    destruct F; cbn; auto.
  Qed.
End ChainSim.

Definition chain_exp (ch : list cstep) : Z := chain_run Z (fun e => 2 * e) Z.add 0 ch 1.
Lemma chain_pow ch (x : fp) :
  0 <= chain_exp ch /\ chain_run fp fsquare fmul fone ch x = fpow x (chain_exp ch).
Proof.
  unfold chain_exp.
  apply (chain_sim Z fp (fun e => 2 * e) Z.add 0 fsquare fmul fone (fun e u => 0 <= e /\ u = fpow x e)).
  - split; [lia|]. symmetry. apply fpow_0.
  - intros e u (He & ->). split; [lia|]. replace (2 * e) with (e + e) by ring. rewrite fpow_add by lia. reflexivity.
  - intros e u e' u' (He & ->) (He' & ->). split; [lia|]. rewrite fpow_add by lia. reflexivity.
  - split; [lia|]. symmetry. apply fpow_1.
Qed.
Lemma lone_valid : lvalid lone. Proof. unfold lvalid, lone, R, lwf, lval, wf64, W2, W. cbn. split; [lia|reflexivity]. Qed.
Lemma labs_lone : labs lone = fone. Proof. apply fp_eq. vm_compute. reflexivity. Qed.
Lemma lzero_valid : lvalid lzero. Proof. unfold lvalid, lzero, lwf, lval, wf64, W. cbn. split; [lia|reflexivity]. Qed.
Lemma labs_lzero : labs lzero = fzero. Proof. apply fp_eq. reflexivity. Qed.
Lemma chain_limbs ch a : lvalid a ->
  lvalid (chain_run limbs gl_square gl_mul lone ch a) /\
  labs (chain_run limbs gl_square gl_mul lone ch a) = chain_run fp fsquare fmul fone ch (labs a).
Proof.
  intros Ha.
  apply (chain_sim limbs fp gl_square gl_mul lone fsquare fmul fone (fun t u => lvalid t /\ labs t = u)).
  - split; [exact lone_valid|exact labs_lone].
  - intros t u (Ht & <-). exact (lsquare_correct t Ht).
  - intros t u t' u' (Ht & <-) (Ht' & <-). exact (lmul_correct t t' Ht Ht').
  - split; [exact Ha|reflexivity].
Qed.
Lemma invert_chain_exp : chain_exp invert_chain = p - 2. Proof. vm_compute. reflexivity. Qed.
Lemma sqrt_chain_exp : chain_exp sqrt_chain = (p + 1) / 4. Proof. vm_compute. reflexivity. Qed.

Lemma finv_is_pow (a : fp) : a <> fzero -> finv a = fpow a (p - 2).
Proof.
  intros Ha. pose proof (finv_l a Ha) as Hi. pose proof (fermat_fp a Ha) as Hf.
  assert (Hp : fmul (fpow a (p - 2)) a = fone).
  { rewrite <- Hf. replace (p - 1) with ((p - 2) + 1) by ring. rewrite fpow_add by (unfold p, Params.modulus; lia).
    rewrite fpow_1. reflexivity. }
  pose proof fp_ring as Rg. destruct Rg.
  rewrite <- (Rmul_1_l (finv a)), <- Hp, <- Rmul_assoc, (Rmul_comm a), Hi, (Rmul_comm _ fone), Rmul_1_l. reflexivity.
Qed.
Lemma labs_zero_iff a : lvalid a -> (labs a = fzero <-> lval a = 0).
Proof.
  intros Ha. split.
  - intros E. rewrite <- labs_lzero in E. apply (labs_inj _ _ Ha lzero_valid) in E. rewrite E. reflexivity.
  - intros E. apply fp_eq. unfold labs. rewrite val_mkfp, E. reflexivity.
Qed.
Theorem linvert_correct a : lvalid a ->
  match linvert a with
  | None => labs a = fzero
  | Some r => lvalid r /\ labs a <> fzero /\ labs r = finv (labs a)
  end.
Proof.
  intros Ha. unfold linvert. rewrite (lis_zero_spec a (proj1 Ha)).
  destruct (Z.eqb_spec (lval a) 0) as [E | E].
  - apply (labs_zero_iff a Ha). exact E.
  - assert (Hnz : labs a <> fzero) by (intros H; apply (labs_zero_iff a Ha) in H; contradiction).
    unfold linvert_raw. destruct (chain_limbs invert_chain a Ha) as (V & Eq).
    split; [exact V|]. split; [exact Hnz|].
    rewrite Eq. destruct (chain_pow invert_chain (labs a)) as (_ & ->).
    rewrite invert_chain_exp. symmetry. apply finv_is_pow. exact Hnz.
Qed.

Lemma leqb_spec a b : leqb a b = true <-> a = b.
Proof.
  destruct a as [[a0 a1] a2], b as [[b0 b1] b2]. unfold leqb. rewrite !andb_true_iff, !Z.eqb_eq.
  split; [intros ((-> & ->) & ->); reflexivity|intros E; injection E as -> -> ->; auto].
Qed.
Lemma fsqrt_of_candidate (x r : fp) : r = fpow x ((p + 1) / 4) ->
  fsqrt x = if feqb (fmul r r) x then Some r else None.
Proof. intros ->. reflexivity. Qed.
Lemma lsqrt_unfold a :
  lsqrt a = if leqb (gl_mul (lsqrt_raw a) (lsqrt_raw a)) a then Some (lsqrt_raw a) else None.
Proof. reflexivity. Qed.
Lemma lsqrt_raw_spec a : lvalid a -> lvalid (lsqrt_raw a) /\ labs (lsqrt_raw a) = fpow (labs a) ((p + 1) / 4).
Proof.
  intros Ha. unfold lsqrt_raw. destruct (chain_limbs sqrt_chain a Ha) as (V & Eq). split; [exact V|].
  rewrite Eq. destruct (chain_pow sqrt_chain (labs a)) as (_ & ->). rewrite sqrt_chain_exp. reflexivity.
Qed.
Theorem lsqrt_correct a : lvalid a ->
  match lsqrt a with
  | None => fsqrt (labs a) = None
  | Some r => lvalid r /\ fsqrt (labs a) = Some (labs r)
  end.
Proof.
  intros Ha. rewrite lsqrt_unfold. destruct (lsqrt_raw_spec a Ha) as (V & Eq).
  generalize dependent (lsqrt_raw a). intros s V Eq.
  destruct (lmul_correct s s V V) as (Vm & Em). unfold lmul in Vm, Em.
  rewrite (fsqrt_of_candidate (labs a) (labs s) Eq).
  destruct (leqb (gl_mul s s) a) eqn:L.
  - apply leqb_spec in L. split; [exact V|].
    assert (F : feqb (fmul (labs s) (labs s)) (labs a) = true) by (apply feqb_eq; rewrite <- Em, L; reflexivity).
    rewrite F. reflexivity.
  - assert (F : feqb (fmul (labs s) (labs s)) (labs a) = false).
    { apply feqb_neq. intros H. rewrite <- Em in H. apply (labs_inj _ _ Vm Ha) in H.
      apply leqb_spec in H. rewrite H in L. discriminate L. }
    rewrite F. reflexivity.
Qed.

(* ---------- to_repr / from_repr / From<u64> (at the level of the limbs that are written / read) ---------- *)
Theorem lto_canon_correct a : lvalid a -> lvalid (lto_canon a) /\ lval (lto_canon a) = val (labs a).
Proof.
  destruct a as [[a0 a1] a2]. intros ((A0 & A1 & A2) & Hap). unfold lto_canon.
  assert (HT : val6 a0 a1 a2 0 0 0 < p * (W * W * W)).
  { unfold val6. unfold lval in Hap. pose proof p_pos. unfold W2, wf64, W in *. nia. }
  destruct (mont_reduce_spec a0 a1 a2 0 0 0 A0 A1 A2 ltac:(wfs) ltac:(wfs) ltac:(wfs) HT) as (Hw & Hlt & K & E).
  split; [split; assumption|].
  set (r := gl_mont_reduce a0 a1 a2 0 0 0) in *. clearbody r.
  pose proof (lval_range r Hw) as Rr.
  unfold labs. rewrite val_mkfp.
  rewrite <- (Z.mod_small (lval r) p) by lia. rewrite <- (W3_rinv_cancel (lval r)). unfold W3. rewrite E.
  replace (val6 a0 a1 a2 0 0 0) with (lval (a0, a1, a2)) by (unfold val6, lval, W2, W; ring).
  replace ((lval (a0, a1, a2) + K * p) * mont_rinv) with (lval (a0, a1, a2) * mont_rinv + (K * mont_rinv) * p) by ring.
  apply Z_mod_plus_full.
Qed.
Lemma labs_R2 : labs R2 = mkfp W3. Proof. apply fp_eq. vm_compute. reflexivity. Qed.
Lemma R2_valid : lvalid R2. Proof. unfold lvalid, R2, lwf, lval, wf64, W2, W. cbn. split; [lia|reflexivity]. Qed.
Lemma to_mont_correct r : lvalid r -> lvalid (gl_mul r R2) /\ labs (gl_mul r R2) = mkfp (lval r).
Proof.
  intros Hr. destruct (lmul_correct r R2 Hr R2_valid) as (V & E). unfold lmul in *. split; [exact V|].
  rewrite E, labs_R2. unfold labs, fmul. rewrite !val_mkfp. apply mkfp_eq_iff.
  rewrite <- Zmult_mod. replace (lval r * mont_rinv * W3) with (lval r * W3 * mont_rinv) by ring. apply W3_rinv_cancel.
Qed.
Theorem lfrom_canon_correct r : lwf r ->
  match lfrom_canon r with
  | Some t => lval r < p /\ lvalid t /\ labs t = mkfp (lval r)
  | None => p <= lval r
  end.
Proof.
  intros Hr. pose proof Hr as Hr'. destruct r as [[r0 r1] r2]. destruct Hr' as (A0 & A1 & A2).
  cbv beta iota zeta delta [lfrom_canon LM MODULUS_LIMBS].
  destruct (sbb r0 12451 0) as [l0 b0] eqn:E0. apply sbb_spec in E0; try wfs; [|apply bw_ok_0]. destruct E0 as (E0 & L0 & B0).
  destruct (sbb r1 0 b0) as [l1 b1] eqn:E1. apply sbb_spec in E1; try wfs. destruct E1 as (E1 & L1 & B1).
  destruct (sbb r2 1 b1) as [l2 b2] eqn:E2. apply sbb_spec in E2; try wfs. destruct E2 as (E2 & L2 & B2).
  assert (Hb : bw_bit b2 = if lval (r0, r1, r2) <? p then 1 else 0).
  { unfold bw_bit in *. replace (0 =? 0) with true in E0 by reflexivity.
    destruct (Z.ltb_spec (lval (r0, r1, r2)) p); destruct (b0 =? 0), (b1 =? 0), (b2 =? 0);
      unfold lval, p, Params.modulus, wf64, W2, W in *; lia. }
  destruct B2 as [-> | ->].
  - change (Z.land (0 mod 256) 1 =? 1) with false. cbv iota.
    unfold bw_bit in Hb. change (0 =? 0) with true in Hb. destruct (Z.ltb_spec (lval (r0, r1, r2)) p); [discriminate Hb|assumption].
  - change (Z.land ((W - 1) mod 256) 1 =? 1) with true. cbv iota.
    unfold bw_bit in Hb. change (W - 1 =? 0) with false in Hb.
    destruct (Z.ltb_spec (lval (r0, r1, r2)) p) as [Hlt | Hge]; [|discriminate Hb].
    split; [exact Hlt|]. apply to_mont_correct. split; assumption.
Qed.
Corollary lfrom_u64_correct v : wf64 v -> lvalid (lfrom_u64 v) /\ labs (lfrom_u64 v) = mkfp v.
Proof.
  intros Hv. assert (Hval : lvalid (v, 0, 0)).
  { split; [unfold lwf, wf64, W in *; lia|]. unfold lval, p, Params.modulus, wf64, W in *. lia. }
  destruct (to_mont_correct (v, 0, 0) Hval) as (V & E). split; [exact V|]. unfold lfrom_u64. rewrite E.
  f_equal. unfold lval. ring.
Qed.
Theorem lrandom_round_correct w0 w1 w2 t : wf64 w0 -> wf64 w1 -> wf64 w2 ->
  lrandom_round w0 w1 w2 = Some t -> lvalid t /\ t = (w0, w1, Z.land w2 1).
Proof.
  intros H0 H1 H2. unfold lrandom_round, LM. change (shr64 (W - 1) GEN_REPR_SHAVE_BITS) with 1.
  assert (Hw : lwf (w0, w1, Z.land w2 1)).
  { unfold lwf. repeat split; try apply H0; try apply H1.
    - apply Z.land_nonneg. right. lia.
    - change 1 with (Z.ones 1). rewrite Z.land_ones by lia. pose proof (Z.mod_pos_bound w2 (2 ^ 1) ltac:(lia)). unfold W. change (2 ^ 1) with 2 in *. lia. }
  rewrite (is_valid_spec _ Hw). destruct (Z.ltb_spec (lval (w0, w1, Z.land w2 1)) p) as [Hlt | Hge]; [|discriminate].
  intros E. injection E as <-. split; [split; assumption|reflexivity].
Qed.

(* ---------- the constants the macro computed ---------- *)
Theorem limb_constants :
  lval R = W3 mod p /\ lval R2 = (W3 * W3) mod p /\ (INV * 12451 + 1) mod W = 0 /\
  lvalid TWO_INV /\ labs TWO_INV = f_two_inv /\ lvalid GENERATOR /\ labs GENERATOR = f_gen /\
  lvalid ROOT_OF_UNITY /\ labs ROOT_OF_UNITY = f_rou /\ lvalid ROOT_OF_UNITY_INV /\ labs ROOT_OF_UNITY_INV = f_rou_inv /\
  lvalid DELTA /\ labs DELTA = f_delta /\ GEN_S = f_S /\ GEN_MODULUS_BITS = f_num_bits /\
  lval MODULUS_LIMBS = Params.modulus /\ Params.fp_limbs = 3%nat.
Proof.
  assert (V : forall c : limbs, (let '(c0, c1, c2) := c in
             (0 <=? c0) && (c0 <? W) && (0 <=? c1) && (c1 <? W) && (0 <=? c2) && (c2 <? W) && (lval c <? p)) = true -> lvalid c).
  { intros [[c0 c1] c2]. rewrite !andb_true_iff, !Z.leb_le, !Z.ltb_lt. unfold lvalid, lwf, wf64. tauto. }
  repeat match goal with |- _ /\ _ => split; [first [reflexivity | (apply V; vm_compute; reflexivity) | (apply fp_eq; vm_compute; reflexivity)]|] end.
  reflexivity.
Qed.

(* ---------- pow_vartime (ff::Field's square-and-multiply over u64 exponent words) ---------- *)
Fixpoint pow_word_fp (x : fp) (e : Z) (i : nat) (u : fp) : fp :=
  match i with
  | O => u
  | S i' => let u := fsquare u in
            let u := if Z.testbit e (Z.of_nat i') then fmul u x else u in
            pow_word_fp x e i' u
  end.
Lemma pow_word_sim a e : lvalid a -> forall i res, lvalid res ->
  lvalid (pow_word a e i res) /\ labs (pow_word a e i res) = pow_word_fp (labs a) e i (labs res).
Proof.
  intros Ha. induction i as [|i IH]; intros res Hr; cbn [pow_word pow_word_fp]; [split; [exact Hr|reflexivity]|].
  destruct (lsquare_correct res Hr) as (V1 & E1). unfold lsquare in *.
  destruct (Z.testbit e (Z.of_nat i)).
  - destruct (lmul_correct (gl_square res) a V1 Ha) as (V2 & E2). unfold lmul in *.
    destruct (IH _ V2) as (V3 & E3). split; [exact V3|]. rewrite E3, E2, E1. reflexivity.
  - destruct (IH _ V1) as (V3 & E3). split; [exact V3|]. rewrite E3, E1. reflexivity.
Qed.
Lemma mod_pow2_succ e n : 0 <= n -> e mod 2 ^ (n + 1) = e mod 2 ^ n + 2 ^ n * Z.b2z (Z.testbit e n).
Proof.
  intros Hn. rewrite Z.pow_add_r by lia. change (2 ^ 1) with 2.
  rewrite Z.rem_mul_r by (try apply Z.pow_nonzero; lia). rewrite Z.testbit_spec' by lia. reflexivity.
Qed.
Lemma pow_word_fp_spec x e : forall i k, 0 <= k ->
  pow_word_fp x e i (fpow x k) = fpow x (k * 2 ^ Z.of_nat i + e mod 2 ^ Z.of_nat i).
Proof.
  induction i as [|i IH]; intros k Hk.
  - cbn [pow_word_fp]. change (2 ^ Z.of_nat 0) with 1. rewrite Z.mod_1_r. f_equal. ring.
  - cbn [pow_word_fp]. rewrite Nat2Z.inj_succ, <- Z.add_1_r.
    rewrite (mod_pow2_succ e (Z.of_nat i)) by lia. rewrite Z.pow_add_r by lia. change (2 ^ 1) with 2.
    assert (Hsq : fsquare (fpow x k) = fpow x (2 * k)).
    { replace (2 * k) with (k + k) by ring. rewrite fpow_add by lia. reflexivity. }
    rewrite Hsq. destruct (Z.testbit e (Z.of_nat i)); cbn [Z.b2z].
    + assert (Hm : fmul (fpow x (2 * k)) x = fpow x (2 * k + 1)).
      { rewrite fpow_add by lia. rewrite fpow_1. reflexivity. }
      rewrite Hm, IH by lia. f_equal. ring.
    + rewrite IH by lia. f_equal. ring.
Qed.
Lemma fold_left_rev_fr {A B} (g : A -> B -> A) l i : fold_left g (rev l) i = fold_right (fun x acc => g acc x) i l.
Proof.
  induction l as [|x l IH]; cbn [rev fold_right]; [reflexivity|]. rewrite fold_left_app. cbn [fold_left]. rewrite IH. reflexivity.
Qed.
Definition words_val (exp : list Z) : Z := fold_right (fun e acc => e + W * acc) 0 exp.
Theorem lpow_vartime_correct a exp : lvalid a -> Forall wf64 exp ->
  lvalid (lpow_vartime a exp) /\ labs (lpow_vartime a exp) = fpow (labs a) (words_val exp).
Proof.
  intros Ha Hexp. unfold lpow_vartime. rewrite fold_left_rev_fr.
  assert (G : lvalid (fold_right (fun e res => pow_word a e 64 res) lone exp) /\ 0 <= words_val exp /\
              labs (fold_right (fun e res => pow_word a e 64 res) lone exp) = fpow (labs a) (words_val exp)).
  { induction Hexp as [|e l He Hl IH]; cbn [fold_right words_val].
    - split; [exact lone_valid|]. split; [lia|]. rewrite labs_lone. symmetry. apply fpow_0.
    - destruct IH as (V & Hnn & E). fold (words_val l) in *.
      destruct (pow_word_sim a e Ha 64 _ V) as (V2 & E2). split; [exact V2|].
      split; [unfold wf64, W in *; lia|].
      rewrite E2, E, pow_word_fp_spec by exact Hnn. f_equal.
      change (2 ^ Z.of_nat 64) with W. rewrite Z.mod_small by exact He. ring. }
  destruct G as (V & _ & E). split; assumption.
Qed.
