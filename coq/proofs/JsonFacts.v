(* The JSON forms of points and evaluations: parsing what is written gives the value back. *)
From Coq Require Import ZArith NArith Arith Bool List Lia.
Import ListNotations.
Require Import ZifyN ZifyBool.
Ltac Zify.zify_post_hook ::= Z.div_mod_to_equations.
From StarV Require Import Params Bytes Fp Wasm Ppoprf BytesFacts WasmFacts PpFacts.

Lemma strip_prefix_app p s : strip_prefix p (p ++ s) = Some s.
Proof. induction p as [|a p IH]; cbn [strip_prefix app]; [reflexivity|]. rewrite N.eqb_refl. exact IH. Qed.

Lemma is_digit_digit k : (k < 10)%N -> is_digit (digit k) = true.
Proof. intros H. unfold is_digit, digit. apply andb_true_intro. split; apply N.leb_le; lia. Qed.

Lemma parse_u8_dec n d rest : (n < 256)%N -> is_digit d = false ->
  parse_u8 (dec_u8 n ++ d :: rest) = Some (n, d :: rest).
Proof.
  intros Hn Hd. unfold dec_u8.
  destruct (n <? 10)%N eqn:E1; [apply N.ltb_lt in E1|apply N.ltb_ge in E1].
  - cbn [app parse_u8]. rewrite is_digit_digit by exact E1. rewrite Hd. unfold digit. f_equal. f_equal. lia.
  - destruct (n <? 100)%N eqn:E2; [apply N.ltb_lt in E2|apply N.ltb_ge in E2].
    + cbn [app parse_u8].
      assert (H1 : (n / 10 < 10)%N) by lia. assert (H2 : (n mod 10 < 10)%N) by lia.
      rewrite !is_digit_digit by assumption.
      replace (N.eqb (digit (n / 10)) 48) with false by (symmetry; apply N.eqb_neq; unfold digit; lia).
      rewrite Hd. unfold digit. f_equal. f_equal. lia.
    + cbn [app parse_u8].
      assert (H1 : (n / 100 < 10)%N) by lia. assert (H2 : ((n / 10) mod 10 < 10)%N) by lia. assert (H3 : (n mod 10 < 10)%N) by lia.
      rewrite !is_digit_digit by assumption.
      replace (N.eqb (digit (n / 100)) 48) with false by (symmetry; apply N.eqb_neq; unfold digit; lia).
      rewrite Hd.
      assert (Hv : ((digit (n / 100) - 48) * 100 + (digit (n / 10 mod 10) - 48) * 10 + (digit (n mod 10) - 48) = n)%N) by (unfold digit; lia).
      rewrite Hv. replace (n <? 256)%N with true by (symmetry; apply N.ltb_lt; exact Hn). reflexivity.
Qed.

Lemma parse_nums_SS n s : parse_nums (S (S n)) s =
  match parse_u8 s with
  | Some (v, c :: rest) => if N.eqb c 44 then
                             match parse_nums (S n) rest with Some (vs, r) => Some (v :: vs, r) | None => None end
                           else None
  | _ => None
  end.
Proof. reflexivity. Qed.

Lemma parse_nums_json : forall l d rest, l <> [] -> wf l -> is_digit d = false -> d <> 44%N ->
  parse_nums (length l) (json_nums l ++ d :: rest) = Some (l, d :: rest).
Proof.
  induction l as [|a l IH]; intros d rest Hne Hwf Hd Hc; [congruence|].
  inversion Hwf as [|? ? Ha Hl]; subst. destruct l as [|b l].
  - cbn [length json_nums parse_nums]. rewrite parse_u8_dec by assumption. reflexivity.
  - change (json_nums (a :: b :: l)) with (dec_u8 a ++ 44%N :: json_nums (b :: l)).
    change (length (a :: b :: l)) with (S (S (length l))).
    rewrite parse_nums_SS. rewrite <- app_assoc. cbn [app].
    rewrite parse_u8_dec by (try exact Ha; reflexivity). rewrite N.eqb_refl.
    change (S (length l)) with (length (b :: l)). rewrite IH by (try assumption; discriminate). reflexivity.
Qed.

Lemma parse_array_json l rest : length l = 32%nat -> wf l -> parse_array32 (json_array l ++ rest) = Some (l, rest).
Proof.
  intros Hl Hwf. unfold json_array, parse_array32. cbn [app]. rewrite N.eqb_refl. rewrite <- app_assoc. cbn [app].
  rewrite <- Hl. rewrite parse_nums_json; [rewrite N.eqb_refl; reflexivity| |exact Hwf|reflexivity|discriminate].
  intro E. rewrite E in Hl. discriminate.
Qed.

Theorem json_point_roundtrip l : length l = 32%nat -> wf l -> json_point_decode (json_array l) = Some l.
Proof.
  intros Hl Hwf. unfold json_point_decode. rewrite <- (app_nil_r (json_array l)). rewrite parse_array_json by assumption. reflexivity.
Qed.

Lemma b64_encode_length : forall l, length (b64_encode l) = (4 * ((length l + 2) / 3))%nat.
Proof.
  apply (list_ind3 (fun l => length (b64_encode l) = (4 * ((length l + 2) / 3))%nat)); intros; cbn [b64_encode length]; try reflexivity.
  rewrite H. replace (S (S (S (length l))) + 2)%nat with (length l + 2 + 1 * 3)%nat by lia.
  rewrite Nat.div_add by lia. lia.
Qed.

Theorem json_evaluation_roundtrip (out : bytes) (pr : option proof) :
  length out = 32%nat -> wf out ->
  match pr with Some p => (0 <= pr_c p < ell)%Z /\ (0 <= pr_s p < ell)%Z | None => True end ->
  json_evaluation_decode (json_evaluation out pr) = Some (out, pr).
Proof.
  intros Hl Hwf Hp. unfold json_evaluation_decode, json_evaluation.
  rewrite strip_prefix_app.
  assert (H44 : length (b64_encode out) = 44%nat) by (rewrite b64_encode_length, Hl; reflexivity).
  rewrite (firstn_app_len 44) by exact H44. rewrite (skipn_app_len 44) by exact H44.
  rewrite b64_roundtrip by exact Hwf. rewrite strip_prefix_app. rewrite Hl. cbn [Nat.eqb negb].
  destruct pr as [p|].
  - destruct Hp as [Hc Hs].
    change (strip_prefix js_null ((js_c ++ json_array (sc_to_bytes (pr_c p)) ++ js_s ++ json_array (sc_to_bytes (pr_s p)) ++ [125%N]) ++ [125%N])) with (@None bytes).
    rewrite <- !app_assoc. rewrite strip_prefix_app.
    rewrite parse_array_json by (try apply sc_to_bytes_len; apply wf_bytes_of_le).
    rewrite strip_prefix_app.
    rewrite parse_array_json by (try apply sc_to_bytes_len; apply wf_bytes_of_le).
    cbn [app]. change (bytes_eqb [125%N; 125%N] [125%N; 125%N]) with true. cbv iota.
    rewrite !sc_canonical_to_bytes by assumption. destruct p; reflexivity.
  - cbn [app]. rewrite strip_prefix_app. reflexivity.
Qed.
