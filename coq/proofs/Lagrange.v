(* Root bound and Lagrange interpolation at zero for the code-shaped sum of products,
   over any field (field_theory with Leibniz equality and a boolean equality test). *)
From Coq Require Import List Lia Field Ring Bool.
Import ListNotations.
From StarV Require Import PolyDefs.

Section Poly.
Variable F : Type.
Variables (f0 f1 : F) (fadd fmul fsub : F -> F -> F) (fopp : F -> F) (fdiv : F -> F -> F) (finv : F -> F).
Variable feqb : F -> F -> bool.
Hypothesis Fth : field_theory f0 f1 fadd fmul fsub fopp fdiv finv (@eq F).
Hypothesis feqb_spec : forall a b, feqb a b = true <-> a = b.
Add Field FF : Fth.
Notation "0" := f0. Notation "1" := f1.
Infix "+" := fadd. Infix "*" := fmul. Infix "-" := fsub.

Definition eq_dec (a b : F) : {a = b} + {a <> b}.
Proof.
  destruct (feqb a b) eqn:E; [left; apply feqb_spec; exact E|right].
  intro H. apply feqb_spec in H. congruence.
Defined.

Notation peval := (PolyDefs.peval F f0 fadd fmul).
Notation horner := (PolyDefs.horner F f0 fadd fmul).
Notation others := (PolyDefs.others F feqb).
Notation basis0 := (PolyDefs.basis0 F f1 fmul fsub finv).
Notation interp0 := (PolyDefs.interp0 F f0 f1 fadd fmul fsub finv feqb).
Notation interp_pairs := (PolyDefs.interp_pairs F f0 f1 fadd fmul fsub finv feqb).
Lemma integral a b : a * b = 0 -> a = 0 \/ b = 0.
Proof.
  intros H. destruct (eq_dec a 0) as [Ha|Ha]; [left; exact Ha|right].
  assert (Hb : b = finv a * (a * b)) by (field; exact Ha).
  rewrite H in Hb. rewrite Hb. ring.
Qed.


Fixpoint pdiv (cs : list F) (r : F) : list F * F :=
  match cs with
  | [] => ([], 0)
  | c :: cs' =>
      match cs' with
      | [] => ([], c)
      | _ => let '(q, rem) := pdiv cs' r in (rem :: q, c + r * rem)
      end
  end.

Lemma pdiv_spec cs r : forall q rem, pdiv cs r = (q, rem) ->
  (forall x, peval cs x = (x - r) * peval q x + rem) /\ length q = pred (length cs).
Proof.
  induction cs as [|c cs' IH]; intros q rem Hd.
  - cbn in Hd. injection Hd as <- <-. split; [intros x; unfold PolyDefs.peval; cbn [fold_right]; ring|reflexivity].
  - destruct cs' as [|c' cs''].
    + cbn in Hd. injection Hd as <- <-. split; [intros x; unfold PolyDefs.peval; cbn [fold_right]; ring|reflexivity].
    + change (pdiv (c :: c' :: cs'') r) with (let '(q, rem) := pdiv (c' :: cs'') r in (rem :: q, c + r * rem)) in Hd.
      destruct (pdiv (c' :: cs'') r) as [q' rem'] eqn:E.
      injection Hd as <- <-. destruct (IH q' rem' eq_refl) as [Hev Hlen].
      split.
      * intros x. change (peval (c :: c' :: cs'') x) with (c + x * peval (c' :: cs'') x).
        rewrite Hev. change (peval (rem' :: q') x) with (rem' + x * peval q' x). ring.
      * cbn [length] in *. lia.
Qed.

Theorem root_bound : forall n cs rs,
  length cs <= n -> NoDup rs -> n <= length rs ->
  (forall r, In r rs -> peval cs r = 0) -> forall x, peval cs x = 0.
Proof.
  induction n as [|n IH]; intros cs rs Hlen Hnd Hrs Hroots x.
  - destruct cs; [reflexivity|cbn in Hlen; lia].
  - destruct rs as [|r rs']; [cbn in Hrs; lia|].
    destruct cs as [|c cs']; [reflexivity|].
    destruct (pdiv (c :: cs') r) as [q rem] eqn:E.
    destruct (pdiv_spec _ _ _ _ E) as [Hev Hql].
    assert (Hrem : rem = 0).
    { pose proof (Hroots r (or_introl eq_refl)) as Hr. rewrite Hev in Hr.
      rewrite <- Hr. ring. }
    apply NoDup_cons_iff in Hnd. destruct Hnd as [Hnotin Hnd']. rewrite Hrem in Hev. clear Hrem.
    assert (Hq : forall y, peval q y = 0).
    { apply (IH q rs'); [cbn [length] in *; lia|exact Hnd'|cbn [length] in Hrs; lia|].
      intros r' Hin. pose proof (Hroots r' (or_intror Hin)) as Hr'. rewrite Hev in Hr'.
      assert (Hprod : (r' - r) * peval q r' = 0) by (transitivity ((r' - r) * peval q r' + 0); [ring|exact Hr']).
      apply integral in Hprod. destruct Hprod as [Hz|Hz]; [|exact Hz].
      exfalso. apply Hnotin. assert (r' = r) by (transitivity ((r' - r) + r); [ring|rewrite Hz; ring]).
      subst. exact Hin. }
    rewrite Hev, Hq. ring.
Qed.

(* ---------- polynomial operations on coefficient lists (lowest degree first) ---------- *)
Fixpoint padd (a b : list F) : list F :=
  match a, b with
  | [], _ => b
  | _, [] => a
  | x :: a', y :: b' => (x + y) :: padd a' b'
  end.
Definition pscale (c : F) (a : list F) : list F := map (fun x => c * x) a.
(* (X - r) * a *)
Definition pmulx (r : F) (a : list F) : list F := padd (0 :: a) (pscale (fopp r) a).

Lemma peval_cons c cs x : peval (c :: cs) x = c + x * peval cs x.
Proof. reflexivity. Qed.
Lemma peval_nil x : peval [] x = 0.
Proof. reflexivity. Qed.

Lemma peval_padd a b x : peval (padd a b) x = peval a x + peval b x.
Proof.
  revert b. induction a as [|c a IH]; intros b.
  - cbn [padd]. rewrite peval_nil. ring.
  - destruct b as [|d b]; cbn [padd].
    + rewrite peval_nil. ring.
    + rewrite !peval_cons, IH. ring.
Qed.
Lemma peval_pscale c a x : peval (pscale c a) x = c * peval a x.
Proof.
  induction a as [|d a IH]; unfold pscale in *; cbn [map].
  - rewrite !peval_nil. ring.
  - rewrite !peval_cons, IH. ring.
Qed.
Lemma peval_pmulx r a x : peval (pmulx r a) x = (x - r) * peval a x.
Proof. unfold pmulx. rewrite peval_padd, peval_cons, peval_pscale. ring. Qed.

Lemma length_padd a b : length (padd a b) = Nat.max (length a) (length b).
Proof.
  revert b. induction a as [|c a IH]; intros b; [reflexivity|].
  destruct b as [|d b]; cbn [padd length]; [lia|]. rewrite IH. lia.
Qed.
Lemma length_pscale c a : length (pscale c a) = length a.
Proof. unfold pscale. apply map_length. Qed.
Lemma length_pmulx r a : length (pmulx r a) = S (length a).
Proof. unfold pmulx. rewrite length_padd, length_pscale. cbn [length]. lia. Qed.

(* ---------- Lagrange ---------- *)

(* numerator polynomial  prod_{b in l} (X - b) *)
Definition numer (l : list F) : list F := fold_right pmulx [1] l.
(* weight  prod_{b in l} inv (a - b) *)
Definition weight (a : F) (l : list F) : F := fold_right (fun b acc => finv (a - b) * acc) 1 l.

Lemma peval_numer l x : peval (numer l) x = fold_right (fun b acc => (x - b) * acc) 1 l.
Proof.
  induction l as [|b l IH]; unfold numer in *; cbn [fold_right].
  - rewrite peval_cons, peval_nil. ring.
  - rewrite peval_pmulx, IH. reflexivity.
Qed.
Lemma length_numer l : length (numer l) = S (length l).
Proof. induction l as [|b l IH]; unfold numer in *; cbn [fold_right length]; [reflexivity|]. rewrite length_pmulx, IH. reflexivity. Qed.

Lemma fold_left_mul_acc (g : F -> F) l acc :
  fold_left (fun acc b => acc * g b) l acc = acc * fold_right (fun b r => g b * r) 1 l.
Proof.
  revert acc. induction l as [|b l IH]; intros acc; cbn [fold_left fold_right]; [ring|].
  rewrite IH. ring.
Qed.
Lemma fold_left_add_acc (g : F -> F) l acc :
  fold_left (fun acc b => acc + g b) l acc = acc + fold_right (fun b r => g b + r) 0 l.
Proof.
  revert acc. induction l as [|b l IH]; intros acc; cbn [fold_left fold_right]; [ring|].
  rewrite IH. ring.
Qed.

(* l_a(x) = weight * numer ; value at 0 equals the code's basis0 *)
Lemma ne_sub a b : b <> a -> b - a <> 0 /\ a - b <> 0.
Proof.
  intros Hb. split; intro Hz; apply Hb.
  - transitivity ((b - a) + a); [ring|rewrite Hz; ring].
  - symmetry. transitivity ((a - b) + b); [ring|rewrite Hz; ring].
Qed.
Lemma basis0_aux a l : (forall b, In b l -> b <> a) ->
  fold_right (fun b r => (b * finv (b - a)) * r) 1 l =
  weight a l * fold_right (fun b acc => (0 - b) * acc) 1 l.
Proof.
  intros Hne. induction l as [|b l IH]; unfold weight in *; cbn [fold_right]; [ring|].
  rewrite IH by (intros c Hc; apply Hne; right; exact Hc).
  destruct (ne_sub a b (Hne b (or_introl eq_refl))) as [H1 H2].
  field. split; assumption.
Qed.
Lemma basis0_spec a l : (forall b, In b l -> b <> a) ->
  basis0 a l = weight a l * peval (numer l) 0.
Proof.
  intros Hne. unfold PolyDefs.basis0. rewrite (fold_left_mul_acc (fun b => b * finv (b - a))).
  rewrite peval_numer, basis0_aux by exact Hne. ring.
Qed.

Lemma eqb_spec a b : feqb a b = true <-> a = b.
Proof. apply feqb_spec. Qed.
Lemma in_others pts a b : In b (others pts a) <-> In b pts /\ b <> a.
Proof.
  unfold PolyDefs.others. rewrite filter_In. split; intros [H1 H2]; split; try exact H1.
  - intro E. apply eqb_spec in E. rewrite E in H2. discriminate.
  - destruct (feqb b a) eqn:E; [apply eqb_spec in E; contradiction|reflexivity].
Qed.
Lemma length_others pts a : NoDup pts -> In a pts -> S (length (others pts a)) = length pts.
Proof.
  intros Hnd. induction Hnd as [|c pts Hnotin Hnd IH]; intros Hin; [destruct Hin|].
  unfold PolyDefs.others in *. cbn [filter length].
  destruct (feqb c a) eqn:E; cbn [negb].
  - apply eqb_spec in E. subst c. f_equal.
    assert (Hall : forall l, ~ In a l -> filter (fun b => negb (feqb b a)) l = l).
    { induction l as [|d l IHl]; intros Hn; [reflexivity|]. cbn [filter].
      destruct (feqb d a) eqn:E2; [apply eqb_spec in E2; subst; exfalso; apply Hn; left; reflexivity|].
      cbn [negb]. f_equal. apply IHl. intro H; apply Hn; right; exact H. }
    rewrite Hall by exact Hnotin. reflexivity.
  - cbn [length]. f_equal. apply IH. destruct Hin as [Hin|Hin]; [|exact Hin].
    subst c. assert (feqb a a = true) by (apply eqb_spec; reflexivity). congruence.
Qed.

Section Interp.
Variable pts : list F.
Hypothesis Hnd : NoDup pts.
Variable y : F -> F.

Definition ell (a x : F) : F := weight a (others pts a) * peval (numer (others pts a)) x.

Lemma prod_self a l : (forall b, In b l -> b <> a) ->
  weight a l * fold_right (fun b acc => (a - b) * acc) 1 l = 1.
Proof.
  intros Hne. induction l as [|b l IH]; unfold weight in *; cbn [fold_right]; [ring|].
  destruct (ne_sub a b (Hne b (or_introl eq_refl))) as [H1 H2].
  transitivity (fold_right (fun b0 acc => finv (a - b0) * acc) 1 l * fold_right (fun b0 acc => (a - b0) * acc) 1 l).
  - field. exact H2.
  - apply IH. intros c Hc. apply Hne. right. exact Hc.
Qed.
Lemma prod_zero c l : In c l -> fold_right (fun b acc => (c - b) * acc) 1 l = 0.
Proof.
  induction l as [|b l IH]; intros Hin; [destruct Hin|]. cbn [fold_right].
  destruct Hin as [Hin|Hin]; [subst; ring|rewrite IH by exact Hin; ring].
Qed.
Lemma ell_self a : ell a a = 1.
Proof. unfold ell. rewrite peval_numer. apply prod_self. intros b Hb. apply in_others in Hb. tauto. Qed.
Lemma ell_other a c : In c pts -> c <> a -> ell a c = 0.
Proof.
  intros Hc Hne. unfold ell. rewrite peval_numer, prod_zero; [ring|]. apply in_others. tauto.
Qed.

Definition Lpoly (l : list F) : list F :=
  fold_right (fun a acc => padd (pscale (y a * weight a (others pts a)) (numer (others pts a))) acc) [] l.

Lemma peval_Lpoly l x : peval (Lpoly l) x = fold_right (fun a r => y a * ell a x + r) 0 l.
Proof.
  induction l as [|a l IH]; unfold Lpoly in *; cbn [fold_right]; [reflexivity|].
  rewrite peval_padd, peval_pscale, IH. unfold ell. ring.
Qed.
Lemma length_Lpoly l : incl l pts -> length (Lpoly l) <= length pts.
Proof.
  induction l as [|a l IH]; intros Hincl; unfold Lpoly in *; cbn [fold_right]; [cbn; lia|].
  rewrite length_padd, length_pscale, length_numer.
  rewrite (length_others pts a Hnd) by (apply Hincl; left; reflexivity).
  assert (length (fold_right (fun a acc => padd (pscale (y a * weight a (others pts a)) (numer (others pts a))) acc) [] l) <= length pts)
    by (apply IH; intros c Hc; apply Hincl; right; exact Hc).
  lia.
Qed.
Lemma sum_at c l : In c pts -> NoDup l -> incl l pts ->
  fold_right (fun a r => y a * ell a c + r) 0 l = if in_dec eq_dec c l then y c else 0.
Proof.
  intros Hc Hndl Hincl. induction Hndl as [|a l Hnotin Hndl IH]; cbn [fold_right]; [reflexivity|].
  rewrite IH by (intros d Hd; apply Hincl; right; exact Hd).
  destruct (in_dec eq_dec c (a :: l)) as [Hin|Hnin]; destruct (in_dec eq_dec c l) as [Hin'|Hnin'].
  - destruct Hin as [Hin|Hin]; [subst; contradiction|]. 
    assert (c <> a) by (intro; subst; contradiction). rewrite ell_other by assumption. ring.
  - destruct Hin as [Hin|Hin]; [|contradiction]. subst. rewrite ell_self. ring.
  - exfalso. apply Hnin. right. exact Hin'.
  - assert (c <> a) by (intro; subst; apply Hnin; left; reflexivity). rewrite ell_other by assumption. ring.
Qed.
End Interp.

Theorem lagrange_at_zero pts cs : NoDup pts -> length cs <= length pts ->
  interp0 pts (peval cs) = peval cs 0.
Proof.
  intros Hnd Hlen.
  pose (D := padd (Lpoly pts (peval cs) pts) (pscale (fopp 1) cs)).
  assert (HD : forall x, peval D x = 0).
  { apply (root_bound (length pts) D pts); [|exact Hnd|lia|].
    - unfold D. rewrite length_padd, length_pscale.
      pose proof (length_Lpoly pts Hnd (peval cs) pts (incl_refl _)). lia.
    - intros c Hc. unfold D. rewrite peval_padd, peval_pscale, peval_Lpoly.
      rewrite (sum_at pts (peval cs) c pts Hc Hnd (incl_refl _)).
      destruct (in_dec eq_dec c pts); [ring|contradiction]. }
  pose proof (HD 0) as H0. unfold D in H0. rewrite peval_padd, peval_pscale, peval_Lpoly in H0.
  unfold PolyDefs.interp0. rewrite (fold_left_add_acc (fun a => basis0 a (others pts a) * peval cs a)).
  assert (Hsum : fold_right (fun b r => basis0 b (others pts b) * peval cs b + r) 0 pts =
                 fold_right (fun a r => peval cs a * ell pts a 0 + r) 0 pts).
  { clear H0 HD D. 
    assert (G : forall l, fold_right (fun b r => basis0 b (others pts b) * peval cs b + r) 0 l =
                          fold_right (fun a r => peval cs a * ell pts a 0 + r) 0 l).
    { induction l as [|a l IH]; cbn [fold_right]; [reflexivity|]. rewrite IH. unfold ell.
      rewrite basis0_spec by (intros b Hb; apply in_others in Hb; tauto). ring. }
    apply G. }
  rewrite Hsum. 
  transitivity (fold_right (fun a r => peval cs a * ell pts a 0 + r) 0 pts + fopp 1 * peval cs 0 + peval cs 0); [ring|].
  rewrite H0. ring.
Qed.

(* ---------- existence and uniqueness of the interpolating polynomial ---------- *)
Theorem interpolation_exists pts (y : F -> F) : NoDup pts ->
  exists cs, length cs <= length pts /\ forall a, In a pts -> peval cs a = y a.
Proof.
  intros Hnd. exists (Lpoly pts y pts). split; [apply (length_Lpoly pts Hnd y pts (incl_refl _))|].
  intros a Ha. rewrite peval_Lpoly, (sum_at pts y a pts Ha Hnd (incl_refl _)).
  destruct (in_dec eq_dec a pts); [reflexivity|contradiction].
Qed.
Theorem interpolation_unique pts cs cs' : NoDup pts -> length cs <= length pts -> length cs' <= length pts ->
  (forall a, In a pts -> peval cs a = peval cs' a) -> forall x, peval cs x = peval cs' x.
Proof.
  intros Hnd H1 H2 Heq x.
  assert (HD : forall z, peval (padd cs (pscale (fopp 1) cs')) z = 0).
  { apply (root_bound (length pts) _ pts); [rewrite length_padd, length_pscale; lia|exact Hnd|lia|].
    intros r Hr. rewrite peval_padd, peval_pscale, (Heq r Hr). ring. }
  specialize (HD x). rewrite peval_padd, peval_pscale in HD.
  transitivity (peval cs x + fopp 1 * peval cs' x + peval cs' x); [ring|rewrite HD; ring].
Qed.
(* Shamir's perfect secrecy in its algebraic form: any t-1 shares at distinct non-zero points are
   consistent with EVERY secret - for each candidate s' there is a polynomial with at most t coefficients,
   constant term s', through all of them (and it is unique as a function) *)
Theorem any_secret_consistent pts (y : F -> F) (s' : F) : NoDup pts -> ~ In 0 pts ->
  exists cs, length cs <= S (length pts) /\ peval cs 0 = s' /\ forall a, In a pts -> peval cs a = y a.
Proof.
  intros Hnd H0.
  destruct (interpolation_exists (0 :: pts) (fun a => if eq_dec a 0 then s' else y a)) as [cs [Hl Hv]].
  { constructor; assumption. }
  exists cs. split; [exact Hl|]. split.
  - rewrite (Hv 0 (or_introl eq_refl)). destruct (eq_dec 0 0); [reflexivity|congruence].
  - intros a Ha. rewrite (Hv a (or_intror Ha)). destruct (eq_dec a 0) as [->|]; [contradiction|reflexivity].
Qed.

(* Horner from the top (the code) is evaluation of the reversed coefficient list *)
Lemma horner_app cs c x : horner (cs ++ [c]) x = horner cs x * x + c.
Proof. unfold PolyDefs.horner. rewrite fold_left_app. reflexivity. Qed.
Lemma horner_rev cs x : horner cs x = peval (rev cs) x.
Proof.
  induction cs as [|c cs IH] using rev_ind; [reflexivity|].
  rewrite horner_app, rev_unit, peval_cons, <- IH. ring.
Qed.
Lemma horner_last cs s : horner (cs ++ [s]) 0 = s.
Proof. rewrite horner_app. ring. Qed.

Lemma fold_pairs_gen (g : F -> F) (y : F -> F) l acc :
  fold_left (fun acc pr => acc + g (fst pr) * snd pr) (map (fun a => (a, y a)) l) acc
  = fold_left (fun acc a => acc + g a * y a) l acc.
Proof. revert acc. induction l as [|a l IH]; intros acc; cbn [map fold_left fst snd]; [reflexivity|apply IH]. Qed.
Lemma map_fst_graph (y : F -> F) l : map fst (map (fun a => (a, y a)) l) = l.
Proof. induction l as [|a l IH]; cbn [map fst]; [reflexivity|rewrite IH; reflexivity]. Qed.
Lemma interp_pairs_map pts y : interp_pairs (map (fun a => (a, y a)) pts) = interp0 pts y.
Proof.
  unfold PolyDefs.interp_pairs, PolyDefs.interp0. rewrite map_fst_graph.
  apply (fold_pairs_gen (fun a => basis0 a (others pts a)) y pts 0).
Qed.
Lemma fold_ext_y (g y y' : F -> F) l acc : (forall a, y a = y' a) ->
  fold_left (fun acc a => acc + g a * y a) l acc = fold_left (fun acc a => acc + g a * y' a) l acc.
Proof. intros E. revert acc. induction l as [|a l IH]; intros acc; cbn [fold_left]; [reflexivity|rewrite E; apply IH]. Qed.

Theorem lagrange_horner pts cs : NoDup pts -> length cs <= length pts ->
  interp_pairs (map (fun a => (a, horner cs a)) pts) = horner cs 0.
Proof.
  intros Hnd Hlen. rewrite interp_pairs_map.
  transitivity (interp0 pts (peval (rev cs))).
  - unfold PolyDefs.interp0. apply (fold_ext_y (fun a => basis0 a (others pts a))). intros a. apply horner_rev.
  - rewrite lagrange_at_zero by (try exact Hnd; rewrite rev_length; exact Hlen). symmetry. apply horner_rev.
Qed.
End Poly.
