(* The ristretto255 group order ell = 2^252 + 27742317777372353535851937790883648493 is prime
   (Pratt certificate checked by the kernel), hence scalar inversion in the model meets its specification. *)
From Coq Require Import ZArith Znumtheory Zpow_facts List Lia Bool.
Import ListNotations.
From StarV Require Import Fp Lucas Primality Ppoprf.
Open Scope Z_scope.

Definition ell_cert : cert := (Pratt 7237005577332262213973186563042994240857116359379907606001950938285454250989 2 (CCons Two 2 (CCons (Pratt 3 2 (CCons Two 1 CNil)) 1 (CCons (Pratt 11 2 (CCons Two 1 (CCons (Pratt 5 2 (CCons Two 2 CNil)) 1 CNil))) 1 (CCons (Pratt 198211423230930754013084525763697 5 (CCons Two 4 (CCons (Pratt 3 2 (CCons Two 1 CNil)) 1 (CCons (Pratt 23 5 (CCons Two 1 (CCons (Pratt 11 2 (CCons Two 1 (CCons (Pratt 5 2 (CCons Two 2 CNil)) 1 CNil))) 1 CNil))) 1 (CCons (Pratt 58964693 2 (CCons Two 2 (CCons (Pratt 14741173 2 (CCons Two 2 (CCons (Pratt 3 2 (CCons Two 1 CNil)) 2 (CCons (Pratt 409477 2 (CCons Two 2 (CCons (Pratt 3 2 (CCons Two 1 CNil)) 1 (CCons (Pratt 34123 2 (CCons Two 1 (CCons (Pratt 3 2 (CCons Two 1 CNil)) 1 (CCons (Pratt 11 2 (CCons Two 1 (CCons (Pratt 5 2 (CCons Two 2 CNil)) 1 CNil))) 2 (CCons (Pratt 47 5 (CCons Two 1 (CCons (Pratt 23 5 (CCons Two 1 (CCons (Pratt 11 2 (CCons Two 1 (CCons (Pratt 5 2 (CCons Two 2 CNil)) 1 CNil))) 1 CNil))) 1 CNil))) 1 CNil))))) 1 CNil)))) 1 CNil)))) 1 CNil))) 1 (CCons (Pratt 3044861653679985063343 5 (CCons Two 1 (CCons (Pratt 3 2 (CCons Two 1 CNil)) 1 (CCons (Pratt 11 2 (CCons Two 1 (CCons (Pratt 5 2 (CCons Two 2 CNil)) 1 CNil))) 1 (CCons (Pratt 30703 3 (CCons Two 1 (CCons (Pratt 3 2 (CCons Two 1 CNil)) 1 (CCons (Pratt 7 3 (CCons Two 1 (CCons (Pratt 3 2 (CCons Two 1 CNil)) 1 CNil))) 1 (CCons (Pratt 17 3 (CCons Two 4 CNil)) 1 (CCons (Pratt 43 3 (CCons Two 1 (CCons (Pratt 3 2 (CCons Two 1 CNil)) 1 (CCons (Pratt 7 3 (CCons Two 1 (CCons (Pratt 3 2 (CCons Two 1 CNil)) 1 CNil))) 1 CNil)))) 1 CNil)))))) 1 (CCons (Pratt 82163 2 (CCons Two 1 (CCons (Pratt 41081 3 (CCons Two 3 (CCons (Pratt 5 2 (CCons Two 2 CNil)) 1 (CCons (Pratt 13 2 (CCons Two 2 (CCons (Pratt 3 2 (CCons Two 1 CNil)) 1 CNil))) 1 (CCons (Pratt 79 3 (CCons Two 1 (CCons (Pratt 3 2 (CCons Two 1 CNil)) 1 (CCons (Pratt 13 2 (CCons Two 2 (CCons (Pratt 3 2 (CCons Two 1 CNil)) 1 CNil))) 1 CNil)))) 1 CNil))))) 1 CNil))) 1 (CCons (Pratt 132667 5 (CCons Two 1 (CCons (Pratt 3 2 (CCons Two 1 CNil)) 1 (CCons (Pratt 22111 6 (CCons Two 1 (CCons (Pratt 3 2 (CCons Two 1 CNil)) 1 (CCons (Pratt 5 2 (CCons Two 2 CNil)) 1 (CCons (Pratt 11 2 (CCons Two 1 (CCons (Pratt 5 2 (CCons Two 2 CNil)) 1 CNil))) 1 (CCons (Pratt 67 2 (CCons Two 1 (CCons (Pratt 3 2 (CCons Two 1 CNil)) 1 (CCons (Pratt 11 2 (CCons Two 1 (CCons (Pratt 5 2 (CCons Two 2 CNil)) 1 CNil))) 1 CNil)))) 1 CNil)))))) 1 CNil)))) 1 (CCons (Pratt 137849 3 (CCons Two 3 (CCons (Pratt 17231 13 (CCons Two 1 (CCons (Pratt 5 2 (CCons Two 2 CNil)) 1 (CCons (Pratt 1723 3 (CCons Two 1 (CCons (Pratt 3 2 (CCons Two 1 CNil)) 1 (CCons (Pratt 7 3 (CCons Two 1 (CCons (Pratt 3 2 (CCons Two 1 CNil)) 1 CNil))) 1 (CCons (Pratt 41 6 (CCons Two 3 (CCons (Pratt 5 2 (CCons Two 2 CNil)) 1 CNil))) 1 CNil))))) 1 CNil)))) 1 CNil))) 1 CNil)))))))) 1 CNil)))))) 1 (CCons (Pratt 276602624281642239937218680557139826668747 2 (CCons Two 1 (CCons (Pratt 7 3 (CCons Two 1 (CCons (Pratt 3 2 (CCons Two 1 CNil)) 1 CNil))) 1 (CCons (Pratt 19757330305831588566944191468367130476339 2 (CCons Two 1 (CCons (Pratt 269 2 (CCons Two 2 (CCons (Pratt 67 2 (CCons Two 1 (CCons (Pratt 3 2 (CCons Two 1 CNil)) 1 (CCons (Pratt 11 2 (CCons Two 1 (CCons (Pratt 5 2 (CCons Two 2 CNil)) 1 CNil))) 1 CNil)))) 1 CNil))) 1 (CCons (Pratt 213441916511 13 (CCons Two 1 (CCons (Pratt 5 2 (CCons Two 2 CNil)) 1 (CCons (Pratt 73 5 (CCons Two 3 (CCons (Pratt 3 2 (CCons Two 1 CNil)) 2 CNil))) 1 (CCons (Pratt 292386187 2 (CCons Two 1 (CCons (Pratt 3 2 (CCons Two 1 CNil)) 4 (CCons (Pratt 307 5 (CCons Two 1 (CCons (Pratt 3 2 (CCons Two 1 CNil)) 2 (CCons (Pratt 17 3 (CCons Two 4 CNil)) 1 CNil)))) 1 (CCons (Pratt 5879 11 (CCons Two 1 (CCons (Pratt 2939 2 (CCons Two 1 (CCons (Pratt 13 2 (CCons Two 2 (CCons (Pratt 3 2 (CCons Two 1 CNil)) 1 CNil))) 1 (CCons (Pratt 113 3 (CCons Two 4 (CCons (Pratt 7 3 (CCons Two 1 (CCons (Pratt 3 2 (CCons Two 1 CNil)) 1 CNil))) 1 CNil))) 1 CNil)))) 1 CNil))) 1 CNil))))) 1 CNil))))) 1 (CCons (Pratt 172054593956031949258510691 2 (CCons Two 1 (CCons (Pratt 5 2 (CCons Two 2 CNil)) 1 (CCons (Pratt 1361 3 (CCons Two 4 (CCons (Pratt 5 2 (CCons Two 2 CNil)) 1 (CCons (Pratt 17 3 (CCons Two 4 CNil)) 1 CNil)))) 1 (CCons (Pratt 2851 2 (CCons Two 1 (CCons (Pratt 3 2 (CCons Two 1 CNil)) 1 (CCons (Pratt 5 2 (CCons Two 2 CNil)) 2 (CCons (Pratt 19 2 (CCons Two 1 (CCons (Pratt 3 2 (CCons Two 1 CNil)) 2 CNil))) 1 CNil))))) 1 (CCons (Pratt 4434155615661930479 17 (CCons Two 1 (CCons (Pratt 41 6 (CCons Two 3 (CCons (Pratt 5 2 (CCons Two 2 CNil)) 1 CNil))) 1 (CCons (Pratt 43 3 (CCons Two 1 (CCons (Pratt 3 2 (CCons Two 1 CNil)) 1 (CCons (Pratt 7 3 (CCons Two 1 (CCons (Pratt 3 2 (CCons Two 1 CNil)) 1 CNil))) 1 CNil)))) 1 (CCons (Pratt 1257559732178653 2 (CCons Two 2 (CCons (Pratt 3 2 (CCons Two 1 CNil)) 1 (CCons (Pratt 7 3 (CCons Two 1 (CCons (Pratt 3 2 (CCons Two 1 CNil)) 1 CNil))) 1 (CCons (Pratt 23 5 (CCons Two 1 (CCons (Pratt 11 2 (CCons Two 1 (CCons (Pratt 5 2 (CCons Two 2 CNil)) 1 CNil))) 1 CNil))) 1 (CCons (Pratt 531581 2 (CCons Two 2 (CCons (Pratt 5 2 (CCons Two 2 CNil)) 1 (CCons (Pratt 7 3 (CCons Two 1 (CCons (Pratt 3 2 (CCons Two 1 CNil)) 1 CNil))) 1 (CCons (Pratt 3797 2 (CCons Two 2 (CCons (Pratt 13 2 (CCons Two 2 (CCons (Pratt 3 2 (CCons Two 1 CNil)) 1 CNil))) 1 (CCons (Pratt 73 5 (CCons Two 3 (CCons (Pratt 3 2 (CCons Two 1 CNil)) 2 CNil))) 1 CNil)))) 1 CNil))))) 1 (CCons (Pratt 1224481 13 (CCons Two 5 (CCons (Pratt 3 2 (CCons Two 1 CNil)) 1 (CCons (Pratt 5 2 (CCons Two 2 CNil)) 1 (CCons (Pratt 2551 6 (CCons Two 1 (CCons (Pratt 3 2 (CCons Two 1 CNil)) 1 (CCons (Pratt 5 2 (CCons Two 2 CNil)) 2 (CCons (Pratt 17 3 (CCons Two 4 CNil)) 1 CNil))))) 1 CNil))))) 1 CNil))))))) 1 CNil))))) 1 CNil)))))) 1 CNil))))) 1 CNil)))) 1 CNil)))))).

Lemma ell_cert_num : cnum ell_cert = ell.
Proof. reflexivity. Qed.
Lemma ell_cert_ok : check ell_cert = true.
Proof. vm_compute. reflexivity. Qed.
Theorem ell_prime : prime ell.
Proof. rewrite <- ell_cert_num. apply check_sound. exact ell_cert_ok. Qed.

(* Fermat for any modulus with a valid certificate *)
Lemma check_all_facts : forall fs n a, check_all n a fs = true ->
  (forall x, In x (cnums fs) -> prime x) /\ (forall x, In x (cnums fs) -> powmod a ((n - 1) / x) n <> 1).
Proof.
  induction fs as [|c e tl IH]; intros n a H; cbn [check_all cnums] in *.
  - split; intros x [].
  - apply andb_prop in H. destruct H as [H Htl]. apply andb_prop in H. destruct H as [Hc Hne].
    apply negb_true_iff in Hne. apply Z.eqb_neq in Hne. destruct (IH n a Htl) as [Hp Hn].
    split; intros x [Hx|Hx]; subst; auto. apply check_sound. exact Hc.
Qed.
Theorem cert_fermat n a fs : check (Pratt n a fs) = true -> forall k, 1 <= k < n -> k ^ (n - 1) mod n = 1.
Proof.
  intros Hc k Hk. cbn [check] in Hc.
  apply andb_prop in Hc. destruct Hc as [Hc Hall]. apply andb_prop in Hc. destruct Hc as [Hc Hpow].
  apply andb_prop in Hc. destruct Hc as [Hn Hprod].
  apply Z.ltb_lt in Hn. apply Z.eqb_eq in Hprod. apply Z.eqb_eq in Hpow.
  destruct (check_all_facts fs n a Hall) as [Hprimes Hne].
  assert (Hone : a ^ (n - 1) mod n = 1) by (rewrite <- powmod_spec by lia; exact Hpow).
  assert (Hfs : forall q, prime q -> (q | n - 1) -> In q (cnums fs)).
  { intros q Hq Hd. rewrite Hprod in Hd. apply prime_div_cprod; assumption. }
  assert (Hq : forall q, In q (cnums fs) -> a ^ ((n - 1) / q) mod n <> 1).
  { intros q Hin. pose proof (Hprimes q Hin) as [Hq1 _].
    rewrite <- powmod_spec; [apply Hne; exact Hin|lia|apply Z.div_pos; lia]. }
  destruct (all_units n a (cnums fs) Hn Hfs Hone Hq k Hk) as [i [Hi Hki]].
  rewrite Hki. rewrite <- Zpower_mod by lia.
  rewrite <- Z.pow_mul_r by lia. rewrite Z.mul_comm. rewrite Z.pow_mul_r by lia.
  apply pow_mod_one; [lia|lia|exact Hone].
Qed.
Theorem ell_fermat k : 1 <= k < ell -> k ^ (ell - 1) mod ell = 1.
Proof. apply (cert_fermat ell _ _ ell_cert_ok). Qed.

(* extended Euclid, any modulus *)
Lemma egcd_inv_gen n a : 1 < n -> forall fuel r0 r1 s0 s1 u,
  (n | r0 - s0 * a) -> (n | r1 - s1 * a) -> egcd fuel r0 r1 s0 s1 = Some u -> (u * a) mod n = 1.
Proof.
  intros Hn. induction fuel as [|f IH]; intros r0 r1 s0 s1 u H0 H1 E; cbn [egcd] in E; [discriminate|].
  destruct (r1 =? 0) eqn:E1.
  - destruct (r0 =? 1) eqn:E0; [|discriminate]. inversion E; subst u. apply Z.eqb_eq in E0. subst r0.
    destruct H0 as [k Hk]. assert (Hs : s0 * a = 1 + (- k) * n) by lia.
    rewrite Hs. rewrite Z_mod_plus_full. apply Z.mod_1_l. exact Hn.
  - apply (IH r1 (r0 - r0 / r1 * r1) s1 (s0 - r0 / r1 * s1) u); [exact H1| |exact E].
    destruct H0 as [k0 Hk0]. destruct H1 as [k1 Hk1]. exists (k0 - r0 / r1 * k1).
    replace (r0 - r0 / r1 * r1 - (s0 - r0 / r1 * s1) * a) with ((r0 - s0 * a) - r0 / r1 * (r1 - s1 * a)) by ring.
    rewrite Hk0, Hk1. ring.
Qed.

Lemma ell_gt_1 : 1 < ell. Proof. reflexivity. Qed.
(* Scalar::invert in the model: the inverse of every non-zero residue *)
Theorem sc_inv_spec a : a mod ell <> 0 -> (sc_inv a * a) mod ell = 1.
Proof.
  intros Ha. unfold sc_inv. destruct (egcd 600 ell (a mod ell) 0 1) as [u|] eqn:E.
  - rewrite Zmult_mod_idemp_l. rewrite <- Zmult_mod_idemp_r.
    apply (egcd_inv_gen ell (a mod ell) ell_gt_1 600 ell (a mod ell) 0 1 u); [exists 1; ring|exists 0; ring|exact E].
  - rewrite powmod_spec by (vm_compute; intuition congruence).
    rewrite Zmult_mod_idemp_l. rewrite <- (Z.pow_1_r a) at 2. rewrite <- Z.pow_add_r by (vm_compute; congruence).
    replace (ell - 2 + 1) with (ell - 1) by ring.
    rewrite Zpower_mod by reflexivity. apply ell_fermat.
    pose proof (Z.mod_pos_bound a ell ltac:(reflexivity)). lia.
Qed.
