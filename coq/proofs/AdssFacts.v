(* ADSS: what share computes, and that recover inverts it (any permutation F with byte-valued output) *)
From Coq Require Import ZArith NArith Arith Bool List Lia.
Import ListNotations.
From StarV Require Import Params Bytes Strobe Fp PolyDefs Shamir Adss BytesFacts FieldFacts Lagrange ShamirFacts StrobeFacts.

Section AF.
Variable F : list N -> list N.
Hypothesis F_bytes : forall l, wf (F l).

(* ---------- bytes squeezed after a forced permutation are bytes ---------- *)
Lemma adv_pos0 s l : pos (adv F s l) = 0%nat -> exists l', st (adv F s l) = F l'.
Proof.
  unfold adv. cbn [pos]. destruct (Nat.eqb (S (pos s)) rate); cbn [pos st run_f]; [intros _; eexists; reflexivity|discriminate].
Qed.
Lemma begin_core_C_wf s fl : has fl fC = true -> wf (st (begin_core F s fl)).
Proof.
  intros HC. unfold begin_core. rewrite HC. cbn [andb absorb fold_left].
  set (s1 := {| st := st s; pos := pos s; pos_begin := pos s + 1; is_recv := is_recv s |}).
  destruct (Nat.eqb (pos (absorb1 F (absorb1 F s1 (N.of_nat (pos_begin s))) fl)) 0) eqn:E0; cbn [negb].
  - apply Nat.eqb_eq in E0. unfold absorb1 at 1 in E0. apply adv_pos0 in E0. destruct E0 as [l' El'].
    unfold absorb1 at 1. rewrite El'. apply F_bytes.
  - cbn [run_f st]. apply F_bytes.
Qed.

Lemma log2_byte a : (a < 256)%N -> (N.log2 a < 8)%N.
Proof.
  intros Ha. destruct (N.eq_dec a 0) as [->|Hn]; [cbn; lia|].
  apply (proj1 (N.log2_lt_pow2 a 8 ltac:(lia))). exact Ha.
Qed.
Lemma N_lxor_byte a b : (a < 256)%N -> (b < 256)%N -> (N.lxor a b < 256)%N.
Proof.
  intros Ha Hb. destruct (N.eq_dec (N.lxor a b) 0) as [E|E]; [rewrite E; lia|].
  apply (proj2 (N.log2_lt_pow2 (N.lxor a b) 8 ltac:(lia))).
  pose proof (N.log2_lxor a b) as H. pose proof (log2_byte a Ha). pose proof (log2_byte b Hb). lia.
Qed.

Lemma wf_upd l i f : wf l -> (forall b, (b < 256)%N -> (f b < 256)%N) -> wf (upd l i f).
Proof.
  unfold wf. revert i. induction l as [|h t IH]; intros i Hl Hf; [destruct i; constructor|].
  inversion Hl; subst. destruct i; cbn [upd]; constructor; auto.
Qed.
Lemma wf_nth l i : wf l -> (nth i l 0 < 256)%N.
Proof.
  unfold wf. revert i. induction l as [|h t IH]; intros i H; [destruct i; cbn; lia|].
  inversion H; subst. destruct i; cbn [nth]; auto.
Qed.
Lemma adv_wf s l : wf l -> wf (st (adv F s l)).
Proof. intros H. unfold adv. destruct (Nat.eqb _ _); cbn [st run_f]; [apply F_bytes|exact H]. Qed.

Lemma squeeze_wf : forall n s, wf (st s) -> wf (snd (gen (squeeze1 F) s n)).
Proof.
  induction n as [|n IH]; intros s H; cbn [gen]; [constructor|].
  unfold squeeze1 at 1.
  set (s1 := adv F s (upd (st s) (pos s) (fun _ => 0%N))).
  assert (H1 : wf (st s1)) by (apply adv_wf, wf_upd; [exact H|intros; lia]).
  specialize (IH s1 H1). destruct (gen (squeeze1 F) s1 n) as [s2 os]. cbn [snd] in *.
  constructor; [apply wf_nth; exact H|exact IH].
Qed.
Lemma prf_wf s n : wf (snd (prf F s n)).
Proof. unfold prf. apply squeeze_wf. rewrite begin_op_noT by reflexivity. apply begin_core_C_wf. reflexivity. Qed.

(* ---------- every output of an operation that forces the permutation consists of bytes ---------- *)
Lemma has_C_land fl : has (N.land fl (N.lxor 255 fI)) fC = has fl fC.
Proof.
  unfold has, fC, fI. change (N.lxor 255 1) with 254%N.
  rewrite <- N.land_assoc. change (N.land 254 4) with 4%N. reflexivity.
Qed.
Lemma has_C_lor fl : has (N.lor fl fI) fC = has fl fC.
Proof.
  unfold has, fC, fI. rewrite N.land_lor_distr_l. change (N.land 1 4) with 0%N. rewrite N.lor_0_r. reflexivity.
Qed.
Lemma begin_op_as_core s fl : exists s1 fl1, begin_op F s fl = begin_core F s1 fl1 /\ has fl1 fC = has fl fC.
Proof.
  unfold begin_op. destruct (has fl fT).
  - destruct (Bool.eqb _ _); eexists; eexists; (split; [reflexivity|]); [apply has_C_land|apply has_C_lor].
  - exists s, fl. split; reflexivity.
Qed.
Lemma begin_op_C_wf s fl : has fl fC = true -> wf (st (begin_op F s fl)).
Proof.
  intros HC. destruct (begin_op_as_core s fl) as (s1 & fl1 & -> & H). apply begin_core_C_wf. congruence.
Qed.

Lemma copy_wf : forall n s, wf (st s) -> wf (snd (gen (copy1 F) s n)).
Proof.
  induction n as [|n IH]; intros s H; cbn [gen]; [constructor|].
  unfold copy1 at 1.
  assert (H1 : wf (st (adv F s (st s)))) by (apply adv_wf; exact H).
  specialize (IH _ H1). destruct (gen (copy1 F) (adv F s (st s)) n) as [s2 os]. cbn [snd] in *.
  constructor; [apply wf_nth; exact H|exact IH].
Qed.
Lemma send_mac_wf s n : wf (snd (send_mac F s n)).
Proof. unfold send_mac. apply copy_wf. apply begin_op_C_wf. reflexivity. Qed.

Lemma absorb_set_wf : forall d s, wf (st s) -> wf d -> wf (snd (mapacc (absorb_set1 F) s d)).
Proof.
  induction d as [|b d IH]; intros s H Hd; cbn [mapacc]; [constructor|].
  inversion Hd as [|? ? Hb Hd']; subst.
  unfold absorb_set1 at 1.
  assert (Hc : (N.lxor (cur s) b < 256)%N) by (apply N_lxor_byte; [apply wf_nth; exact H|exact Hb]).
  assert (H1 : wf (st (adv F s (upd (st s) (pos s) (fun _ => N.lxor (cur s) b))))).
  { apply adv_wf, wf_upd; [exact H|intros; exact Hc]. }
  specialize (IH _ H1 Hd'). destruct (mapacc (absorb_set1 F) _ d) as [s2 os]. cbn [snd] in *.
  constructor; [exact Hc|exact IH].
Qed.
Lemma send_enc_wf s d : wf d -> wf (snd (send_enc F s d)).
Proof. intros Hd. unfold send_enc. apply absorb_set_wf; [apply begin_op_C_wf; reflexivity|exact Hd]. Qed.

(* ---------- what the dealer produces for a 16-byte key ---------- *)
Lemma chunks_S f bs : chunks (S f) bs =
  if (24 <=? length bs)%nat then firstn 24 bs :: chunks f (skipn 24 bs) else [].
Proof. reflexivity. Qed.
Lemma chunks_key (K : bytes) : length K = 16%nat -> chunks24 (K ++ zeros 16) = [K ++ zeros 8].
Proof.
  intros HK. unfold chunks24. rewrite app_length, HK, length_zeros.
  change (16 + 16)%nat with (S (S 30)). rewrite chunks_S, app_length, HK, length_zeros.
  change (24 <=? 16 + 16)%nat with true. cbv iota.
  rewrite firstn_app, HK. change (24 - 16)%nat with 8%nat.
  rewrite firstn_all2 by lia. change (firstn 8 (zeros 16)) with (zeros 8).
  f_equal.
  assert (Hl : length (skipn 24 (K ++ zeros 16)) = 8%nat) by (rewrite skipn_length, app_length, HK, length_zeros; reflexivity).
  rewrite chunks_S, Hl. reflexivity.
Qed.

Lemma key_elem (K : bytes) : length K = 16%nat -> wf K ->
  exists e, from_repr (K ++ zeros 8) = Some e /\ to_repr e = K ++ zeros 8.
Proof.
  intros HK Hwf.
  assert (Hwf' : wf (K ++ zeros 8)) by (apply wf_app; split; [exact Hwf|apply wf_zeros]).
  destruct (from_repr (K ++ zeros 8)) as [e|] eqn:E.
  - exists e. split; [reflexivity|]. apply from_repr_unique; assumption.
  - exfalso. apply from_repr_none in E. destruct E as [E|E].
    + apply E. rewrite app_length, HK, length_zeros. reflexivity.
    + rewrite le_of_bytes_app, le_of_bytes_zeros, N.mul_0_r, N.add_0_r in E.
      pose proof (le_of_bytes_bound K Hwf) as Hb. rewrite HK in Hb.
      assert (Z.of_N (le_of_bytes K) < 2 ^ 128)%Z.
      { change (2 ^ 128)%Z with (Z.of_N (256 ^ N.of_nat 16)). apply N2Z.inj_lt. exact Hb. }
      assert (2 ^ 128 < p)%Z by reflexivity. lia.
Qed.

Lemma draw_n_length {St} (next64 : St -> St * N) fuel : forall n s s' cs,
  draw_n St next64 fuel n s = (s', Some cs) -> length cs = n.
Proof.
  induction n as [|n IH]; intros s s' cs H; cbn [draw_n] in H.
  - injection H as _ <-. reflexivity.
  - destruct (draw St next64 fuel s) as [s1 [c|]]; [|discriminate].
    destruct (draw_n St next64 fuel n s1) as [s2 [cs'|]] eqn:E; [|discriminate].
    injection H as _ <-. cbn [length]. f_equal. eapply IH. exact E.
Qed.

Lemma dealer_key {St} (next64 : St -> St * N) fuel (t : N) (K : bytes) s s' polys :
  length K = 16%nat -> wf K ->
  dealer_rng St next64 fuel t (K ++ zeros 16) s = (s', Ok (Some polys)) ->
  exists cs e, polys = [cs ++ [e]] /\ length cs = N.to_nat (t - 1) /\ to_repr e = K ++ zeros 8.
Proof.
  intros HK Hwf H. unfold dealer_rng in H. rewrite (chunks_key K HK) in H. cbn [deal_polys] in H.
  destruct (key_elem K HK Hwf) as [e [He Hrep]]. rewrite He in H.
  unfold random_polynomial in H.
  destruct (draw_n St next64 fuel (N.to_nat (t - 1)) s) as [s1 [cs|]] eqn:E; [|discriminate].
  injection H as _ <-. exists cs, e. repeat split; [|exact Hrep]. eapply draw_n_length. exact E.
Qed.

(* ---------- sharing components ---------- *)
Lemma sharing_of_fields c :
  let tr0 := transcript_of F c in
  let tr1 := fst (send_mac F tr0 Params.mac_length) in
  let K := snd (prf F tr1 Params.adss_key_len) in
  let ks0 := key F (new F Params.lbl_adss_encrypt) K in
  let h := sharing_of F c in
  hJ h = snd (send_mac F tr0 Params.mac_length) /\ hK h = K /\
  hC h = snd (send_enc F ks0 (cM c)) /\
  hD h = snd (send_enc F (fst (send_enc F ks0 (cM c))) (cR c)) /\
  hL h = fst (prf F tr1 Params.adss_key_len).
Proof.
  cbv zeta. unfold sharing_of.
  destruct (send_mac F (transcript_of F c) Params.mac_length) as [tr1 J]. cbn [fst snd].
  destruct (prf F tr1 Params.adss_key_len) as [tr2 K]. cbn [fst snd].
  destruct (send_enc F (key F (new F Params.lbl_adss_encrypt) K) (cM c)) as [ks1 C]. cbn [fst snd].
  destruct (send_enc F ks1 (cR c)) as [ks2 D]. cbn [fst snd hJ hK hC hD hL]. repeat split.
Qed.

Lemma hK_len c : length (hK (sharing_of F c)) = 16%nat.
Proof. destruct (sharing_of_fields c) as (_ & -> & _). apply length_prf. Qed.
Lemma hK_wf c : wf (hK (sharing_of F c)).
Proof. destruct (sharing_of_fields c) as (_ & -> & _). apply prf_wf. Qed.

Lemma transcript_recv c : cT c = None -> is_recv (transcript_of F c) = None.
Proof.
  intros HT. unfold transcript_of, base_transcript. rewrite HT.
  rewrite key_recv, !ad_recv. apply new_recv.
Qed.

Lemma commune_eta (c : commune) : cT c = None -> {| cA := cA c; cM := cM c; cR := cR c; cT := None |} = c.
Proof. destruct c as [a m r t0]. cbn [cA cM cR cT]. intros ->. reflexivity. Qed.

(* ---------- recover inverts share ---------- *)
(* the Shamir half: interpolation returns the encoded key element *)
Lemma recover_key_elem c polys xs cs e :
  (1 <= cA c)%N -> polys = [cs ++ [e]] -> length cs = N.to_nat (cA c - 1) ->
  (cA c <= N.of_nat (length (nodup fp_eq_dec xs)))%N ->
  Shamir.recover (cA c) (map (fun x => evaluate polys x) xs) = Ok (to_repr e).
Proof.
  intros Ht Hpolys Hcs Hcnt.
  rewrite (recover_correct polys (cA c)).
  - rewrite Hpolys. cbn [flat_map]. rewrite app_nil_r. f_equal. f_equal.
    unfold fhorner. apply (horner_last fp fzero fone fadd fmul fsub fopp fdiv finv fp_field).
  - exact Ht.
  - rewrite Hpolys. constructor; [|constructor]. rewrite app_length, Hcs. cbn [length]. lia.
  - apply Forall_forall. intros s Hs. apply in_map_iff in Hs. destruct Hs as [x [<- _]]. apply evaluate_on.
  - etransitivity; [exact Hcnt|].
    assert (G : forall a b : nat, (a <= b)%nat -> (N.of_nat a <= N.of_nat b)%N) by (intros; lia). apply G.
    apply dedup_count; [apply NoDup_nodup|].
    intros x Hx. apply nodup_In in Hx. rewrite map_map. cbn [sx evaluate]. rewrite map_id. exact Hx.
Qed.

(* the symmetric half: with the right key, decryption and the MAC check give back the commune *)
Lemma open_with_key c (K : bytes) ks0 :
  cT c = None -> ks0 = key F (new F Params.lbl_adss_encrypt) K ->
  let C := snd (send_enc F ks0 (cM c)) in
  let D := snd (send_enc F (fst (send_enc F ks0 (cM c))) (cR c)) in
  let J := snd (send_mac F (transcript_of F c) Params.mac_length) in
  (let '(ks, M) := recv_enc F ks0 C in
   let '(ks, R) := recv_enc F ks D in
   let c' := {| cA := cA c; cM := M; cR := R; cT := None |} in
   if verify F c' J then Ok c' else Err) = Ok c.
Proof.
  intros HT Eks. cbv zeta.
  assert (Hks : in_step ks0 ks0) by (apply in_step_same; rewrite Eks, key_recv; apply new_recv).
  clear Eks.
  destruct (recv_enc_send_enc F ks0 ks0 (cM c) Hks) as [HM Hst1].
  destruct (recv_enc F ks0 (snd (send_enc F ks0 (cM c)))) as [ks1' M'] eqn:E1. cbn [fst snd] in HM, Hst1. subst M'.
  destruct (recv_enc_send_enc F _ _ (cR c) Hst1) as [HR _].
  destruct (recv_enc F ks1' (snd (send_enc F (fst (send_enc F ks0 (cM c))) (cR c)))) as [ks2' R'] eqn:E2. cbn [snd] in HR. subst R'.
  rewrite (commune_eta c HT). unfold verify.
  rewrite (recv_mac_send_mac F (transcript_of F c) (transcript_of F c) Params.mac_length)
    by (apply in_step_same, transcript_recv; exact HT).
  reflexivity.
Qed.

Lemma arecover_unfold (s : ashare) rest :
  arecover F (s :: rest) =
  let! keyb := Shamir.recover (aA s) (map aS (s :: rest)) in
  if Nat.ltb (length keyb) Params.adss_key_take then Err
  else
    let! K := slice_to keyb Params.adss_key_take in
    let ks := key F (new F Params.lbl_adss_encrypt) K in
    let '(ks, M) := recv_enc F ks (aC s) in
    let '(ks, R) := recv_enc F ks (aD s) in
    let c := {| cA := aA s; cM := M; cR := R; cT := None |} in
    if verify F c (aJ s) then Ok c else Err.
Proof. reflexivity. Qed.

Lemma arecover_of_parts (s : ashare) rest c (K : bytes) e :
  cT c = None -> length K = 16%nat ->
  Shamir.recover (aA s) (map aS (s :: rest)) = Ok (to_repr e) ->
  to_repr e = K ++ zeros 8 ->
  aA s = cA c ->
  aC s = snd (send_enc F (key F (new F Params.lbl_adss_encrypt) K) (cM c)) ->
  aD s = snd (send_enc F (fst (send_enc F (key F (new F Params.lbl_adss_encrypt) K) (cM c))) (cR c)) ->
  aJ s = snd (send_mac F (transcript_of F c) Params.mac_length) ->
  arecover F (s :: rest) = Ok c.
Proof.
  intros HT HKl Hrec Hrep HA HC HD HJ.
  rewrite arecover_unfold, Hrec. unfold obind at 1. rewrite length_to_repr.
  replace (24 <? Params.adss_key_take)%nat with false by reflexivity.
  rewrite slice_to_ok by (rewrite length_to_repr; apply Nat.leb_le; reflexivity). unfold obind at 1.
  rewrite Hrep. replace Params.adss_key_take with (length K) by (rewrite HKl; reflexivity).
  rewrite firstn_app_exact. cbv zeta. rewrite HA, HC, HD, HJ.
  apply (open_with_key c K _ HT eq_refl).
Qed.

Lemma polys_from_key (t : N) (h : sharing) polys :
  length (hK h) = 16%nat -> wf (hK h) -> polys_from F t h = Ok (Some polys) ->
  exists cs e, polys = [cs ++ [e]] /\ length cs = N.to_nat (t - 1) /\ to_repr e = hK h ++ zeros 8.
Proof.
  intros HKl HKw Hp. unfold polys_from in Hp.
  destruct (dealer_rng strobe (rng_next_u64 F) sampler_fuel t (hK h ++ zeros Params.adss_key_pad) (hL h)) as [s' r] eqn:Ed.
  cbn [snd] in Hp. subst r.
  exact (dealer_key _ _ _ _ _ _ _ HKl HKw Ed).
Qed.

Theorem arecover_shares c polys xs :
  cT c = None -> (1 <= cA c)%N ->
  polys_from F (cA c) (sharing_of F c) = Ok (Some polys) ->
  xs <> [] ->
  (cA c <= N.of_nat (length (nodup fp_eq_dec xs)))%N ->
  arecover F (map (mk_share (cA c) (sharing_of F c) polys) xs) = Ok c.
Proof.
  intros HT Ht Hp Hne Hcnt.
  destruct (polys_from_key (cA c) (sharing_of F c) polys (hK_len c) (hK_wf c) Hp) as (cs & e & Hpolys & Hcs & Hrep).
  destruct (sharing_of_fields c) as (HJ & HK & HC & HD & _). cbv zeta in HJ, HK, HC, HD.
  rewrite <- HK in HC, HD. clear HK.
  pose proof (recover_key_elem c polys xs cs e Ht Hpolys Hcs Hcnt) as Hrec.
  destruct xs as [|x0 xs']; [congruence|].
  cbn [map]. apply (arecover_of_parts _ _ c (hK (sharing_of F c)) e HT (hK_len c)).
  - cbn [map aS aA mk_share] in *. rewrite map_map. cbn [aS mk_share]. exact Hrec.
  - exact Hrep.
  - reflexivity.
  - exact HC.
  - exact HD.
  - exact HJ.
Qed.

(* ---------- what a successful recovery implies (any shares at all) ---------- *)
Lemma verify_true_J c' (J : bytes) : cT c' = None -> length J = Params.mac_length ->
  verify F c' J = true -> J = snd (send_mac F (transcript_of F c') Params.mac_length).
Proof.
  intros HT HL Hv.
  destruct (list_eq_dec N.eq_dec J (snd (send_mac F (transcript_of F c') Params.mac_length))) as [E|E]; [exact E|].
  unfold verify in Hv.
  rewrite (recv_mac_reject F (transcript_of F c') (transcript_of F c') Params.mac_length J) in Hv;
    [discriminate|apply in_step_same, transcript_recv; exact HT|exact HL|exact E].
Qed.

Lemma arecover_ok_inv (s : ashare) rest c' : arecover F (s :: rest) = Ok c' ->
  cT c' = None /\ cA c' = aA s /\ verify F c' (aJ s) = true /\
  exists keyb, Shamir.recover (aA s) (map aS (s :: rest)) = Ok keyb /\
    (Params.adss_key_take <= length keyb)%nat /\
    let ks := key F (new F Params.lbl_adss_encrypt) (firstn Params.adss_key_take keyb) in
    cM c' = snd (recv_enc F ks (aC s)) /\ cR c' = snd (recv_enc F (fst (recv_enc F ks (aC s))) (aD s)).
Proof.
  rewrite arecover_unfold. intros H.
  destruct (Shamir.recover (aA s) (map aS (s :: rest))) as [keyb| |] eqn:Er; cbn [obind] in H; try discriminate.
  destruct (Nat.ltb (length keyb) Params.adss_key_take) eqn:El; [discriminate|].
  apply Nat.ltb_ge in El. rewrite slice_to_ok in H by exact El. cbn [obind] in H. cbv zeta in H.
  destruct (recv_enc F (key F (new F Params.lbl_adss_encrypt) (firstn Params.adss_key_take keyb)) (aC s)) as [ks1 M] eqn:E1.
  destruct (recv_enc F ks1 (aD s)) as [ks2 R] eqn:E2.
  destruct (verify F {| cA := aA s; cM := M; cR := R; cT := None |} (aJ s)) eqn:Ev; [|discriminate].
  injection H as <-. cbn [cT cA cM cR]. repeat split; [exact Ev|].
  exists keyb. repeat split; [exact El| |]; cbv zeta; rewrite E1; cbn [fst snd]; [reflexivity|rewrite E2; reflexivity].
Qed.

Lemma arecover_nil : arecover F [] = Err.
Proof. reflexivity. Qed.
Lemma arecover_zero_threshold s rest : aA s = 0%N -> arecover F (s :: rest) = Err.
Proof. intros H. rewrite arecover_unfold, H, recover_zero_threshold. reflexivity. Qed.
Lemma arecover_never_panics shs : arecover F shs <> Panic.
Proof.
  destruct shs as [|s rest]; [discriminate|]. rewrite arecover_unfold.
  destruct (Shamir.recover (aA s) (map aS (s :: rest))) as [keyb| |] eqn:Er; cbn [obind]; try discriminate.
  - destruct (Nat.ltb (length keyb) Params.adss_key_take) eqn:El; [discriminate|].
    apply Nat.ltb_ge in El. rewrite slice_to_ok by exact El. cbn [obind]. cbv zeta.
    destruct (recv_enc F _ (aC s)) as [ks1 M]. destruct (recv_enc F ks1 (aD s)) as [ks2 R].
    destruct (verify F _ (aJ s)); discriminate.
  - exfalso. exact (recover_never_panics _ _ Er).
Qed.

(* ---------- statements in terms of the model's entry point shares_at ---------- *)
Lemma shares_at_inv c xs shs : shares_at F c xs = Ok (Some shs) ->
  exists polys, polys_from F (cA c) (sharing_of F c) = Ok (Some polys) /\
                shs = map (mk_share (cA c) (sharing_of F c) polys) xs.
Proof.
  unfold shares_at. cbv zeta.
  destruct (polys_from F (cA c) (sharing_of F c)) as [[polys|]| |]; try discriminate.
  intros H. injection H as <-. exists polys. split; reflexivity.
Qed.

Theorem shares_recover c xs shs :
  cT c = None -> (1 <= cA c)%N -> shares_at F c xs = Ok (Some shs) -> xs <> [] ->
  (cA c <= N.of_nat (length (nodup fp_eq_dec xs)))%N ->
  arecover F shs = Ok c.
Proof.
  intros HT Ht Hs Hne Hcnt. destruct (shares_at_inv c xs shs Hs) as (polys & Hp & ->).
  apply arecover_shares; assumption.
Qed.

Theorem shares_static c xs shs : shares_at F c xs = Ok (Some shs) ->
  exists polys, polys_from F (cA c) (sharing_of F c) = Ok (Some polys) /\
  Forall2 (fun x s => aA s = cA c /\ aS s = evaluate polys x /\ aC s = hC (sharing_of F c) /\
                      aD s = hD (sharing_of F c) /\ aJ s = hJ (sharing_of F c)) xs shs.
Proof.
  intros Hs. destruct (shares_at_inv c xs shs Hs) as (polys & Hp & ->). exists polys. split; [exact Hp|].
  induction xs as [|x xs IH]; cbn [map]; constructor; [repeat split|apply IH].
  unfold shares_at. cbv zeta. rewrite Hp. reflexivity.
Qed.

Definition commune_key (c : commune) := (cT c, cA c, cM c, cR c).
(* two different sharings with the same 64-byte MAC *)
Definition MacCoincidence (c c' : commune) : Prop :=
  commune_key c <> commune_key c' /\
  snd (send_mac F (transcript_of F c) Params.mac_length) = snd (send_mac F (transcript_of F c') Params.mac_length).

Lemma commune_key_inj c c' : commune_key c = commune_key c' -> c = c'.
Proof. destruct c, c'. unfold commune_key. cbn. intros H. injection H as -> -> -> ->. reflexivity. Qed.
Lemma commune_key_dec c c' : {commune_key c = commune_key c'} + {commune_key c <> commune_key c'} ->
  c = c' \/ commune_key c <> commune_key c'.
Proof. intros [H|H]; [left; apply commune_key_inj; exact H|right; exact H]. Qed.

(* recovery whose first share is an honest share of c returns c or exhibits a MAC coincidence;
   whatever else is in the collection *)
Lemma mac_of_verified c' (J : bytes) (s : ashare) rest :
  aJ s = J -> length J = Params.mac_length -> arecover F (s :: rest) = Ok c' ->
  cT c' = None /\ J = snd (send_mac F (transcript_of F c') Params.mac_length).
Proof.
  intros EJ HJl Hr. destruct (arecover_ok_inv _ _ _ Hr) as (HT' & HA & Hv & _).
  rewrite EJ in Hv. split; [exact HT'|]. apply verify_true_J; assumption.
Qed.

Theorem recover_authentic c x polys rest c' :
  polys_from F (cA c) (sharing_of F c) = Ok (Some polys) ->
  arecover F (mk_share (cA c) (sharing_of F c) polys x :: rest) = Ok c' ->
  c' = c \/ MacCoincidence c c'.
Proof.
  intros Hp Hr.
  destruct (sharing_of_fields c) as (HJ & _). cbv zeta in HJ.
  assert (HJl : length (hJ (sharing_of F c)) = Params.mac_length) by (rewrite HJ; apply length_send_mac).
  revert Hr HJ HJl. generalize (sharing_of F c). intros h Hr HJ HJl.
  destruct (mac_of_verified c' (hJ h) (mk_share (cA c) h polys x) rest eq_refl HJl Hr) as [HT' HJ'].
  assert (Hdec : {commune_key c = commune_key c'} + {commune_key c <> commune_key c'}).
  { destruct (cT c) as [T|] eqn:ET.
    - right. unfold commune_key. rewrite ET, HT'. intro H. discriminate.
    - destruct (N.eq_dec (cA c) (cA c')) as [EA|EA]; [|right; unfold commune_key; intro H; apply EA; congruence].
      destruct (list_eq_dec N.eq_dec (cM c) (cM c')) as [EM|EM]; [|right; unfold commune_key; intro H; apply EM; congruence].
      destruct (list_eq_dec N.eq_dec (cR c) (cR c')) as [ER|ER]; [|right; unfold commune_key; intro H; apply ER; congruence].
      left. unfold commune_key. rewrite ET, HT', EA, EM, ER. reflexivity. }
  destruct Hdec as [E|E]; [left; symmetry; apply commune_key_inj; exact E|].
  right. split; [exact E|]. rewrite <- HJ. exact HJ'.
Qed.
End AF.

(* Keccak-f as modelled produces bytes *)
From StarV Require Import Keccak.
Lemma keccak_bytes_wf l : wf (keccak_bytes l).
Proof.
  unfold keccak_bytes, wf. apply Forall_forall. intros b Hb. apply in_flat_map in Hb.
  destruct Hb as [v [_ Hb]]. revert Hb. generalize 8%nat. intros n. revert v.
  induction n as [|n IH]; intros v Hb; cbn [bytes_of_le8] in Hb; [destruct Hb|].
  destruct Hb as [<-|Hb]; [apply N.mod_lt; lia|eapply IH; exact Hb].
Qed.

Section AF2.
Variable F : list N -> list N.
(* fewer distinct points than the first share's threshold: refused, whatever else is in the list *)
Theorem arecover_too_few (s : ashare) rest :
  (N.of_nat (length (dedup [] (map aS (s :: rest)))) < aA s)%N -> arecover F (s :: rest) = Err.
Proof. intros H. rewrite arecover_unfold, (recover_too_few _ _ H). reflexivity. Qed.

(* fields of non-first shares other than the Shamir point are ignored *)
Theorem arecover_nonfirst_ignored (s : ashare) rest rest' :
  map aS rest = map aS rest' -> arecover F (s :: rest) = arecover F (s :: rest').
Proof. intros H. rewrite !arecover_unfold. cbn [map]. rewrite H. reflexivity. Qed.

(* an altered authentication tag on the supplying share is always rejected (no collision caveat) *)
Theorem arecover_tamper_J (s : ashare) rest c' (J' : bytes) :
  arecover F (s :: rest) = Ok c' -> length J' = Params.mac_length -> J' <> aJ s -> length (aJ s) = Params.mac_length ->
  arecover F ({| aA := aA s; aS := aS s; aC := aC s; aD := aD s; aJ := J' |} :: rest) = Err.
Proof.
  intros Hr HL Hne HLs.
  destruct (arecover_ok_inv F _ _ _ Hr) as (HT' & HA & Hv & keyb & Hk & Hlen & HM & HR). cbv zeta in HM, HR.
  rewrite arecover_unfold. cbn [aA aS aC aD aJ map]. cbn [map] in Hk. rewrite Hk. cbn [obind].
  replace (length keyb <? Params.adss_key_take)%nat with false by (symmetry; apply Nat.ltb_ge; exact Hlen).
  rewrite slice_to_ok by exact Hlen. cbn [obind]. cbv zeta.
  destruct (recv_enc F (key F (new F Params.lbl_adss_encrypt) (firstn Params.adss_key_take keyb)) (aC s)) as [ks1 M] eqn:E1.
  cbn [fst snd] in HM, HR.
  destruct (recv_enc F ks1 (aD s)) as [ks2 R] eqn:E2. cbn [fst snd] in HM, HR.
  assert (Hc : {| cA := aA s; cM := M; cR := R; cT := None |} = c').
  { clear - HT' HA HM HR. destruct c' as [a m r t0]. cbn [cT cA cM cR] in HT', HA, HM, HR. subst. reflexivity. }
  rewrite Hc.
  pose proof (verify_true_J F c' (aJ s) HT' HLs Hv) as HJ.
  unfold verify. rewrite (recv_mac_reject F (transcript_of F c') (transcript_of F c') Params.mac_length J');
    [reflexivity|apply in_step_same, transcript_recv; exact HT'|exact HL|rewrite <- HJ; exact Hne].
Qed.

(* the first share is an honest share of c with its threshold field rewritten to t' *)
Theorem forged_threshold (c : commune) (x : fp) (polys : list (list fp)) (t' : N) (rest : list ashare) (c' : commune) :
  polys_from F (cA c) (sharing_of F c) = Ok (Some polys) ->
  arecover F ({| aA := t'; aS := evaluate polys x; aC := hC (sharing_of F c); aD := hD (sharing_of F c);
                 aJ := hJ (sharing_of F c) |} :: rest) = Ok c' ->
  cA c' = t' /\ (t' <> cA c -> MacCoincidence F c c').
Proof.
  intros Hp Hr.
  destruct (sharing_of_fields F c) as (HJ & _). cbv zeta in HJ.
  assert (HJl : length (hJ (sharing_of F c)) = Params.mac_length) by (rewrite HJ; apply length_send_mac).
  revert Hr HJ HJl. generalize (sharing_of F c). intros h Hr HJ HJl.
  destruct (arecover_ok_inv F _ _ _ Hr) as (HT' & HA & _).
  split; [exact HA|].
  intros Hne. unfold MacCoincidence. split.
  - unfold commune_key. intro E. apply Hne. assert (E2 : cA c = cA c') by congruence. rewrite E2. symmetry. exact HA.
  - destruct (mac_of_verified F c' (hJ h) {| aA := t'; aS := evaluate polys x; aC := hC h; aD := hD h; aJ := hJ h |} rest eq_refl HJl Hr) as [_ HJ']. rewrite <- HJ. exact HJ'.
Qed.
End AF2.

Section AF3.
Variable F : list N -> list N.
(* the mechanism of the known finding C05/empty-sharing: with empty C and D the outcome of recovery does not
   depend on the interpolated key at all *)
Theorem arecover_empty_key_unbound (s : ashare) rest keyb :
  aC s = [] -> aD s = [] -> Shamir.recover (aA s) (map aS (s :: rest)) = Ok keyb ->
  (Params.adss_key_take <= length keyb)%nat ->
  arecover F (s :: rest) =
    if verify F {| cA := aA s; cM := []; cR := []; cT := None |} (aJ s)
    then Ok {| cA := aA s; cM := []; cR := []; cT := None |} else Err.
Proof.
  intros HC HD Hk Hl. rewrite arecover_unfold, Hk. cbn [obind].
  replace (length keyb <? Params.adss_key_take)%nat with false by (symmetry; apply Nat.ltb_ge; exact Hl).
  rewrite slice_to_ok by exact Hl. cbn [obind]. cbv zeta. rewrite HC, HD.
  unfold recv_enc. cbn [mapacc]. reflexivity.
Qed.
(* the general form: the interpolated key enters the outcome only through what it decrypts C and D to.  Two
   collections whose first shares agree on everything but the point and value, and whose (different) keys decrypt
   (C, D) to the same plaintexts, have the same outcome - which for |C| + |D| = n bytes happens for a wrong key with
   probability about 2^(-8n): certainly for an empty sharing, once in 256 for a one-byte message without coins *)
Definition adec (K C D : bytes) : bytes * bytes :=
  let '(ks, M) := recv_enc F (key F (new F Params.lbl_adss_encrypt) K) C in
  let '(_, R) := recv_enc F ks D in (M, R).
Theorem arecover_key_via_plaintext (s s' : ashare) rest rest' keyb keyb' :
  aA s = aA s' -> aC s = aC s' -> aD s = aD s' -> aJ s = aJ s' ->
  Shamir.recover (aA s) (map aS (s :: rest)) = Ok keyb -> Shamir.recover (aA s') (map aS (s' :: rest')) = Ok keyb' ->
  (Params.adss_key_take <= length keyb)%nat -> (Params.adss_key_take <= length keyb')%nat ->
  adec (firstn Params.adss_key_take keyb) (aC s) (aD s) = adec (firstn Params.adss_key_take keyb') (aC s) (aD s) ->
  arecover F (s :: rest) = arecover F (s' :: rest').
Proof.
  intros HA HC HD HJ Hk Hk' Hl Hl' Hdec. rewrite !arecover_unfold, Hk, Hk'. cbn [obind].
  replace (length keyb <? Params.adss_key_take)%nat with false by (symmetry; apply Nat.ltb_ge; exact Hl).
  replace (length keyb' <? Params.adss_key_take)%nat with false by (symmetry; apply Nat.ltb_ge; exact Hl').
  rewrite !slice_to_ok by assumption. cbn [obind]. cbv zeta. rewrite <- HA, <- HC, <- HD, <- HJ.
  unfold adec in Hdec.
  destruct (recv_enc F (key F (new F Params.lbl_adss_encrypt) (firstn Params.adss_key_take keyb)) (aC s)) as [ks1 M1].
  destruct (recv_enc F (key F (new F Params.lbl_adss_encrypt) (firstn Params.adss_key_take keyb')) (aC s)) as [ks2 M2].
  destruct (recv_enc F ks1 (aD s)) as [ks1' R1]. destruct (recv_enc F ks2 (aD s)) as [ks2' R2].
  injection Hdec as <- <-. reflexivity.
Qed.
End AF3.

Section AF4.
Variable F : list N -> list N.
(* the authentication tag alone binds the result: ANY first share that carries the tag of the sharing c -
   whatever its threshold, point, value, C and D - recovers c or exhibits a MAC coincidence *)
Theorem honest_tag_binds (c : commune) (s : ashare) rest c' :
  aJ s = snd (send_mac F (transcript_of F c) Params.mac_length) ->
  arecover F (s :: rest) = Ok c' -> c' = c \/ MacCoincidence F c c'.
Proof.
  intros HJ Hr.
  assert (HJl : length (aJ s) = Params.mac_length) by (rewrite HJ; apply length_send_mac).
  destruct (mac_of_verified F c' (aJ s) s rest eq_refl HJl Hr) as [HT' HJ'].
  assert (Hdec : {commune_key c = commune_key c'} + {commune_key c <> commune_key c'}).
  { destruct (cT c) as [T|] eqn:ET.
    - right. unfold commune_key. rewrite ET, HT'. intro H. discriminate.
    - destruct (N.eq_dec (cA c) (cA c')) as [EA|EA]; [|right; unfold commune_key; intro H; apply EA; congruence].
      destruct (list_eq_dec N.eq_dec (cM c) (cM c')) as [EM|EM]; [|right; unfold commune_key; intro H; apply EM; congruence].
      destruct (list_eq_dec N.eq_dec (cR c) (cR c')) as [ER|ER]; [|right; unfold commune_key; intro H; apply ER; congruence].
      left. unfold commune_key. rewrite ET, HT', EA, EM, ER. reflexivity. }
  destruct Hdec as [E|E]; [left; symmetry; apply commune_key_inj; exact E|].
  right. split; [exact E|]. rewrite <- HJ. exact HJ'.
Qed.
End AF4.
