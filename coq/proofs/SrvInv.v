(* Every reachable server state meets the premise of the export/import round trip. *)
From Coq Require Import List NArith ZArith Lia Bool.
Import ListNotations.
From StarV Require Import Params Bytes Strobe Ggm Ppoprf BytesFacts StrobeFacts GgmFacts PpFacts SrvFacts KeyStateFacts.
Local Open Scope nat_scope.

Section SZ.
Variable Seed : Type.
Variable prg : bool -> Seed -> Seed.
Variable Good : Seed -> Prop.
Hypothesis prg_good : forall b s, Good (prg b s).
Variable n : nat.

Definition SzInv (g : gstate Seed) (k : nat) : Prop :=
  Forall (fun e : bits * Seed => length (fst e) <= n /\ Good (snd e)) (gPrefixes Seed g) /\
  Forall (fun x : bits => length x <= n) (gPunctured Seed g) /\
  length (gPunctured Seed g) <= k /\
  length (gPrefixes Seed g) <= 2 + n * k.

Lemma sib_rec_sz : forall r acc sd e, In e (sib_rec Seed prg acc sd r) ->
  length (fst e) <= length acc + length r /\ Good (snd e).
Proof.
  induction r as [|b r IH]; intros acc sd e H; cbn [sib_rec] in H; [destruct H|].
  destruct H as [<-|H].
  - cbn [fst snd length]. rewrite app_length. cbn [length]. split; [lia|apply prg_good].
  - destruct (IH _ _ _ H) as [Hl Hg]. rewrite app_length in Hl. cbn [length] in *. split; [lia|exact Hg].
Qed.
Lemma sib_rec_len : forall r acc sd, length (sib_rec Seed prg acc sd r) = length r.
Proof. induction r as [|b r IH]; intros acc sd; cbn [sib_rec length]; [reflexivity|]. rewrite IH. reflexivity. Qed.

Lemma SzInv_mono g k : SzInv g k -> SzInv g (S k).
Proof. intros (A & B & C & D). repeat split; try assumption; lia. Qed.

Lemma step_sz g x k : SzInv g k -> length x = n -> SzInv (step Seed prg g x) (S k).
Proof.
  intros Hinv Hx. pose proof Hinv as (A & B & C & D). unfold step, gpuncture.
  destruct (find_prefix Seed (gPrefixes Seed g) x) as [[p sd]|] eqn:Ef; [|apply SzInv_mono; exact Hinv].
  destruct (existsb (bits_eqb p) (gPunctured Seed g)); [apply SzInv_mono; exact Hinv|].
  destruct (remove_first Seed p (gPrefixes Seed g)) as [rest|] eqn:Er; [|apply SzInv_mono; exact Hinv].
  cbn [fst gPrefixes gPunctured].
  unfold find_prefix in Ef. apply find_some in Ef. destruct Ef as [Hin Hsw]. cbn [fst] in Hsw.
  pose proof (starts_with_len _ _ Hsw) as Hpl.
  destruct (remove_first_split Seed p _ _ Er) as (l1 & e & l2 & Hpf & Hrest & _).
  assert (Hsk : length (skipn (length p) x) = n - length p) by (rewrite skipn_length; lia).
  unfold SzInv. cbn [fst gPrefixes gPunctured]. split; [|split; [|split]].
  - apply Forall_app. split.
    + rewrite Hrest. rewrite Hpf in A. apply Forall_app in A. destruct A as [A1 A2].
      apply Forall_app. split; [exact A1|]. apply Forall_cons_iff in A2. exact (proj2 A2).
    + unfold new_prefixes. apply Forall_forall. intros e0 He0. apply in_rev in He0.
      destruct (sib_rec_sz _ _ _ _ He0) as [Hl Hg]. split; [lia|exact Hg].
  - apply Forall_app. split; [exact B|]. constructor; [lia|constructor].
  - rewrite app_length. cbn [length]. lia.
  - rewrite app_length. unfold new_prefixes. rewrite rev_length, sib_rec_len, Hsk.
    rewrite Hrest, app_length. rewrite Hpf, app_length in D. cbn [length] in D. lia.
Qed.

Lemma steps_sz : forall (h : list bits) g k, SzInv g k -> Forall (fun x => length x = n) h ->
  SzInv (fold_left (step Seed prg) h g) (k + length h).
Proof.
  induction h as [|x h IH]; intros g k Hinv Hh; cbn [fold_left length].
  - rewrite Nat.add_0_r. exact Hinv.
  - apply Forall_cons_iff in Hh. destruct Hh as [Hx Hh].
    replace (k + S (length h)) with (S k + length h) by lia.
    apply IH; [apply step_sz; assumption|exact Hh].
Qed.

Lemma init_sz s0 s1 : 1 <= n -> Good s0 -> Good s1 -> SzInv (ginit Seed s0 s1) 0.
Proof.
  intros Hn H0 H1. unfold SzInv, ginit. cbn [gPrefixes gPunctured length fst snd].
  repeat split; try lia; repeat constructor; cbn [fst snd length]; try assumption; lia.
Qed.
End SZ.

Section SrvReach.
Variable F : list N -> list N.

Lemma length_strobe_prg k0 k1 b s : length (strobe_prg F k0 k1 b s) = Params.ggm_seed_len.
Proof. unfold strobe_prg, rng_fill. apply length_prf. Qed.

Theorem after_server_ok (s0 : server) (seed0 seed1 : bytes) (h : list N) :
  (0 <= sv_key s0 < ell)%Z -> pk_wf (sv_pk s0) ->
  length (sv_k0 s0) = 32%nat -> length (sv_k1 s0) = 32%nat ->
  sv_ggm s0 = ginit bytes seed0 seed1 -> length seed0 = 32%nat -> length seed1 = 32%nat ->
  (N.of_nat (length h) < 1152921504606846976)%N ->
  server_ok (after F s0 h).
Proof.
  intros Hk Hpk H0 H1 Hg Hs0 Hs1 Hh.
  destruct (after_fields F s0 h) as (Ek & Ep & E0 & E1 & Eg).
  unfold server_ok. rewrite Ek, Ep, E0, E1, Eg, Hg.
  split; [exact Hk|]. split; [exact Hpk|].
  pose proof (steps_sz bytes (strobe_prg F (sv_k0 s0) (sv_k1 s0)) (fun s => length s = 32%nat)
                (fun b s => length_strobe_prg _ _ b s) 8 (map md_bits h) (ginit bytes seed0 seed1) 0
                (init_sz bytes (strobe_prg F (sv_k0 s0) (sv_k1 s0)) (fun s => length s = 32%nat) (fun b s => length_strobe_prg _ _ b s) 8 seed0 seed1 ltac:(lia) Hs0 Hs1)) as Hsz.
  assert (Hall : Forall (fun x : bits => length x = 8%nat) (map md_bits h)).
  { apply Forall_forall. intros x Hx. apply in_map_iff in Hx. destruct Hx as [md [<- _]]. apply md_bits_len. }
  specialize (Hsz Hall). rewrite map_length in Hsz. cbn [Nat.add] in Hsz.
  destruct Hsz as (A & B & C & D).
  unfold ggm_ok. split; [exact H0|]. split; [exact H1|]. unfold two64.
  split; [|split; [|split]].
  - eapply Forall_impl; [|exact A]. intros e [Hl Hgd]. unfold prefix_ok, two64. cbv beta in Hgd. rewrite Hgd. split; lia.
  - eapply Forall_impl; [|exact B]. intros x Hl. cbv beta in Hl. lia.
  - lia.
  - lia.
Qed.

Corollary export_import_reachable (s0 : server) (seed0 seed1 : bytes) (h : list N) (rest : bytes) :
  (0 <= sv_key s0 < ell)%Z -> pk_wf (sv_pk s0) ->
  length (sv_k0 s0) = 32%nat -> length (sv_k1 s0) = 32%nat ->
  sv_ggm s0 = ginit bytes seed0 seed1 -> length seed0 = 32%nat -> length seed1 = 32%nat ->
  (N.of_nat (length h) < 1152921504606846976)%N ->
  server_from_bincode (server_to_bincode (after F s0 h) ++ rest) = Some (after F s0 h).
Proof. intros. apply server_roundtrip. eapply after_server_ok; eassumption. Qed.
End SrvReach.

(* requests are answered alike before and after any punctures that do not touch the requested tag *)
Section Hist.
Variable F : list N -> list N.
Variable G : grp.
Theorem eval_history_independent (s0 : server) (seed0 seed1 : bytes) (h : list N) (p : bytes) (md : N) (v : bool) (r : Z) :
  sv_ggm s0 = ginit bytes seed0 seed1 -> ~ In (md_bits md) (map md_bits h) ->
  server_eval F G (after F s0 h) p md v r = server_eval F G s0 p md v r.
Proof.
  intros Hg Hn. rewrite (eval_after F G s0 seed0 seed1 h p md v r Hg).
  pose proof (eval_after F G s0 seed0 seed1 [] p md v r Hg) as E0. change (after F s0 []) with s0 in E0. rewrite E0.
  destruct (negb (g_valid G p)); [reflexivity|]. destruct (pk_get (pk_md (sv_pk s0)) md); [|reflexivity].
  destruct (in_dec_bits (md_bits md) (map md_bits h)) as [Hi|_]; [contradiction|].
  cbn [map]. destruct (in_dec_bits (md_bits md) []) as [[]|_]. reflexivity.
Qed.
End Hist.
