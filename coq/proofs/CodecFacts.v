(* Wire layouts: chunk helpers, adss share, STAR report; round trips, canonical form, totality. *)
From Coq Require Import ZArith NArith Arith Bool List Lia.
Import ListNotations.
From StarV Require Import Params Bytes Fp Shamir Adss Star BytesFacts FieldFacts ShamirFacts.

Definition fits32 (bs : bytes) : Prop := (N.of_nat (length bs) < two32)%N.

Lemma le32_length n : length (le32 n) = 4%nat.
Proof. apply length_bytes_of_le. Qed.
Lemma load_u32_le32 n : (n < two32)%N -> load_u32 (le32 n) = Some n.
Proof.
  intros H. unfold load_u32. rewrite le32_length. cbn [Nat.eqb]. f_equal.
  unfold le32. apply le_of_bytes_of_le_small. exact H.
Qed.

Lemma skipn4_le32 n rest : skipn 4 (le32 n ++ rest) = rest.
Proof. rewrite <- (le32_length n) at 1. apply skipn_app_exact. Qed.
Lemma firstn4_le32 n rest : firstn 4 (le32 n ++ rest) = le32 n.
Proof. rewrite <- (le32_length n) at 1. apply firstn_app_exact. Qed.

Lemma store_bytes_length s : length (store_bytes s) = (4 + length s)%nat.
Proof. unfold store_bytes. rewrite app_length, le32_length. reflexivity. Qed.

Theorem load_store_bytes s rest : fits32 s -> load_bytes (store_bytes s ++ rest) = Ok s.
Proof.
  intros Hs. unfold load_bytes, store_bytes. rewrite <- app_assoc.
  rewrite !app_length, le32_length.
  replace (4 + (length s + length rest) <? 4)%nat with false by (symmetry; apply Nat.ltb_ge; lia).
  rewrite slice_to_ok by (rewrite !app_length, le32_length; lia). cbn [obind].
  rewrite <- (le32_length (N.of_nat (length s) mod two32)) at 1. rewrite firstn_app_exact.
  rewrite N.mod_small by exact Hs. rewrite load_u32_le32 by exact Hs.
  replace (N.of_nat (4 + (length s + length rest) - 4) <? N.of_nat (length s))%N with false
    by (symmetry; apply N.ltb_ge; lia).
  rewrite slice_ok by (rewrite ?app_length, ?le32_length, ?Nat2N.id; lia).
  rewrite Nat2N.id. replace (4 + length s - 4)%nat with (length s) by lia.
  rewrite <- (le32_length (N.of_nat (length s))) at 1. rewrite skipn_app_exact, firstn_app_exact. reflexivity.
Qed.
Lemma load_store_bytes_nil s : fits32 s -> load_bytes (store_bytes s) = Ok s.
Proof. intros H. rewrite <- (app_nil_r (store_bytes s)). apply load_store_bytes. exact H. Qed.

Lemma skip_store s rest : slice_from (store_bytes s ++ rest) (4 + length s) = Ok rest.
Proof.
  rewrite slice_from_ok by (rewrite app_length, store_bytes_length; lia).
  rewrite <- store_bytes_length. rewrite skipn_app_exact. reflexivity.
Qed.

Lemma Ok_inj {A} (a b : A) : Ok a = Ok b -> a = b.
Proof. congruence. Qed.

(* load_bytes returns a slice of its input *)
Lemma load_bytes_ok bs s : load_bytes bs = Ok s ->
  (4 + length s <= length bs)%nat /\ s = firstn (length s) (skipn 4 bs) /\ le_of_bytes (firstn 4 bs) = N.of_nat (length s).
Proof.
  unfold load_bytes. destruct (length bs <? 4)%nat eqn:E4; [discriminate|]. apply Nat.ltb_ge in E4.
  rewrite slice_to_ok by exact E4. cbn [obind]. unfold load_u32. rewrite firstn_length_le by exact E4. cbn [Nat.eqb].
  destruct (N.of_nat (length bs - 4) <? le_of_bytes (firstn 4 bs))%N eqn:El; [discriminate|]. apply N.ltb_ge in El.
  rewrite slice_ok by lia. intros H. apply Ok_inj in H. subst s.
  replace (4 + N.to_nat (le_of_bytes (firstn 4 bs)) - 4)%nat with (N.to_nat (le_of_bytes (firstn 4 bs))) by lia.
  assert (Hl : length (firstn (N.to_nat (le_of_bytes (firstn 4 bs))) (skipn 4 bs)) = N.to_nat (le_of_bytes (firstn 4 bs))).
  { apply firstn_length_le. rewrite skipn_length. lia. }
  rewrite Hl. repeat split; [lia|lia].
Qed.
Lemma load_bytes_total bs : load_bytes bs <> Panic.
Proof.
  unfold load_bytes. destruct (length bs <? 4)%nat eqn:E4; [discriminate|]. apply Nat.ltb_ge in E4.
  rewrite slice_to_ok by exact E4. cbn [obind]. unfold load_u32. rewrite firstn_length_le by exact E4. cbn [Nat.eqb].
  destruct (N.of_nat (length bs - 4) <? le_of_bytes (firstn 4 bs))%N eqn:El; [discriminate|]. apply N.ltb_ge in El.
  rewrite slice_ok by lia. discriminate.
Qed.

(* ---------- sharks share ---------- *)
Lemma share_from_bytes_total bs : share_from_bytes bs <> Panic.
Proof.
  unfold share_from_bytes. destruct (length bs <? Params.field_element_len)%nat eqn:E; [discriminate|].
  apply Nat.ltb_ge in E. rewrite slice_to_ok by exact E. cbn [obind].
  destruct (from_repr _); [|discriminate]. rewrite slice_from_ok by exact E. cbn [obind].
  destruct (decode_all _); discriminate.
Qed.

(* ---------- adss share ---------- *)
Definition ashare_wf (s : ashare) : Prop :=
  (aA s < two32)%N /\ fits32 (share_to_bytes (aS s)) /\ fits32 (aC s) /\ fits32 (aD s) /\ length (aJ s) = Params.mac_length.

Theorem ashare_roundtrip s : ashare_wf s -> ashare_from_bytes (ashare_to_bytes s) = Ok s.
Proof.
  intros (HA & HS & HC & HD & HJ). unfold ashare_from_bytes, ashare_to_bytes.
  change Params.access_structure_length with 4%nat.
  rewrite app_length, le32_length.
  replace (4 + _ <? 4)%nat with false by (symmetry; apply Nat.ltb_ge; lia).
  rewrite slice_to_ok by (rewrite app_length, le32_length; lia). cbn [obind].
  rewrite firstn4_le32, load_u32_le32 by exact HA.
  rewrite slice_from_ok by (rewrite app_length, le32_length; lia). cbn [obind].
  rewrite !skipn4_le32.
  rewrite load_store_bytes by exact HS. cbn [obind]. rewrite skip_store. cbn [obind].
  rewrite load_store_bytes by exact HC. cbn [obind]. rewrite skip_store. cbn [obind].
  rewrite load_store_bytes by exact HD. cbn [obind]. rewrite skip_store. cbn [obind].
  rewrite HJ, Nat.eqb_refl, share_roundtrip. cbn [obind]. destruct s; reflexivity.
Qed.

Lemma ashare_from_bytes_total bs : ashare_from_bytes bs <> Panic.
Proof.
  unfold ashare_from_bytes. change Params.access_structure_length with 4%nat.
  destruct (length bs <? 4)%nat eqn:E4; [discriminate|]. apply Nat.ltb_ge in E4.
  rewrite slice_to_ok by exact E4. cbn [obind]. destruct (load_u32 _); [|discriminate].
  rewrite slice_from_ok by exact E4. cbn [obind].
  destruct (load_bytes (skipn 4 bs)) as [sb| |] eqn:E1; cbn [obind]; [|discriminate|exfalso; exact (load_bytes_total _ E1)].
  destruct (load_bytes_ok _ _ E1) as (L1 & _). rewrite slice_from_ok by exact L1. cbn [obind].
  destruct (load_bytes (skipn (4 + length sb) (skipn 4 bs))) as [c| |] eqn:E2; cbn [obind]; [|discriminate|exfalso; exact (load_bytes_total _ E2)].
  destruct (load_bytes_ok _ _ E2) as (L2 & _). rewrite slice_from_ok by exact L2. cbn [obind].
  destruct (load_bytes (skipn (4 + length c) _)) as [d| |] eqn:E3; cbn [obind]; [|discriminate|exfalso; exact (load_bytes_total _ E3)].
  destruct (load_bytes_ok _ _ E3) as (L3 & _). rewrite slice_from_ok by exact L3. cbn [obind].
  destruct (Nat.eqb _ _); [|discriminate].
  destruct (share_from_bytes sb) eqn:E5; cbn [obind]; [discriminate|discriminate|exfalso; exact (share_from_bytes_total _ E5)].
Qed.

(* ---------- report ---------- *)
Definition message_wf (m : message) : Prop :=
  fits32 (mCt m) /\ ashare_wf (mShare m) /\ fits32 (ashare_to_bytes (mShare m)) /\ fits32 (mTag m).

Theorem message_roundtrip m : message_wf m -> message_from_bytes (message_to_bytes m) = Ok m.
Proof.
  intros (HC & HS & HSb & HT). unfold message_from_bytes, message_to_bytes.
  rewrite load_store_bytes by exact HC. cbn [obind]. rewrite skip_store. cbn [obind].
  rewrite load_store_bytes by exact HSb. cbn [obind]. rewrite ashare_roundtrip by exact HS. cbn [obind].
  rewrite skip_store. cbn [obind]. rewrite load_store_bytes_nil by exact HT. cbn [obind]. destruct m; reflexivity.
Qed.
Lemma message_from_bytes_total bs : message_from_bytes bs <> Panic.
Proof.
  unfold message_from_bytes.
  destruct (load_bytes bs) as [cb| |] eqn:E1; cbn [obind]; [|discriminate|exfalso; exact (load_bytes_total _ E1)].
  destruct (load_bytes_ok _ _ E1) as (L1 & _). rewrite slice_from_ok by exact L1. cbn [obind].
  destruct (load_bytes (skipn (4 + length cb) bs)) as [sb| |] eqn:E2; cbn [obind]; [|discriminate|exfalso; exact (load_bytes_total _ E2)].
  destruct (ashare_from_bytes sb) eqn:E3; cbn [obind]; [|discriminate|exfalso; exact (ashare_from_bytes_total _ E3)].
  destruct (load_bytes_ok _ _ E2) as (L2 & _). rewrite slice_from_ok by exact L2. cbn [obind].
  destruct (load_bytes (skipn (4 + length sb) _)) as [tg| |] eqn:E4; cbn [obind]; [discriminate|discriminate|exfalso; exact (load_bytes_total _ E4)].
Qed.

(* ---------- payload framing ---------- *)
Theorem payload_parse m aux : fits32 m -> match aux with Some a => fits32 a | None => True end ->
  parse_payload_strict (payload m aux) = Ok (m, aux).
Proof.
  intros Hm Ha. unfold parse_payload_strict, payload. rewrite load_store_bytes by exact Hm.
  rewrite skip_store. cbn [obind]. destruct aux as [a|].
  - destruct (store_bytes a) as [|b0 rest] eqn:Es.
    { apply (f_equal (@length N)) in Es. rewrite store_bytes_length in Es. cbn in Es. lia. }
    rewrite <- Es. rewrite load_store_bytes_nil by exact Ha. rewrite store_bytes_length, Nat.eqb_refl. reflexivity.
  - reflexivity.
Qed.

(* ---------- what an accepted string looks like: canonical form up to ignored bytes ---------- *)
Lemma AdssFacts_chunks_S f bs : Shamir.chunks (S f) bs =
  if (24 <=? length bs)%nat then firstn 24 bs :: Shamir.chunks f (skipn 24 bs) else [].
Proof. reflexivity. Qed.
Lemma skipn_add {A} : forall b a (l : list A), skipn a (skipn b l) = skipn (b + a) l.
Proof.
  induction b as [|b IH]; intros a l; [reflexivity|]. destruct l as [|x l]; [rewrite !skipn_nil; reflexivity|].
  cbn [skipn Nat.add]. apply IH.
Qed.
Lemma load_bytes_inv bs c : load_bytes bs = Ok c -> wf bs ->
  bs = store_bytes c ++ skipn (4 + length c) bs /\ fits32 c.
Proof.
  intros H Hwf. destruct (load_bytes_ok bs c H) as (Hlen & Hc & Hhdr).
  assert (H4 : length (firstn 4 bs) = 4%nat) by (apply firstn_length_le; lia).
  assert (Hfit : fits32 c).
  { unfold fits32. rewrite <- Hhdr. pose proof (le_of_bytes_bound (firstn 4 bs) (wf_firstn 4 bs Hwf)) as Hb.
    rewrite H4 in Hb. exact Hb. }
  split; [|exact Hfit].
  unfold store_bytes. rewrite N.mod_small by exact Hfit. rewrite <- Hhdr.
  unfold le32. rewrite <- H4 at 1. rewrite bytes_of_le_of_bytes by (apply wf_firstn; exact Hwf).
  rewrite Hc at 1. rewrite <- app_assoc.
  rewrite <- (firstn_skipn 4 bs) at 1. f_equal.
  rewrite <- (firstn_skipn (length c) (skipn 4 bs)) at 1. f_equal.
  apply skipn_add.
Qed.

Lemma decode_chunks_prefix : forall fuel l ys, (length l <= fuel)%nat -> wf l ->
  decode_all (Shamir.chunks fuel l) = Some ys ->
  exists tail, l = flat_map to_repr ys ++ tail /\ (length tail < 24)%nat.
Proof.
  induction fuel as [|fuel IH]; intros l ys Hf Hwf H.
  - destruct l; [|cbn in Hf; lia]. cbn in H. injection H as <-. exists []. split; [reflexivity|cbn; lia].
  - rewrite AdssFacts_chunks_S in H. destruct (24 <=? length l)%nat eqn:E.
    + apply Nat.leb_le in E. cbn [decode_all] in H.
      destruct (from_repr (firstn 24 l)) as [y|] eqn:Ey; [|discriminate].
      destruct (decode_all (Shamir.chunks fuel (skipn 24 l))) as [ys'|] eqn:Er; [|discriminate].
      injection H as <-.
      destruct (IH (skipn 24 l) ys') as [tail [Et Hl]]; [rewrite skipn_length; lia|apply wf_skipn; exact Hwf|exact Er|].
      exists tail. split; [|exact Hl]. cbn [flat_map]. rewrite <- app_assoc, <- Et.
      rewrite (from_repr_unique _ _ (wf_firstn 24 l Hwf) Ey). symmetry. apply firstn_skipn.
    + apply Nat.leb_gt in E. cbn in H. injection H as <-. exists l. split; [reflexivity|exact E].
Qed.

(* a Shamir share is accepted only from its own encoding followed by fewer than 24 ignored bytes *)
Theorem share_from_bytes_canon bs s : wf bs -> share_from_bytes bs = Ok s ->
  exists tail, bs = share_to_bytes s ++ tail /\ (length tail < 24)%nat.
Proof.
  intros Hwf H. unfold share_from_bytes in H. rewrite fel in H.
  destruct (length bs <? 24)%nat eqn:E; [discriminate|]. apply Nat.ltb_ge in E.
  rewrite slice_to_ok in H by exact E. cbn [obind] in H.
  destruct (from_repr (firstn 24 bs)) as [x|] eqn:Ex; [|discriminate].
  rewrite slice_from_ok in H by exact E. cbn [obind] in H.
  destruct (decode_all (chunks24 (skipn 24 bs))) as [ys|] eqn:Ey; [|discriminate].
  apply Ok_inj in H. subst s. unfold share_to_bytes. cbn [sx sy].
  destruct (decode_chunks_prefix _ _ ys (Nat.le_refl _) (wf_skipn 24 bs Hwf) Ey) as [tail [Et Hl]].
  exists tail. split; [|exact Hl]. rewrite <- app_assoc, <- Et.
  rewrite (from_repr_unique _ _ (wf_firstn 24 bs Hwf) Ex). symmetry. apply firstn_skipn.
Qed.

(* an adss share is accepted only from  threshold | len,S' | len,C | len,D | J[64]  where S' is the Shamir
   share's encoding followed by fewer than 24 ignored bytes: re-encoding drops exactly those *)
Theorem ashare_from_bytes_canon bs s : wf bs -> ashare_from_bytes bs = Ok s ->
  exists tail, (length tail < 24)%nat /\ length (aJ s) = Params.mac_length /\
    bs = le32 (aA s) ++ store_bytes (share_to_bytes (aS s) ++ tail) ++ store_bytes (aC s) ++ store_bytes (aD s) ++ aJ s.
Proof.
  intros Hwf H. unfold ashare_from_bytes in H. change Params.access_structure_length with 4%nat in H.
  destruct (length bs <? 4)%nat eqn:E4; [discriminate|]. apply Nat.ltb_ge in E4.
  rewrite slice_to_ok in H by exact E4. cbn [obind] in H.
  destruct (load_u32 (firstn 4 bs)) as [a|] eqn:Ea; [|discriminate].
  rewrite slice_from_ok in H by exact E4. cbn [obind] in H.
  destruct (load_bytes (skipn 4 bs)) as [sb| |] eqn:E1; cbn [obind] in H; try discriminate.
  destruct (load_bytes_inv _ _ E1 (wf_skipn 4 bs Hwf)) as [I1 F1]. destruct (load_bytes_ok _ _ E1) as (L1 & _).
  rewrite slice_from_ok in H by exact L1. cbn [obind] in H.
  set (r1 := skipn (4 + length sb) (skipn 4 bs)) in *.
  assert (Hw1 : wf r1) by (apply wf_skipn, wf_skipn; exact Hwf).
  destruct (load_bytes r1) as [c| |] eqn:E2; cbn [obind] in H; try discriminate.
  destruct (load_bytes_inv _ _ E2 Hw1) as [I2 F2]. destruct (load_bytes_ok _ _ E2) as (L2 & _).
  rewrite slice_from_ok in H by exact L2. cbn [obind] in H.
  set (r2 := skipn (4 + length c) r1) in *.
  assert (Hw2 : wf r2) by (apply wf_skipn; exact Hw1).
  destruct (load_bytes r2) as [d| |] eqn:E3; cbn [obind] in H; try discriminate.
  destruct (load_bytes_inv _ _ E3 Hw2) as [I3 F3]. destruct (load_bytes_ok _ _ E3) as (L3 & _).
  rewrite slice_from_ok in H by exact L3. cbn [obind] in H.
  set (r3 := skipn (4 + length d) r2) in *.
  destruct (Nat.eqb (length r3) Params.mac_length) eqn:EJ; [|discriminate]. apply Nat.eqb_eq in EJ.
  destruct (share_from_bytes sb) as [sh| |] eqn:E5; cbn [obind] in H; try discriminate.
  apply Ok_inj in H. subst s. cbn [aA aS aC aD aJ].
  assert (Hwsb : wf sb).
  { destruct (load_bytes_ok _ _ E1) as (_ & Hsb & _). rewrite Hsb. apply wf_firstn, wf_skipn, wf_skipn. exact Hwf. }
  destruct (share_from_bytes_canon sb sh Hwsb E5) as [tail [Esb Hl]].
  exists tail. split; [exact Hl|]. split; [exact EJ|].
  rewrite <- Esb. rewrite <- I3 at 1. rewrite <- I2. rewrite <- I1.
  (* the threshold *)
  unfold load_u32 in Ea. rewrite firstn_length_le in Ea by exact E4. cbn [Nat.eqb] in Ea.
  assert (Ea' : le_of_bytes (firstn 4 bs) = a) by congruence. rewrite <- Ea'. clear Ea Ea'.
  assert (H4 : length (firstn 4 bs) = 4%nat) by (apply firstn_length_le; exact E4).
  unfold le32. rewrite <- H4 at 1. rewrite bytes_of_le_of_bytes by (apply wf_firstn; exact Hwf).
  symmetry. apply firstn_skipn.
Qed.

(* a report is accepted only from  len,ct | len,share' | len,tag | ignored bytes *)
Theorem message_from_bytes_canon bs m : wf bs -> message_from_bytes bs = Ok m ->
  exists tail trailing, (length tail < 24)%nat /\
    bs = store_bytes (mCt m)
         ++ store_bytes (le32 (aA (mShare m)) ++ store_bytes (share_to_bytes (aS (mShare m)) ++ tail)
                         ++ store_bytes (aC (mShare m)) ++ store_bytes (aD (mShare m)) ++ aJ (mShare m))
         ++ store_bytes (mTag m) ++ trailing.
Proof.
  intros Hwf H. unfold message_from_bytes in H.
  destruct (load_bytes bs) as [cb| |] eqn:E1; cbn [obind] in H; try discriminate.
  destruct (load_bytes_inv _ _ E1 Hwf) as [I1 _]. destruct (load_bytes_ok _ _ E1) as (L1 & _).
  rewrite slice_from_ok in H by exact L1. cbn [obind] in H.
  set (r1 := skipn (4 + length cb) bs) in *. assert (Hw1 : wf r1) by (apply wf_skipn; exact Hwf).
  destruct (load_bytes r1) as [sb| |] eqn:E2; cbn [obind] in H; try discriminate.
  destruct (load_bytes_inv _ _ E2 Hw1) as [I2 _]. destruct (load_bytes_ok _ _ E2) as (L2 & Hsb & _).
  destruct (ashare_from_bytes sb) as [sh| |] eqn:E3; cbn [obind] in H; try discriminate.
  rewrite slice_from_ok in H by exact L2. cbn [obind] in H.
  set (r2 := skipn (4 + length sb) r1) in *. assert (Hw2 : wf r2) by (apply wf_skipn; exact Hw1).
  destruct (load_bytes r2) as [tg| |] eqn:E4; cbn [obind] in H; try discriminate.
  destruct (load_bytes_inv _ _ E4 Hw2) as [I4 _].
  apply Ok_inj in H. subst m. cbn [mCt mShare mTag].
  assert (Hwsb : wf sb) by (rewrite Hsb; apply wf_firstn, wf_skipn; exact Hw1).
  destruct (ashare_from_bytes_canon sb sh Hwsb E3) as [tail [Hl [_ Esb]]].
  exists tail, (skipn (4 + length tg) r2). split; [exact Hl|].
  rewrite <- Esb, <- I4, <- I2. exact I1.
Qed.
