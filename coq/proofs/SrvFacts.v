(* The randomness server as a state machine: under every history of evaluations, punctures, clones and
   export/import over a family of instances, each instance is its creation state with the punctures of
   its own lineage applied; it answers iff the tag is registered and not punctured in that lineage, always
   with the same value; the public key never changes. *)
From Coq Require Import ZArith NArith Arith Bool List Lia.
Import ListNotations.
From StarV Require Import Params Bytes Keccak Strobe Fp Ggm Ppoprf Scenario GgmFacts.

Section SH.
Variable F : list N -> list N.
Variable G : grp.

Definition md_bits (md : N) : bits := input_bits [md].
Lemma md_bits_len md : length (md_bits md) = 8%nat.
Proof. reflexivity. Qed.

Lemma byte_bits_testbit : forall n b i, (i < n)%nat -> nth i (byte_bits n b) false = N.testbit b (N.of_nat i).
Proof.
  induction n as [|n IH]; intros b i Hi; [lia|]. cbn [byte_bits]. destruct i as [|i]; cbn [nth].
  - symmetry. apply N.bit0_odd.
  - rewrite IH by lia. rewrite Nat2N.inj_succ. rewrite N.div2_div. apply N.div2_bits.
Qed.
Lemma md_bits_inj a b : (a < 256)%N -> (b < 256)%N -> md_bits a = md_bits b -> a = b.
Proof.
  intros Ha Hb E. apply N.bits_inj. intros k.
  destruct (N.lt_ge_cases k 8) as [Hk|Hk].
  - assert (Hi : (N.to_nat k < 8)%nat) by lia.
    pose proof (byte_bits_testbit 8 a (N.to_nat k) Hi) as H1. pose proof (byte_bits_testbit 8 b (N.to_nat k) Hi) as H2.
    rewrite N2Nat.id in H1, H2. rewrite <- H1, <- H2.
    unfold md_bits, input_bits in E. cbn [flat_map] in E. rewrite !app_nil_r in E. rewrite E. reflexivity.
  - assert (Hz : forall x, (x < 256)%N -> N.testbit x k = false).
    { intros x Hx. destruct (N.eq_dec x 0) as [->|Hn]; [apply N.bits_0|].
      apply N.bits_above_log2. assert (N.log2 x < 8)%N by (apply N.log2_lt_pow2; [lia|exact Hx]). lia. }
    rewrite (Hz a Ha), (Hz b Hb). reflexivity.
Qed.

Definition punct (s : server) (md : N) : server := fst (server_puncture F s md).
Definition after (s0 : server) (h : list N) : server := fold_left punct h s0.

Notation prg s := (strobe_prg F (sv_k0 s) (sv_k1 s)).

Lemma punct_fields s md : sv_key (punct s md) = sv_key s /\ sv_pk (punct s md) = sv_pk s /\
  sv_k0 (punct s md) = sv_k0 s /\ sv_k1 (punct s md) = sv_k1 s /\
  sv_ggm (punct s md) = step bytes (prg s) (sv_ggm s) (md_bits md).
Proof.
  unfold punct, server_puncture, ggm_puncture, sv_prg. change (Nat.eqb (length [md]) Params.ggm_inp_len) with true. cbv iota.
  unfold step. fold (md_bits md).
  destruct (gpuncture bytes (strobe_prg F (sv_k0 s) (sv_k1 s)) (sv_ggm s) (md_bits md)) as [g' r]. cbn. repeat split.
Qed.

Lemma after_fields s0 : forall h, sv_key (after s0 h) = sv_key s0 /\ sv_pk (after s0 h) = sv_pk s0 /\
  sv_k0 (after s0 h) = sv_k0 s0 /\ sv_k1 (after s0 h) = sv_k1 s0 /\
  sv_ggm (after s0 h) = fold_left (step bytes (prg s0)) (map md_bits h) (sv_ggm s0).
Proof.
  intros h. unfold after. revert s0. induction h as [|md h IH]; intros s0; cbn [fold_left map]; [repeat split|].
  destruct (punct_fields s0 md) as (A & B & C & D & E). destruct (IH (punct s0 md)) as (A' & B' & C' & D' & E').
  rewrite A', B', C', D', E', A, B, C, D, E. repeat split.
Qed.

(* the tag scalar of the creation state: the GGM value of the tag's bit string *)
Definition tag_value (s0 : server) (seed0 seed1 : bytes) (md : N) : bytes :=
  nv bytes (prg s0) seed0 seed1 (md_bits md).

Theorem eval_after (s0 : server) (seed0 seed1 : bytes) (h : list N) (p : bytes) (md : N) (v : bool) (r : Z) :
  sv_ggm s0 = ginit bytes seed0 seed1 ->
  server_eval F G (after s0 h) p md v r =
    if negb (g_valid G p) then inl BadPointEncoding
    else match pk_get (pk_md (sv_pk s0)) md with
         | None => inl BadTag
         | Some _ =>
             if in_dec_bits (md_bits md) (map md_bits h) then inl PNoPrefixFound
             else
               let tk := sc_add (sv_key s0) (sc_of_bytes (tag_value s0 seed0 seed1 md)) in
               let ep := g_mul G (sc_inv tk) p in
               if v then match combined_pk G (sv_pk s0) md with
                         | inl e => inl e
                         | inr pv => inr (ep, Some (new_batch F G tk pv [ep] [p] r))
                         end
               else inr (ep, None)
         end.
Proof.
  intros Hg. destruct (after_fields s0 h) as (A & B & C & D & E).
  unfold server_eval. rewrite A, B. destruct (negb (g_valid G p)); [reflexivity|].
  destruct (pk_get (pk_md (sv_pk s0)) md); [|reflexivity].
  unfold ggm_eval. change (Nat.eqb (length [md]) Params.ggm_inp_len) with true. cbv iota. fold (md_bits md).
  unfold sv_prg. rewrite C, D, E, Hg.
  rewrite (history_eval bytes (prg s0) seed0 seed1 8 (map md_bits h) (md_bits md)); [|lia| |reflexivity].
  2:{ apply Forall_forall. intros y Hy. apply in_map_iff in Hy. destruct Hy as [x [<- _]]. reflexivity. }
  destruct (in_dec_bits (md_bits md) (map md_bits h)); reflexivity.
Qed.

(* ---------- families of instances ---------- *)
Fixpoint lineages (ls : list (list N)) (ops : list sop) : list (list N) :=
  match ops with
  | [] => ls
  | o :: t =>
      lineages (match o with
                | SEval _ _ _ _ _ => ls
                | SPunct i md => match nth_error ls i with Some h => set_nth ls i (h ++ [md]) | None => ls end
                | SClone i => match nth_error ls i with Some h => ls ++ [h] | None => ls end
                | SSync src dst => match nth_error ls src with Some h => set_nth ls dst h | None => ls end
                end) t
  end.

Lemma set_nth_map {A B} (f : A -> B) : forall (l : list A) i v, set_nth (map f l) i (f v) = map f (set_nth l i v).
Proof. induction l as [|a l IH]; intros [|i] v; cbn [map set_nth]; try reflexivity. rewrite IH. reflexivity. Qed.
Lemma after_snoc s0 h md : after s0 (h ++ [md]) = punct (after s0 h) md.
Proof. unfold after. rewrite fold_left_app. reflexivity. Qed.

(* KF-instantiated run (Scenario.srv_run uses the concrete permutation) *)
Hypothesis F_is_KF : F = keccak_bytes.

Theorem run_lineages (s0 : server) : forall ops ls,
  fst (srv_run G (map (after s0) ls) ops) = map (after s0) (lineages ls ops).
Proof.
  induction ops as [|o ops IH]; intros ls; cbn [srv_run lineages fst]; [reflexivity|].
  destruct o as [i md p v r|i md|i|src dst]; cbn [srv_step].
  - rewrite nth_error_map. destruct (nth_error ls i) as [h|]; cbn [option_map];
      (destruct (srv_run G (map (after s0) ls) ops) as [w2 rs] eqn:E; cbn [fst]; rewrite <- (IH ls), E; reflexivity).
  - rewrite nth_error_map. destruct (nth_error ls i) as [h|]; cbn [option_map].
    + unfold KF. rewrite <- F_is_KF.
      destruct (server_puncture F (after s0 h) md) as [s' r] eqn:Ep.
      assert (Es : s' = after s0 (h ++ [md])) by (rewrite after_snoc; unfold punct; rewrite Ep; reflexivity).
      rewrite Es, set_nth_map.
      destruct (srv_run G (map (after s0) (set_nth ls i (h ++ [md]))) ops) as [w2 rs] eqn:E. cbn [fst].
      rewrite <- (IH (set_nth ls i (h ++ [md]))), E. reflexivity.
    + destruct (srv_run G (map (after s0) ls) ops) as [w2 rs] eqn:E; cbn [fst]; rewrite <- (IH ls), E; reflexivity.
  - rewrite nth_error_map. destruct (nth_error ls i) as [h|]; cbn [option_map].
    + replace (map (after s0) ls ++ [after s0 h]) with (map (after s0) (ls ++ [h])) by (rewrite map_app; reflexivity).
      destruct (srv_run G (map (after s0) (ls ++ [h])) ops) as [w2 rs] eqn:E. cbn [fst]. rewrite <- (IH (ls ++ [h])), E. reflexivity.
    + destruct (srv_run G (map (after s0) ls) ops) as [w2 rs] eqn:E; cbn [fst]; rewrite <- (IH ls), E; reflexivity.
  - rewrite nth_error_map. destruct (nth_error ls src) as [h|]; cbn [option_map].
    + rewrite set_nth_map.
      destruct (srv_run G (map (after s0) (set_nth ls dst h)) ops) as [w2 rs] eqn:E. cbn [fst]. rewrite <- (IH (set_nth ls dst h)), E. reflexivity.
    + destruct (srv_run G (map (after s0) ls) ops) as [w2 rs] eqn:E; cbn [fst]; rewrite <- (IH ls), E; reflexivity.
Qed.
End SH.

(* the GGM key at the code's depth (one input byte = 8 levels), through the byte interface *)
Section GB.
Variable Seed : Type.
Variable prg : bool -> Seed -> Seed.
Variables s0 s1 : Seed.
Definition bpunct (g : gstate Seed) (b : N) : gstate Seed := fst (ggm_puncture Seed prg g [b]).
Lemma bpunct_step g b : bpunct g b = step Seed prg g (md_bits b).
Proof. unfold bpunct, ggm_puncture. change (Nat.eqb (length [b]) Params.ggm_inp_len) with true. reflexivity. Qed.
Theorem ggm_bytes_history (h : list N) (x : N) :
  ggm_eval Seed prg (fold_left bpunct h (ginit Seed s0 s1)) [x] =
    if in_dec_bits (md_bits x) (map md_bits h) then inr NoPrefixFound
    else inl (Some (nv Seed prg s0 s1 (md_bits x))).
Proof.
  assert (E : fold_left bpunct h (ginit Seed s0 s1) = fold_left (step Seed prg) (map md_bits h) (ginit Seed s0 s1)).
  { generalize (ginit Seed s0 s1). induction h as [|b h IH]; intros g; cbn [fold_left map]; [reflexivity|].
    rewrite bpunct_step. apply IH. }
  rewrite E. unfold ggm_eval. change (Nat.eqb (length [x]) Params.ggm_inp_len) with true. cbv iota. fold (md_bits x).
  rewrite (history_eval Seed prg s0 s1 8 (map md_bits h) (md_bits x)); [|lia| |reflexivity].
  - destruct (in_dec_bits (md_bits x) (map md_bits h)); reflexivity.
  - apply Forall_forall. intros y Hy. apply in_map_iff in Hy. destruct Hy as [z [<- _]]. reflexivity.
Qed.
End GB.
