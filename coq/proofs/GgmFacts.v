(* GGM puncturable PRF: for any tree depth n, any PRG, any history of punctures,
   the retained prefixes cover exactly the unpunctured inputs, each exactly once, with the right seeds. *)
From Coq Require Import Arith Bool List Lia.
Import ListNotations.
From StarV Require Import Ggm.

(* ---------- bit strings ---------- *)
Lemma bits_eqb_eq a b : bits_eqb a b = true <-> a = b.
Proof.
  revert b. induction a as [|x a IH]; intros [|y b]; cbn [bits_eqb]; try (split; [discriminate|discriminate]); [split; reflexivity|].
  rewrite andb_true_iff, IH. split.
  - intros [H1 H2]. apply eqb_prop in H1. congruence.
  - intros H. injection H as -> ->. split; [apply eqb_reflx|reflexivity].
Qed.
Lemma starts_with_app p r : starts_with p (p ++ r) = true.
Proof. induction p as [|a p IH]; cbn [starts_with app]; [reflexivity|]. rewrite eqb_reflx, IH. reflexivity. Qed.
Lemma starts_with_split p x : starts_with p x = true -> x = p ++ skipn (length p) x.
Proof.
  revert x. induction p as [|a p IH]; intros x H; [reflexivity|]. destruct x as [|b x]; [discriminate|].
  cbn [starts_with] in H. apply andb_true_iff in H. destruct H as [H1 H2]. apply eqb_prop in H1. subst b.
  cbn [length skipn app]. f_equal. apply IH. exact H2.
Qed.
Lemma starts_with_same_len p x : starts_with p x = true -> length p = length x -> p = x.
Proof.
  intros H L. pose proof (starts_with_split p x H) as E.
  assert (Hs : skipn (length p) x = []) by (apply skipn_all2; lia). rewrite Hs, app_nil_r in E. symmetry. exact E.
Qed.
Lemma starts_with_app_l p q x : starts_with (p ++ q) x = starts_with p x && starts_with q (skipn (length p) x).
Proof.
  revert x. induction p as [|a p IH]; intros x; cbn [app starts_with length skipn]; [reflexivity|].
  destruct x as [|b x]; [destruct (p ++ q); reflexivity|]. rewrite IH. cbn [skipn]. apply andb_assoc.
Qed.
Lemma starts_with_len p x : starts_with p x = true -> length p <= length x.
Proof. intros H. rewrite (starts_with_split p x H), app_length. lia. Qed.

Section G.
Variable Seed : Type.
Variable prg : bool -> Seed -> Seed.
Variables s0 s1 : Seed.
Notation bit_eval := (bit_eval Seed prg).
Notation gstate := (gstate Seed).

(* the value of tree node q (non-empty) under the two depth-1 seeds *)
Definition nv (q : bits) : Seed := match q with [] => s0 | b :: q' => bit_eval q' (if b then s1 else s0) end.

Lemma bit_eval_app a b s : bit_eval (a ++ b) s = bit_eval b (bit_eval a s).
Proof. unfold Ggm.bit_eval. apply fold_left_app. Qed.
Lemma nv_app q r : q <> [] -> nv (q ++ r) = bit_eval r (nv q).
Proof. destruct q as [|b q]; [congruence|]. intros _. cbn [app nv]. apply bit_eval_app. Qed.
Lemma nv_snoc q c : q <> [] -> nv (q ++ [c]) = prg c (nv q).
Proof. intros H. rewrite nv_app by exact H. reflexivity. Qed.

Definition covers (y : bits) (e : bits * Seed) : bool := starts_with (fst e) y.
Definition cov (y : bits) (pf : list (bits * Seed)) : list (bits * Seed) := filter (covers y) pf.

Lemma find_prefix_cov pf x : find_prefix Seed pf x = hd_error (cov x pf).
Proof.
  unfold find_prefix, cov, covers. induction pf as [|e pf IH]; cbn [find filter]; [reflexivity|].
  destruct (starts_with (fst e) x); [reflexivity|exact IH].
Qed.

(* ---------- the co-path ---------- *)
Lemma sib_seeds : forall r acc sd e, acc <> [] -> sd = nv acc -> In e (sib_rec Seed prg acc sd r) ->
  fst e <> [] /\ length (fst e) <= length acc + length r /\ snd e = nv (fst e).
Proof.
  induction r as [|b r IH]; intros acc sd e Hacc Hsd Hin; cbn [sib_rec] in Hin; [destruct Hin|].
  destruct Hin as [<-|Hin].
  - cbn [fst snd]. split; [destruct acc; discriminate|]. split; [rewrite app_length; cbn; lia|].
    rewrite nv_snoc by exact Hacc. congruence.
  - destruct (IH (acc ++ [b]) (prg b sd) e) as (A & B & C); try assumption.
    + destruct acc; discriminate.
    + rewrite nv_snoc by exact Hacc. congruence.
    + split; [exact A|]. split; [rewrite app_length in B; cbn in B |- *; lia|exact C].
Qed.

(* a leaf below acc other than acc ++ r is covered by exactly one sibling; nothing else is covered *)
Lemma sib_cov : forall r acc sd y, length y = length acc + length r ->
  (starts_with acc y = true -> y <> acc ++ r -> exists e, cov y (sib_rec Seed prg acc sd r) = [e]) /\
  ((starts_with acc y = false \/ y = acc ++ r) -> cov y (sib_rec Seed prg acc sd r) = []).
Proof.
  induction r as [|b r IH]; intros acc sd y Hlen.
  - cbn [sib_rec cov filter]. split; [|reflexivity]. intros H Hne. exfalso. apply Hne.
    rewrite app_nil_r. symmetry. apply starts_with_same_len; [exact H|cbn in Hlen; lia].
  - cbn [sib_rec]. unfold cov. cbn [filter]. fold (cov y (sib_rec Seed prg (acc ++ [b]) (prg b sd) r)).
    unfold covers. cbn [fst].
    assert (Hlen' : length y = length (acc ++ [b]) + length r) by (rewrite app_length; cbn [length] in *; lia).
    destruct (IH (acc ++ [b]) (prg b sd) y Hlen') as [IH1 IH2].
    rewrite !starts_with_app_l in IH1, IH2. rewrite !starts_with_app_l.
    destruct (starts_with acc y) eqn:Ea; cbn [andb] in IH1, IH2 |- *.
    + (* y = acc ++ c :: rest *)
      pose proof (starts_with_split acc y Ea) as Ey.
      destruct (skipn (length acc) y) as [|c rest] eqn:Es.
      { exfalso. rewrite Ey, app_length in Hlen. cbn [length] in Hlen. lia. }
      cbn [starts_with]. rewrite !andb_true_r.
      destruct c, b; cbn [negb Bool.eqb].
      * (* c = b = true: descend *)
        split.
        -- intros _ Hne. apply IH1; [rewrite ?Ea, ?Es; reflexivity|]. intro E. apply Hne. rewrite E, <- app_assoc. reflexivity.
        -- intros [H|H]; [discriminate|]. apply IH2. right. rewrite H, <- app_assoc. reflexivity.
      * (* c = true, b = false: the sibling acc ++ [true] covers y *)
        split.
        -- intros _ _. rewrite IH2; [eexists; reflexivity|]. left. rewrite ?Ea, ?Es. reflexivity.
        -- intros [H|H]; [discriminate|]. exfalso. rewrite H in Es. rewrite skipn_app, Nat.sub_diag, skipn_all in Es. cbn in Es. discriminate.
      * split.
        -- intros _ _. rewrite IH2; [eexists; reflexivity|]. left. rewrite ?Ea, ?Es. reflexivity.
        -- intros [H|H]; [discriminate|]. exfalso. rewrite H in Es. rewrite skipn_app, Nat.sub_diag, skipn_all in Es. cbn in Es. discriminate.
      * split.
        -- intros _ Hne. apply IH1; [rewrite ?Ea, ?Es; reflexivity|]. intro E. apply Hne. rewrite E, <- app_assoc. reflexivity.
        -- intros [H|H]; [discriminate|]. apply IH2. right. rewrite H, <- app_assoc. reflexivity.
    + split; [discriminate|]. intros _. apply IH2. left. reflexivity.
Qed.

(* ---------- the invariant ---------- *)
Record Inv (n : nat) (g : gstate) : Prop := {
  inv_seed : forall e, In e (gPrefixes Seed g) -> fst e <> [] /\ length (fst e) <= n /\ snd e = nv (fst e);
  inv_live : forall y, length y = n -> ~ In y (gPunctured Seed g) -> exists e, cov y (gPrefixes Seed g) = [e];
  inv_dead : forall y, length y = n -> In y (gPunctured Seed g) -> cov y (gPrefixes Seed g) = [];
  inv_len : Forall (fun y => length y = n) (gPunctured Seed g)
}.

Lemma cov_in y pf e : In e (cov y pf) -> In e pf /\ starts_with (fst e) y = true.
Proof. unfold cov. rewrite filter_In. tauto. Qed.
Lemma cov_singleton_in y pf e : cov y pf = [e] -> In e pf /\ starts_with (fst e) y = true.
Proof. intros H. apply cov_in. rewrite H. left. reflexivity. Qed.

Theorem init_inv n : 1 <= n -> Inv n (ginit Seed s0 s1).
Proof.
  intros Hn. constructor; cbn [ginit gPrefixes gPunctured].
  - intros e [<-|[<-|[]]]; cbn [fst snd nv length]; repeat split; try discriminate; try lia.
  - intros y Hy _. destruct y as [|b y]; [cbn in Hy; lia|]. unfold cov, covers. cbn [filter fst starts_with].
    destruct b; cbn; eexists; reflexivity.
  - intros y _ [].
  - constructor.
Qed.

Definition in_dec_bits := In_dec (list_eq_dec bool_dec).

(* evaluation: punctured inputs fail, every other input has the value it had on the fresh key *)
Theorem eval_spec n g x : Inv n g -> length x = n ->
  geval Seed prg g x = if in_dec_bits x (gPunctured Seed g) then None else Some (nv x).
Proof.
  intros I Hx. unfold geval. rewrite find_prefix_cov. destruct (in_dec_bits x (gPunctured Seed g)) as [Hin|Hnin].
  - rewrite (inv_dead n g I x Hx Hin). reflexivity.
  - destruct (inv_live n g I x Hx Hnin) as [[p sd] E]. rewrite E. cbn [hd_error].
    destruct (cov_singleton_in _ _ _ E) as [Hin Hp]. cbn [fst] in Hp.
    destruct (inv_seed n g I _ Hin) as (Hne & _ & Hsd). cbn [fst snd] in *.
    f_equal. rewrite Hsd. rewrite (starts_with_split p x Hp) at 2. symmetry. apply nv_app. exact Hne.
Qed.

(* ---------- puncturing ---------- *)
Lemma cov_app y a b : cov y (a ++ b) = cov y a ++ cov y b.
Proof. unfold cov. apply filter_app. Qed.
Lemma filter_rev {A} (f : A -> bool) l : filter f (rev l) = rev (filter f l).
Proof.
  induction l as [|a l IH]; [reflexivity|]. cbn [rev filter]. rewrite filter_app, IH. cbn [filter].
  destruct (f a); [reflexivity|rewrite app_nil_r; reflexivity].
Qed.
Lemma cov_cons y e l : cov y (e :: l) = if starts_with (fst e) y then e :: cov y l else cov y l.
Proof. reflexivity. Qed.
Lemma cov_rev y l : cov y (rev l) = rev (cov y l).
Proof. apply filter_rev. Qed.

Lemma remove_first_split p : forall pf rest, remove_first Seed p pf = Some rest ->
  exists l1 e l2, pf = l1 ++ e :: l2 /\ rest = l1 ++ l2 /\ fst e = p.
Proof.
  induction pf as [|e pf IH]; intros rest H; cbn [remove_first] in H; [discriminate|].
  destruct (bits_eqb (fst e) p) eqn:E.
  - injection H as <-. apply bits_eqb_eq in E. exists [], e, pf. repeat split; assumption.
  - destruct (remove_first Seed p pf) as [t'|] eqn:Er; [|discriminate]. injection H as <-.
    destruct (IH t' eq_refl) as (l1 & e' & l2 & -> & -> & Hp). exists (e :: l1), e', l2. repeat split; assumption.
Qed.
Lemma remove_first_some p : forall pf e, In e pf -> fst e = p -> exists rest, remove_first Seed p pf = Some rest.
Proof.
  induction pf as [|a pf IH]; intros e Hin Hp; [destruct Hin|]. cbn [remove_first].
  destruct (bits_eqb (fst a) p) eqn:E; [eexists; reflexivity|].
  destruct Hin as [->|Hin]; [rewrite Hp in E; assert (bits_eqb p p = true) by (apply bits_eqb_eq; reflexivity); congruence|].
  destruct (IH e Hin Hp) as [rest ->]. eexists; reflexivity.
Qed.
Lemma app_cons_singleton {A} (l m : list A) a b : l ++ a :: m = [b] -> l = [] /\ a = b /\ m = [].
Proof.
  destruct l as [|x l]; cbn [app]; intros H.
  - injection H as -> ->. repeat split.
  - injection H as _ H. destruct l; discriminate.
Qed.

Theorem puncture_fresh n g x : Inv n g -> length x = n -> ~ In x (gPunctured Seed g) ->
  exists g', gpuncture Seed prg g x = (g', None) /\ Inv n g' /\ gPunctured Seed g' = gPunctured Seed g ++ [x].
Proof.
  intros I Hx Hnin. destruct (inv_live n g I x Hx Hnin) as [[p sd] Ecov].
  destruct (cov_singleton_in _ _ _ Ecov) as [Hin Hpx]. cbn [fst] in Hpx.
  destruct (inv_seed n g I _ Hin) as (Hpne & Hplen & Hsd). cbn [fst snd] in Hpne, Hplen, Hsd.
  unfold gpuncture. rewrite find_prefix_cov, Ecov. cbn [hd_error].
  (* the covering node is not on the punctured list *)
  assert (Hex : existsb (bits_eqb p) (gPunctured Seed g) = false).
  { destruct (existsb (bits_eqb p) (gPunctured Seed g)) eqn:E; [|reflexivity]. exfalso.
    apply existsb_exists in E. destruct E as [q [Hq Eq]]. apply bits_eqb_eq in Eq. subst q.
    pose proof (inv_len n g I) as HL. rewrite Forall_forall in HL. specialize (HL p Hq).
    apply Hnin. rewrite <- (starts_with_same_len p x Hpx) by lia. exact Hq. }
  rewrite Hex.
  destruct (remove_first_some p _ _ Hin eq_refl) as [rest Hrm]. rewrite Hrm.
  destruct (remove_first_split p _ _ Hrm) as (l1 & e' & l2 & Epf & Erest & Hp').
  eexists. split; [reflexivity|]. split; [|reflexivity].
  (* e' is the covering entry, nothing else in l1, l2 covers x *)
  assert (He' : e' = (p, sd) /\ cov x l1 = [] /\ cov x l2 = []).
  { rewrite Epf, cov_app, cov_cons, Hp', Hpx in Ecov. apply app_cons_singleton in Ecov. tauto. }
  destruct He' as (-> & _ & _).
  (* how the remaining entries cover an arbitrary leaf *)
  assert (Hrest : forall y, length y = n ->
            (starts_with p y = true -> cov y rest = [] /\ ~ In y (gPunctured Seed g)) /\
            (starts_with p y = false -> cov y rest = cov y (gPrefixes Seed g))).
  { intros y Hy. rewrite Epf, Erest, !cov_app, cov_cons. cbn [fst].
    split; intros Hpy; rewrite ?Hpy; [|reflexivity].
    assert (Hny : ~ In y (gPunctured Seed g)).
    { intro Hiny. pose proof (inv_dead n g I y Hy Hiny) as Hd. rewrite Epf, cov_app, cov_cons in Hd.
      cbn [fst] in Hd. rewrite Hpy in Hd. destruct (cov y l1); discriminate. }
    split; [|exact Hny].
    destruct (inv_live n g I y Hy Hny) as [e1 E1]. rewrite Epf, cov_app, cov_cons in E1.
    cbn [fst] in E1. rewrite Hpy in E1. apply app_cons_singleton in E1. destruct E1 as (-> & _ & ->). reflexivity. }
  set (r := skipn (length p) x).
  assert (Exr : x = p ++ r) by (apply starts_with_split; exact Hpx).
  assert (Hlenr : n = length p + length r) by (rewrite <- Hx, Exr at 1; apply app_length).
  constructor; cbn [gPrefixes gPunctured].
  - intros e He. apply in_app_or in He. destruct He as [He|He].
    + apply (inv_seed n g I). rewrite Epf. rewrite Erest in He. apply in_app_or in He.
      apply in_or_app. destruct He as [He|He]; [left; exact He|right; right; exact He].
    + unfold new_prefixes in He. apply in_rev in He. fold r in He.
      destruct (sib_seeds r p sd e Hpne Hsd He) as (A & B & C). repeat split; [exact A|lia|exact C].
  - intros y Hy Hny. rewrite cov_app. unfold new_prefixes. fold r. rewrite cov_rev.
    assert (Hy1 : ~ In y (gPunctured Seed g)) by (intro; apply Hny; apply in_or_app; left; assumption).
    assert (Hy2 : y <> x) by (intro; apply Hny; apply in_or_app; right; left; congruence).
    destruct (Hrest y Hy) as [R1 R2]. destruct (sib_cov r p sd y ltac:(lia)) as [S1 S2].
    destruct (starts_with p y) eqn:Epy.
    + destruct (R1 eq_refl) as [-> _]. destruct (S1 eq_refl ltac:(rewrite <- Exr; exact Hy2)) as [e1 ->]. exists e1. reflexivity.
    + rewrite (R2 eq_refl), (S2 (or_introl eq_refl)). cbn [rev]. rewrite app_nil_r. apply (inv_live n g I y Hy Hy1).
  - intros y Hy Hiny. rewrite cov_app. unfold new_prefixes. fold r. rewrite cov_rev.
    destruct (Hrest y Hy) as [R1 R2]. destruct (sib_cov r p sd y ltac:(lia)) as [S1 S2].
    apply in_app_or in Hiny. destruct Hiny as [Hiny|[<-|[]]].
    + destruct (starts_with p y) eqn:Epy.
      * exfalso. destruct (R1 eq_refl) as [_ Hn]. contradiction.
      * rewrite (R2 eq_refl), (S2 (or_introl eq_refl)), (inv_dead n g I y Hy Hiny). reflexivity.
    + destruct (R1 Hpx) as [-> _]. rewrite (S2 (or_intror Exr)). reflexivity.
  - apply Forall_app. split; [apply (inv_len n g I)|constructor; [exact Hx|constructor]].
Qed.

Theorem puncture_again n g x : Inv n g -> length x = n -> In x (gPunctured Seed g) ->
  gpuncture Seed prg g x = (g, Some NoPrefixFound).
Proof.
  intros I Hx Hin. unfold gpuncture. rewrite find_prefix_cov, (inv_dead n g I x Hx Hin). reflexivity.
Qed.

(* ---------- histories ---------- *)
Definition step (g : gstate) (x : bits) : gstate := fst (gpuncture Seed prg g x).

Lemma step_again n g x : Inv n g -> length x = n -> In x (gPunctured Seed g) -> step g x = g.
Proof. intros I Hx Hin. unfold step. rewrite (puncture_again n g x I Hx Hin). reflexivity. Qed.
Lemma step_fresh n g x : Inv n g -> length x = n -> ~ In x (gPunctured Seed g) ->
  Inv n (step g x) /\ gPunctured Seed (step g x) = gPunctured Seed g ++ [x].
Proof.
  intros I Hx Hnin. destruct (puncture_fresh n g x I Hx Hnin) as (g' & Eg & I' & Hp').
  unfold step. rewrite Eg. cbn [fst]. split; assumption.
Qed.

Lemma history_inv_gen n : forall (h : list bits) g, Inv n g -> Forall (fun x => length x = n) h ->
  Inv n (fold_left step h g) /\
  (forall y, In y (gPunctured Seed (fold_left step h g)) <-> In y (gPunctured Seed g) \/ In y h).
Proof.
  induction h as [|x h IH]; intros g I HL; cbn [fold_left].
  - split; [exact I|]. intros y. cbn [In]. tauto.
  - apply Forall_cons_iff in HL. destruct HL as [Hx HL'].
    destruct (in_dec_bits x (gPunctured Seed g)) as [Hin|Hnin].
    + rewrite (step_again n g x I Hx Hin).
      destruct (IH g I HL') as [I' Hm]. split; [exact I'|]. intros y. destruct (Hm y) as [H1 H2]. cbn [In].
      split; [intros H; destruct (H1 H); tauto|]. intros [H|[<-|H]]; apply H2; tauto.
    + destruct (step_fresh n g x I Hx Hnin) as [I' Hp'].
      destruct (IH (step g x) I' HL') as [I'' Hm]. split; [exact I''|].
      intros y. destruct (Hm y) as [H1 H2]. rewrite Hp' in H1, H2. cbn [In].
      split.
      * intros H. destruct (H1 H) as [H3|H3]; [apply in_app_or in H3; cbn [In] in H3; tauto|tauto].
      * intros H. apply H2. rewrite in_app_iff. cbn [In]. tauto.
Qed.

Theorem history_inv n (h : list bits) : 1 <= n -> Forall (fun x => length x = n) h ->
  Inv n (fold_left step h (ginit Seed s0 s1)) /\
  (forall y, In y (gPunctured Seed (fold_left step h (ginit Seed s0 s1))) <-> In y h).
Proof.
  intros Hn HL. destruct (history_inv_gen n h (ginit Seed s0 s1) (init_inv n Hn) HL) as [I Hm]. split; [exact I|].
  intros y. rewrite Hm. cbn [ginit gPunctured In]. tauto.
Qed.

(* after ANY history: an input evaluates iff it was never punctured, and then to its original value *)
Theorem history_eval n (h : list bits) x : 1 <= n -> Forall (fun y => length y = n) h -> length x = n ->
  geval Seed prg (fold_left step h (ginit Seed s0 s1)) x = if in_dec_bits x h then None else Some (nv x).
Proof.
  intros Hn HL Hx. destruct (history_inv n h Hn HL) as [I Hm]. rewrite (eval_spec n _ x I Hx).
  destruct (in_dec_bits x (gPunctured Seed (fold_left step h (ginit Seed s0 s1)))) as [H|H];
    destruct (in_dec_bits x h) as [H'|H']; try reflexivity; exfalso; [apply H', Hm, H|apply H, Hm, H'].
Qed.

(* forward security, structurally: no retained node lies on the path to a punctured input, and every
   unpunctured input has exactly one retained ancestor *)
Theorem history_no_ancestor n (h : list bits) e x : 1 <= n -> Forall (fun y => length y = n) h ->
  In e (gPrefixes Seed (fold_left step h (ginit Seed s0 s1))) -> In x h -> starts_with (fst e) x = false.
Proof.
  intros Hn HL He Hx. destruct (history_inv n h Hn HL) as [I Hm].
  assert (Hlx : length x = n) by (rewrite Forall_forall in HL; apply HL; exact Hx).
  pose proof (inv_dead n _ I x Hlx (proj2 (Hm x) Hx)) as Hd.
  destruct (starts_with (fst e) x) eqn:E; [|reflexivity]. exfalso.
  assert (In e (cov x (gPrefixes Seed (fold_left step h (ginit Seed s0 s1))))) by (unfold cov; apply filter_In; split; assumption).
  rewrite Hd in H. destruct H.
Qed.
Theorem history_unique_cover n (h : list bits) x : 1 <= n -> Forall (fun y => length y = n) h -> length x = n -> ~ In x h ->
  exists e, cov x (gPrefixes Seed (fold_left step h (ginit Seed s0 s1))) = [e] /\ snd e = nv (fst e).
Proof.
  intros Hn HL Hx Hnx. destruct (history_inv n h Hn HL) as [I Hm].
  destruct (inv_live n _ I x Hx) as [e E]; [rewrite Hm; exact Hnx|]. exists e. split; [exact E|].
  destruct (cov_singleton_in _ _ _ E) as [Hin _]. apply (inv_seed n _ I e Hin).
Qed.

(* distinct inputs have distinct values, or two different (bit, seed) pairs collide under the PRG *)
Definition PrgCollision : Prop := exists b s b' s', (b, s) <> (b', s') /\ prg b s = prg b' s'.

Lemma bool_seed_pair_dec (eqs : forall a b : Seed, {a = b} + {a <> b}) (c c' : bool) (a b : Seed) :
  {(c, a) = (c', b)} + {(c, a) <> (c', b)}.
Proof.
  destruct (bool_dec c c') as [->|Hc]; [|right; intro E; apply Hc; congruence].
  destruct (eqs a b) as [->|Hs]; [left; reflexivity|right; intro E; apply Hs; congruence].
Qed.

Theorem values_distinct (eqs : forall a b : Seed, {a = b} + {a <> b}) : forall x y,
  x <> [] -> length x = length y -> nv x = nv y -> x = y \/ PrgCollision \/ s0 = s1.
Proof.
  induction x as [|c q IH] using rev_ind; intros y Hne Hlen Hv; [congruence|].
  destruct (exists_last (l:=y)) as [q' [c' ->]]; [intro E; subst y; rewrite app_length in Hlen; cbn in Hlen; lia|].
  rewrite !app_length in Hlen. cbn [length] in Hlen. assert (Hl : length q = length q') by lia.
  destruct q as [|b q].
  - destruct q' as [|? ?]; [|cbn in Hl; lia]. cbn [app nv Ggm.bit_eval fold_left] in Hv.
    destruct c, c'; try (left; reflexivity); right; right; congruence.
  - assert (Hq : b :: q <> []) by discriminate.
    assert (Hq' : q' <> []) by (destruct q'; [cbn in Hl; lia|discriminate]).
    rewrite !nv_snoc in Hv by assumption.
    destruct (bool_seed_pair_dec eqs c c' (nv (b :: q)) (nv q')) as [E|E].
    + injection E as -> E2. destruct (IH q' Hq Hl E2) as [->|H]; [left; reflexivity|right; exact H].
    + right. left. exists c, (nv (b :: q)), c', (nv q'). split; assumption.
Qed.
End G.
