(* Lifting: whatever a caller computes with the operators of star_sharks::Fp - any expression over +, -, *, neg,
   double, square, invert (None on zero, as CtOption) and constants given as u64 or as canonical limbs - gives, in
   the limb implementation, the Montgomery form of what the big-integer field gives.  This is what licenses the
   models of sharks / adss / star (model/Shamir.v ...) to compute over model/Fp.v.  Also: the byte-level codec. *)
From Coq Require Import ZArith NArith List Bool Lia.
Import ListNotations.
From StarV Require Import Params Bytes Fp LimbPrim LimbGen FpLimbs FieldFacts BytesFacts LimbFacts.
Open Scope Z_scope.

Inductive fexpr : Type :=
| EVar (i : nat) | EU64 (v : Z) | EZero | EOne
| EAdd (x y : fexpr) | ESub (x y : fexpr) | EMul (x y : fexpr)
| ENeg (x : fexpr) | EDouble (x : fexpr) | ESquare (x : fexpr) | EInvert (x : fexpr).

Definition obind2 {A B} (x y : option A) (f : A -> A -> B) : option B :=
  match x, y with Some a, Some b => Some (f a b) | _, _ => None end.

Fixpoint eval_l (env : list limbs) (e : fexpr) : option limbs :=
  match e with
  | EVar i => nth_error env i
  | EU64 v => if (0 <=? v) && (v <? W) then Some (lfrom_u64 v) else None
  | EZero => Some lzero
  | EOne => Some lone
  | EAdd x y => obind2 (eval_l env x) (eval_l env y) ladd
  | ESub x y => obind2 (eval_l env x) (eval_l env y) lsub
  | EMul x y => obind2 (eval_l env x) (eval_l env y) lmul
  | ENeg x => option_map lneg (eval_l env x)
  | EDouble x => option_map ldouble (eval_l env x)
  | ESquare x => option_map lsquare (eval_l env x)
  | EInvert x => match eval_l env x with Some a => linvert a | None => None end
  end.
Fixpoint eval_f (env : list fp) (e : fexpr) : option fp :=
  match e with
  | EVar i => nth_error env i
  | EU64 v => if (0 <=? v) && (v <? W) then Some (mkfp v) else None
  | EZero => Some fzero
  | EOne => Some fone
  | EAdd x y => obind2 (eval_f env x) (eval_f env y) fadd
  | ESub x y => obind2 (eval_f env x) (eval_f env y) fsub
  | EMul x y => obind2 (eval_f env x) (eval_f env y) fmul
  | ENeg x => option_map fopp (eval_f env x)
  | EDouble x => option_map fdouble (eval_f env x)
  | ESquare x => option_map fsquare (eval_f env x)
  | EInvert x => match eval_f env x with Some a => if feqb a fzero then None else Some (finv a) | None => None end
  end.

(* related results: both fail, or the limb result is valid and represents the field result *)
Definition orel (l : option limbs) (f : option fp) : Prop :=
  match l, f with
  | Some t, Some u => lvalid t /\ labs t = u
  | None, None => True
  | _, _ => False
  end.
Lemma nth_error_rel env i : Forall lvalid env -> orel (nth_error env i) (nth_error (map labs env) i).
Proof.
  intros H. revert i. induction H as [|t env Ht H IH]; intros [|i]; cbn; auto.
Qed.
Theorem eval_lift env e : Forall lvalid env -> orel (eval_l env e) (eval_f (map labs env) e).
Proof.
  intros Henv. induction e as [i|v| | |x IHx y IHy|x IHx y IHy|x IHx y IHy|x IHx|x IHx|x IHx|x IHx];
    cbn [eval_l eval_f].
  - apply nth_error_rel. exact Henv.
  - destruct ((0 <=? v) && (v <? W)) eqn:B; [|exact I].
    apply andb_true_iff in B. destruct B as (B1 & B2). apply Z.leb_le in B1. apply Z.ltb_lt in B2.
    exact (lfrom_u64_correct v (conj B1 B2)).
  - split; [exact lzero_valid|exact labs_lzero].
  - split; [exact lone_valid|exact labs_lone].
  - destruct (eval_l env x) as [a|], (eval_f (map labs env) x) as [u|]; cbn in IHx; try contradiction; try exact I;
    destruct (eval_l env y) as [b|], (eval_f (map labs env) y) as [w|]; cbn in IHy; try contradiction; try exact I.
    destruct IHx as (Va & <-), IHy as (Vb & <-). exact (ladd_correct a b Va Vb).
  - destruct (eval_l env x) as [a|], (eval_f (map labs env) x) as [u|]; cbn in IHx; try contradiction; try exact I;
    destruct (eval_l env y) as [b|], (eval_f (map labs env) y) as [w|]; cbn in IHy; try contradiction; try exact I.
    destruct IHx as (Va & <-), IHy as (Vb & <-). exact (lsub_correct a b Va Vb).
  - destruct (eval_l env x) as [a|], (eval_f (map labs env) x) as [u|]; cbn in IHx; try contradiction; try exact I;
    destruct (eval_l env y) as [b|], (eval_f (map labs env) y) as [w|]; cbn in IHy; try contradiction; try exact I.
    destruct IHx as (Va & <-), IHy as (Vb & <-). exact (lmul_correct a b Va Vb).
  - destruct (eval_l env x) as [a|], (eval_f (map labs env) x) as [u|]; cbn in IHx |- *; try contradiction; try exact I.
    destruct IHx as (Va & <-). exact (lneg_correct a Va).
  - destruct (eval_l env x) as [a|], (eval_f (map labs env) x) as [u|]; cbn in IHx |- *; try contradiction; try exact I.
    destruct IHx as (Va & <-). exact (ldouble_correct a Va).
  - destruct (eval_l env x) as [a|], (eval_f (map labs env) x) as [u|]; cbn in IHx |- *; try contradiction; try exact I.
    destruct IHx as (Va & <-). exact (lsquare_correct a Va).
  - destruct (eval_l env x) as [a|], (eval_f (map labs env) x) as [u|]; cbn in IHx |- *; try contradiction; try exact I.
    destruct IHx as (Va & <-). pose proof (linvert_correct a Va) as Hi.
    destruct (linvert a) as [r|].
    + destruct Hi as (Vr & Hnz & Er). apply feqb_neq in Hnz. rewrite Hnz. split; assumption.
    + assert (F : feqb (labs a) fzero = true) by (apply feqb_eq; exact Hi). rewrite F. exact I.
Qed.

(* ---------- the 24-byte codec, byte level: to_repr / from_repr of the limb code = the big-integer codec ---------- *)
Lemma bytes_of_le_mod n v : bytes_of_le n v = bytes_of_le n (v mod 256 ^ N.of_nat n)%N.
Proof.
  pose proof (bytes_of_le_of_bytes (bytes_of_le n v) (wf_bytes_of_le n v)) as H.
  rewrite length_bytes_of_le, le_of_bytes_of_le in H. symmetry. exact H.
Qed.
Definition NW : N := 18446744073709551616%N.
Lemma NW_pow : (256 ^ N.of_nat 8 = NW)%N. Proof. reflexivity. Qed.
Lemma bytes_of_limbs_val r : lwf r -> bytes_of_limbs r = bytes_of_le 24 (Z.to_N (lval r)).
Proof.
  destruct r as [[r0 r1] r2]. unfold lwf, wf64, bytes_of_limbs, lval. intros (A0 & A1 & A2).
  set (n0 := Z.to_N r0). set (n1 := Z.to_N r1). set (n2 := Z.to_N r2).
  assert (B0 : (n0 < NW)%N) by (unfold n0, NW, W in *; lia).
  assert (B1 : (n1 < NW)%N) by (unfold n1, NW, W in *; lia).
  assert (B2 : (n2 < NW)%N) by (unfold n2, NW, W in *; lia).
  assert (E : Z.to_N (r0 + W * r1 + W2 * r2) = (n0 + NW * (n1 + NW * n2))%N) by (unfold n0, n1, n2, NW, W2, W in *; lia).
  rewrite E. change 24%nat with (8 + (8 + 8))%nat.
  rewrite bytes_of_le_app, bytes_of_le_app, NW_pow.
  assert (D1 : ((n0 + NW * (n1 + NW * n2)) / NW = n1 + NW * n2)%N).
  { symmetry. apply N.div_unique with (r := n0); [exact B0|ring]. }
  assert (D2 : ((n1 + NW * n2) / NW = n2)%N).
  { symmetry. apply N.div_unique with (r := n1); [exact B1|ring]. }
  rewrite D1, D2.
  rewrite (bytes_of_le_mod 8 (n0 + NW * (n1 + NW * n2))), (bytes_of_le_mod 8 (n1 + NW * n2)), NW_pow.
  assert (M1 : ((n0 + NW * (n1 + NW * n2)) mod NW = n0)%N).
  { symmetry. apply N.mod_unique with (q := (n1 + NW * n2)%N); [exact B0|ring]. }
  assert (M2 : ((n1 + NW * n2) mod NW = n1)%N).
  { symmetry. apply N.mod_unique with (q := n2); [exact B1|ring]. }
  rewrite M1, M2. reflexivity.
Qed.
Theorem lto_repr_correct a : lvalid a -> lto_repr a = to_repr (labs a).
Proof.
  intros Ha. destruct (lto_canon_correct a Ha) as ((Hw & _) & Hv).
  unfold lto_repr, to_repr. rewrite (bytes_of_limbs_val _ Hw), Hv. reflexivity.
Qed.

Lemma skipn_skipn' {A} n m (l : list A) : skipn n (skipn m l) = skipn (m + n) l.
Proof.
  revert l. induction m as [|m IH]; intros l; [reflexivity|].
  destruct l as [|x l]; cbn [skipn Nat.add]; [apply skipn_nil|apply IH].
Qed.
Lemma limbs_of_bytes_val bs : wf bs -> length bs = 24%nat ->
  lwf (limbs_of_bytes bs) /\ lval (limbs_of_bytes bs) = Z.of_N (le_of_bytes bs).
Proof.
  intros Hwf Hlen. unfold limbs_of_bytes.
  set (c0 := firstn 8 bs). set (c1 := firstn 8 (skipn 8 bs)). set (c2 := firstn 8 (skipn 16 bs)).
  assert (L0 : length c0 = 8%nat) by (unfold c0; rewrite firstn_length; lia).
  assert (L1 : length c1 = 8%nat) by (unfold c1; rewrite firstn_length, skipn_length; lia).
  assert (L2 : length c2 = 8%nat) by (unfold c2; rewrite firstn_length, skipn_length; lia).
  assert (Ebs : bs = c0 ++ c1 ++ c2).
  { unfold c0, c1, c2. rewrite <- (firstn_skipn 8 bs) at 1. f_equal.
    rewrite <- (firstn_skipn 8 (skipn 8 bs)) at 1. f_equal.
    rewrite skipn_skipn'. change (8 + 8)%nat with 16%nat. symmetry. apply firstn_all2. rewrite skipn_length. lia. }
  assert (W0 : wf c0) by (apply wf_firstn; exact Hwf).
  assert (W1 : wf c1) by (apply wf_firstn, wf_skipn; exact Hwf).
  assert (W2' : wf c2) by (apply wf_firstn, wf_skipn; exact Hwf).
  pose proof (le_of_bytes_bound c0 W0) as B0. pose proof (le_of_bytes_bound c1 W1) as B1. pose proof (le_of_bytes_bound c2 W2') as B2.
  rewrite L0 in B0. rewrite L1 in B1. rewrite L2 in B2. rewrite NW_pow in B0, B1, B2.
  clearbody c0 c1 c2. rewrite Ebs. rewrite !le_of_bytes_app, L0, L1, NW_pow.
  set (n0 := le_of_bytes c0) in *. set (n1 := le_of_bytes c1) in *. set (n2 := le_of_bytes c2) in *.
  split.
  - unfold lwf, wf64, NW, W in *. lia.
  - unfold lval, NW, W2, W in *. lia.
Qed.
Theorem lfrom_repr_correct bs : wf bs ->
  match lfrom_repr bs, from_repr bs with
  | Some t, Some x => lvalid t /\ labs t = x
  | None, None => True
  | _, _ => False
  end.
Proof.
  intros Hwf. unfold lfrom_repr, from_repr. change Params.field_element_len with 24%nat.
  destruct (Nat.eqb_spec (length bs) 24) as [Hlen | Hlen]; [|exact I].
  destruct (limbs_of_bytes_val bs Hwf Hlen) as (Hw & Hv).
  pose proof (lfrom_canon_correct _ Hw) as Hc. rewrite Hv in Hc.
  destruct (lfrom_canon (limbs_of_bytes bs)) as [t|].
  - destruct Hc as (Hlt & Vt & Et). apply Z.ltb_lt in Hlt. rewrite Hlt. split; assumption.
  - apply Z.ltb_ge in Hc. rewrite Hc. exact I.
Qed.
