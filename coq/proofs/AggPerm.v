(* Order independence of the reference aggregation as ONE statement: for honest reports, permuting the input
   permutes the output entries and, inside each entry, the associated data. *)
From Coq Require Import ZArith NArith List Permutation Lia.
Import ListNotations.
From StarV Require Import Params Bytes Strobe Fp Shamir Adss Star Wasm FieldFacts AdssFacts CodecFacts StarFacts WasmFacts.

Definition entry_equiv (a b : bytes * list (option bytes)) : Prop := fst a = fst b /\ Permutation (snd a) (snd b).
Definition out_equiv (o o' : list (bytes * list (option bytes))) : Prop :=
  exists o'', Permutation o o'' /\ Forall2 entry_equiv o'' o'.

Section AP.
Variable F : list N -> list N.
Hypothesis HF : forall l, wf (F l).
Variables (e : bytes) (t : N).

Definition honest_items (items : list item) : Prop :=
  Forall (fun it => fits32 (gm (fst it)) /\ client_ok (gm (fst it)) (snd it) /\
                    polys_from F t (sharing_of F (commune_of F t (grnd (fst it)))) = Ok (Some (gpolys (fst it)))) items /\
  (forall a b, In a items -> In b items -> itag F a = itag F b -> fst a = fst b) /\
  (forall T, qualifies F t items T = true ->
     (t <= N.of_nat (length (nodup fp_eq_dec (map snd (clients_of F items T)))))%N).

Lemma nodup_perm_length (l l' : list fp) : Permutation l l' -> length (nodup fp_eq_dec l) = length (nodup fp_eq_dec l').
Proof.
  intros H. apply Permutation_length. apply NoDup_Permutation; try apply NoDup_nodup.
  intros x. rewrite !nodup_In. split; intros Hx.
  - eapply Permutation_in; eassumption.
  - eapply Permutation_in; [apply Permutation_sym; eassumption|exact Hx].
Qed.

Lemma honest_items_perm items items' : Permutation items items' -> honest_items items -> honest_items items'.
Proof.
  intros HP (Hh & Hinj & Hd). split; [|split].
  - eapply Permutation_Forall; eassumption.
  - intros a b Ha Hb. apply Hinj; eapply Permutation_in; try eassumption; apply Permutation_sym; exact HP.
  - intros T HT. rewrite <- (qualifies_perm F t items items' T HP) in HT. specialize (Hd T HT).
    rewrite <- (nodup_perm_length _ _ (Permutation_map snd (clients_perm F items items' T HP))). exact Hd.
Qed.

Lemma find_tag_in (items : list item) T it :
  find (fun it => bytes_eqb (itag F it) T) items = Some it -> In it items /\ itag F it = T.
Proof. intros H. apply find_some in H. destruct H as [Hin E]. split; [exact Hin|apply bytes_eqb_eq; exact E]. Qed.

Lemma gm_of_perm items items' T : Permutation items items' ->
  (forall a b, In a items -> In b items -> itag F a = itag F b -> fst a = fst b) ->
  gm_of F items T = gm_of F items' T.
Proof.
  intros HP Hinj. unfold gm_of.
  destruct (find _ items) as [a|] eqn:Ea; destruct (find _ items') as [b|] eqn:Eb.
  - apply find_tag_in in Ea. apply find_tag_in in Eb. destruct Ea as [Ha Ta]. destruct Eb as [Hb Tb].
    assert (Hb' : In b items) by (eapply Permutation_in; [apply Permutation_sym; exact HP|exact Hb]).
    rewrite (Hinj a b Ha Hb' (eq_trans Ta (eq_sym Tb))). reflexivity.
  - exfalso. apply find_tag_in in Ea. destruct Ea as [Ha Ta].
    assert (Ha' : In a items') by (eapply Permutation_in; eassumption).
    pose proof (find_none _ _ Eb a Ha') as Hn. cbv beta in Hn. rewrite Ta, bytes_eqb_refl in Hn. discriminate.
  - exfalso. apply find_tag_in in Eb. destruct Eb as [Hb Tb].
    assert (Hb' : In b items) by (eapply Permutation_in; [apply Permutation_sym; exact HP|exact Hb]).
    pose proof (find_none _ _ Ea b Hb') as Hn. cbv beta in Hn. rewrite Tb, bytes_eqb_refl in Hn. discriminate.
  - reflexivity.
Qed.

Definition out_of (items : list item) : list (bytes * list (option bytes)) :=
  map (fun T => (gm_of F items T, map (fun cl : option bytes * fp => norm_aux (fst cl)) (clients_of F items T)))
      (filter (qualifies F t items) (first_tags (map (imsg F e t) items))).

Theorem aggregate_perm (items items' : list item) :
  (1 <= t < two32)%N -> honest_items items -> Permutation items items' ->
  aggregate F t e (map (imsg F e t) items) = Ok (out_of items) /\
  aggregate F t e (map (imsg F e t) items') = Ok (out_of items') /\
  out_equiv (out_of items) (out_of items').
Proof.
  intros Ht Hh HP. pose proof (honest_items_perm items items' HP Hh) as Hh'.
  destruct Hh as (H1 & H2 & H3). destruct Hh' as (H1' & H2' & H3').
  split; [exact (aggregate_honest F HF e t items Ht H1 H2 H3)|].
  split; [exact (aggregate_honest F HF e t items' Ht H1' H2' H3')|].
  unfold out_equiv, out_of.
  set (f := fun T => (gm_of F items T, map (fun cl : option bytes * fp => norm_aux (fst cl)) (clients_of F items T))).
  set (f' := fun T => (gm_of F items' T, map (fun cl : option bytes * fp => norm_aux (fst cl)) (clients_of F items' T))).
  set (L := filter (qualifies F t items) (first_tags (map (imsg F e t) items))).
  set (L' := filter (qualifies F t items') (first_tags (map (imsg F e t) items'))).
  exists (map f L'). split.
  - apply Permutation_map. unfold L, L'.
    rewrite (filter_ext (qualifies F t items') (qualifies F t items))
      by (intros T; symmetry; apply qualifies_perm; exact HP).
    apply Permutation_filter'. apply first_tags_perm. apply Permutation_map. exact HP.
  - clearbody L'. clear L. induction L' as [|T L' IH]; cbn [map]; constructor; [|exact IH].
    unfold entry_equiv, f, f'. cbn [fst snd]. split.
    + apply gm_of_perm; [exact HP|exact H2].
    + apply Permutation_map. apply clients_perm. exact HP.
Qed.
End AP.
