(* STAR: reports round-trip on the wire, any selection with t distinct shares recovers, and every
   report then decrypts to exactly (measurement, associated data) -- for any permutation F *)
From Coq Require Import ZArith NArith Arith Bool List Lia.
Import ListNotations.
From StarV Require Import Params Bytes Strobe Fp PolyDefs Shamir Adss Star BytesFacts FieldFacts ShamirFacts StrobeFacts AdssFacts CodecFacts.

Section SF.
Variable F : list N -> list N.
Hypothesis F_bytes : forall l, wf (F l).

Lemma labels_agree : Params.lbl_agg_decrypt = Params.lbl_star_encrypt. Proof. reflexivity. Qed.

Theorem ct_roundtrip k d l : ct_decrypt F k (ct_new F k d l) l = d.
Proof.
  unfold ct_decrypt, ct_new.
  assert (H : in_step (key F (new F l) k) (key F (new F l) k)) by (apply in_step_same; rewrite key_recv; apply new_recv).
  destruct (recv_enc_send_enc F _ _ d H) as [E _]. exact E.
Qed.

Lemma length_rng_fill s n : length (snd (rng_fill F s n)) = n.
Proof. unfold rng_fill. apply length_prf. Qed.
Lemma length_digest k ads l : length (strobe_digest F k ads l) = 32%nat.
Proof. unfold strobe_digest. apply length_rng_fill. Qed.
Lemma length_r0 rnd : length (r0 F rnd) = 32%nat. Proof. unfold r0, derive_random_value, digest. apply length_digest. Qed.
Lemma length_r1 rnd : length (r1 F rnd) = 32%nat. Proof. unfold r1, derive_random_value, digest. apply length_digest. Qed.
Lemma length_r2 rnd : length (r2 F rnd) = 32%nat. Proof. unfold r2, derive_random_value, digest. apply length_digest. Qed.

Lemma fits32_small bs n : length bs = n -> (N.of_nat n < two32)%N -> fits32 bs.
Proof. intros H Hn. unfold fits32. rewrite H. exact Hn. Qed.

(* a share of a single-polynomial sharing is well formed on the wire *)
Lemma mk_share_wf (t : N) (h : sharing) (pl : list fp) x :
  (t < two32)%N -> fits32 (hC h) -> fits32 (hD h) -> length (hJ h) = Params.mac_length ->
  ashare_wf (mk_share t h [pl] x).
Proof.
  intros Ht HC HD HJ. unfold ashare_wf. cbn [aA aS aC aD aJ mk_share].
  split; [exact Ht|]. split; [|split; [exact HC|split; [exact HD|exact HJ]]].
  unfold share_to_bytes, evaluate. cbn [sx sy map flat_map]. 
  apply (fits32_small _ 48); [|reflexivity]. rewrite !app_length, !length_to_repr. reflexivity.
Qed.
Lemma mk_share_bytes_len (t : N) (h : sharing) (pl : list fp) x :
  length (ashare_to_bytes (mk_share t h [pl] x)) = (4 + (4 + 48) + (4 + length (hC h)) + (4 + length (hD h)) + length (hJ h))%nat.
Proof.
  unfold ashare_to_bytes. cbn [aA aS aC aD aJ mk_share].
  rewrite !app_length, !store_bytes_length, le32_length.
  unfold share_to_bytes, evaluate. cbn [sx sy map flat_map]. rewrite !app_length, !length_to_repr. cbn [length]. lia.
Qed.

(* the sharing of (t, r0, r1): lengths of its public parts *)
Lemma sharing_lengths c :
  length (hC (sharing_of F c)) = length (cM c) /\ length (hD (sharing_of F c)) = length (cR c) /\
  length (hJ (sharing_of F c)) = Params.mac_length.
Proof.
  destruct (sharing_of_fields F c) as (HJ & _ & HC & HD & _). cbv zeta in *.
  rewrite HJ, HC, HD. rewrite !length_send_enc, length_send_mac. repeat split.
Qed.

(* ---------- what star_reports produces ---------- *)
Definition report_of (m e : bytes) (t : N) (rnd : bytes) (polys : list (list fp)) (cl : option bytes * fp) : message :=
  {| mCt := ct_new F (derive_ske_key F (r0 F rnd) e) (payload m (fst cl)) Params.lbl_star_encrypt;
     mShare := mk_share t (sharing_of F (commune_of F t rnd)) polys (snd cl);
     mTag := r2 F rnd |}.

Lemma combine_map_snd {A B C} (g : B -> C) (l : list (A * B)) (f : A * B * C -> message) :
  map f (combine l (map g (map snd l))) = map (fun cl => f (cl, g (snd cl))) l.
Proof. induction l as [|[a b] l IH]; cbn [map combine snd]; [reflexivity|]. rewrite IH. reflexivity. Qed.

Lemma star_reports_inv m e t rnd clients msgs :
  star_reports F m e t rnd clients = Ok (Some msgs) ->
  exists polys, polys_from F t (sharing_of F (commune_of F t rnd)) = Ok (Some polys) /\
                msgs = map (report_of m e t rnd polys) clients.
Proof.
  unfold star_reports.
  destruct (shares_at F (commune_of F t rnd) (map snd clients)) as [[shs|]| |] eqn:Es; intros H;
    [|discriminate H|discriminate H|discriminate H].
  destruct (shares_at_inv F _ _ _ Es) as (polys & Hp & ->). cbn [cA commune_of] in Hp, H |- *.
  cbv zeta in H. apply Ok_inj in H.
  assert (Some_inj : forall (A : Type) (a b : A), Some a = Some b -> a = b) by (intros; congruence).
  apply Some_inj in H. subst msgs. exists polys. split; [exact Hp|].
  rewrite (combine_map_snd (mk_share t (sharing_of F (commune_of F t rnd)) polys) clients
            (fun p => {| mCt := ct_new F (derive_ske_key F (r0 F rnd) e) (payload m (fst (fst p))) Params.lbl_star_encrypt;
                         mShare := snd p; mTag := r2 F rnd |})).
  reflexivity.
Qed.

Definition client_ok (m : bytes) (cl : option bytes * fp) : Prop :=
  fits32 (payload m (fst cl)) /\ match fst cl with Some a => fits32 a | None => True end.

(* ---------- C01 ---------- *)
Theorem star_end_to_end m e (t : N) rnd clients msgs :
  (1 <= t < two32)%N -> fits32 m -> Forall (client_ok m) clients ->
  star_reports F m e t rnd clients = Ok (Some msgs) ->
  (* every report survives the wire *)
  Forall (fun mm => message_from_bytes (message_to_bytes mm) = Ok mm) msgs /\
  (* any collection of these reports holding t distinct shares recovers the shared value *)
  (forall picked, incl picked msgs -> picked <> [] ->
     (t <= N.of_nat (length (nodup fp_eq_dec (map (fun mm => sx (aS (mShare mm))) picked))))%N ->
     share_recover F (map mShare picked) = Ok (commune_of F t rnd)) /\
  (* and with the key derived from it every report opens to exactly what its client supplied *)
  Forall2 (fun mm cl => parse_payload_strict
             (ct_decrypt F (derive_ske_key F (cM (commune_of F t rnd)) e) (mCt mm) Params.lbl_agg_decrypt)
             = Ok (m, fst cl)) msgs clients.
Proof.
  intros [Ht1 Ht2] Hm Hcl Hs.
  destruct (star_reports_inv _ _ _ _ _ _ Hs) as (polys & Hp & ->).
  set (c := commune_of F t rnd) in *.
  (* the single polynomial *)
  destruct (polys_from_key F t (sharing_of F c) polys (hK_len F c) (hK_wf F F_bytes c) Hp) as (cs & el & Hpolys & _ & _).
  destruct (sharing_lengths c) as (LC & LD & LJ).
  assert (HcM : length (cM c) = 32%nat) by apply length_r0.
  assert (HcR : length (cR c) = 32%nat) by apply length_r1.
  split; [|split].
  - apply Forall_forall. intros mm Hin. apply in_map_iff in Hin. destruct Hin as [cl [<- Hcl']].
    rewrite Forall_forall in Hcl. destruct (Hcl cl Hcl') as [Hpay _].
    apply message_roundtrip. unfold message_wf, report_of. cbn [mCt mShare mTag]. fold c.
    rewrite Hpolys.
    split; [|split; [|split]].
    + unfold fits32, ct_new. rewrite length_send_enc. exact Hpay.
    + apply mk_share_wf; [exact Ht2| | |exact LJ].
      * apply (fits32_small _ 32); [rewrite LC; exact HcM|reflexivity].
      * apply (fits32_small _ 32); [rewrite LD; exact HcR|reflexivity].
    + eapply fits32_small; [apply mk_share_bytes_len|]. rewrite LC, LD, LJ, HcM, HcR. reflexivity.
    + apply (fits32_small _ 32); [apply length_r2|reflexivity].
  - intros picked Hincl Hne Hcnt.
    assert (Hshape : map mShare picked = map (mk_share (cA c) (sharing_of F c) polys) (map (fun mm => sx (aS (mShare mm))) picked)).
    { rewrite map_map. apply map_ext_in. intros mm Hin. apply Hincl in Hin. apply in_map_iff in Hin.
      destruct Hin as [cl [<- _]]. reflexivity. }
    unfold share_recover. rewrite Hshape.
    apply (arecover_shares F F_bytes c polys); [reflexivity|exact Ht1|exact Hp| |exact Hcnt].
    destruct picked; [congruence|discriminate].
  - rewrite labels_agree. clear Hs. induction clients as [|cl clients IH]; cbn [map]; constructor.
    + unfold report_of at 1. cbn [mCt]. change (cM c) with (r0 F rnd). rewrite ct_roundtrip.
      inversion Hcl as [|? ? [_ Ha] _]; subst. apply payload_parse; assumption.
    + apply IH. inversion Hcl; assumption.
Qed.
End SF.
