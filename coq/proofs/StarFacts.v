(* STAR: reports round-trip on the wire, any selection with t distinct shares recovers, and every
   report then decrypts to exactly (measurement, associated data) -- for any permutation F *)
From Coq Require Import ZArith NArith Arith Bool List Lia.
Import ListNotations.
From StarV Require Import Params Bytes Strobe Fp PolyDefs Shamir Adss Star BytesFacts FieldFacts ShamirFacts StrobeFacts AdssFacts CodecFacts.

Section SF.
Variable F : list N -> list N.
Hypothesis F_bytes : forall l, wf (F l).

Lemma labels_agree : Params.lbl_agg_decrypt = Params.lbl_star_encrypt. Proof. reflexivity. Qed.

Theorem ct_roundtrip k d l : ct_decrypt F k (ct_new F k d l) l = d.
Proof.
  unfold ct_decrypt, ct_new.
  assert (H : in_step (key F (new F l) k) (key F (new F l) k)) by (apply in_step_same; rewrite key_recv; apply new_recv).
  destruct (recv_enc_send_enc F _ _ d H) as [E _]. exact E.
Qed.

Lemma length_rng_fill s n : length (snd (rng_fill F s n)) = n.
Proof. unfold rng_fill. apply length_prf. Qed.
Lemma length_digest k ads l : length (strobe_digest F k ads l) = 32%nat.
Proof. unfold strobe_digest. apply length_rng_fill. Qed.
Lemma length_r0 rnd : length (r0 F rnd) = 32%nat. Proof. unfold r0, derive_random_value, digest. apply length_digest. Qed.
Lemma length_r1 rnd : length (r1 F rnd) = 32%nat. Proof. unfold r1, derive_random_value, digest. apply length_digest. Qed.
Lemma length_r2 rnd : length (r2 F rnd) = 32%nat. Proof. unfold r2, derive_random_value, digest. apply length_digest. Qed.

Lemma fits32_small bs n : length bs = n -> (N.of_nat n < two32)%N -> fits32 bs.
Proof. intros H Hn. unfold fits32. rewrite H. exact Hn. Qed.

(* a share of a single-polynomial sharing is well formed on the wire *)
Lemma mk_share_wf (t : N) (h : sharing) (pl : list fp) x :
  (t < two32)%N -> fits32 (hC h) -> fits32 (hD h) -> length (hJ h) = Params.mac_length ->
  ashare_wf (mk_share t h [pl] x).
Proof.
  intros Ht HC HD HJ. unfold ashare_wf. cbn [aA aS aC aD aJ mk_share].
  split; [exact Ht|]. split; [|split; [exact HC|split; [exact HD|exact HJ]]].
  unfold share_to_bytes, evaluate. cbn [sx sy map flat_map]. 
  apply (fits32_small _ 48); [|reflexivity]. rewrite !app_length, !length_to_repr. reflexivity.
Qed.
Lemma mk_share_bytes_len (t : N) (h : sharing) (pl : list fp) x :
  length (ashare_to_bytes (mk_share t h [pl] x)) = (4 + (4 + 48) + (4 + length (hC h)) + (4 + length (hD h)) + length (hJ h))%nat.
Proof.
  unfold ashare_to_bytes. cbn [aA aS aC aD aJ mk_share].
  rewrite !app_length, !store_bytes_length, le32_length.
  unfold share_to_bytes, evaluate. cbn [sx sy map flat_map]. rewrite !app_length, !length_to_repr. cbn [length]. lia.
Qed.

(* the sharing of (t, r0, r1): lengths of its public parts *)
Lemma sharing_lengths c :
  length (hC (sharing_of F c)) = length (cM c) /\ length (hD (sharing_of F c)) = length (cR c) /\
  length (hJ (sharing_of F c)) = Params.mac_length.
Proof.
  destruct (sharing_of_fields F c) as (HJ & _ & HC & HD & _). cbv zeta in *.
  rewrite HJ, HC, HD. rewrite !length_send_enc, length_send_mac. repeat split.
Qed.

(* ---------- what star_reports produces ---------- *)
Definition report_of (m e : bytes) (t : N) (rnd : bytes) (polys : list (list fp)) (cl : option bytes * fp) : message :=
  {| mCt := ct_new F (derive_ske_key F (r0 F rnd) e) (payload m (fst cl)) Params.lbl_star_encrypt;
     mShare := mk_share t (sharing_of F (commune_of F t rnd)) polys (snd cl);
     mTag := r2 F rnd |}.

Lemma combine_map_snd {A B C} (g : B -> C) (l : list (A * B)) (f : A * B * C -> message) :
  map f (combine l (map g (map snd l))) = map (fun cl => f (cl, g (snd cl))) l.
Proof. induction l as [|[a b] l IH]; cbn [map combine snd]; [reflexivity|]. rewrite IH. reflexivity. Qed.

Lemma star_reports_inv m e t rnd clients msgs :
  star_reports F m e t rnd clients = Ok (Some msgs) ->
  exists polys, polys_from F t (sharing_of F (commune_of F t rnd)) = Ok (Some polys) /\
                msgs = map (report_of m e t rnd polys) clients.
Proof.
  unfold star_reports.
  destruct (shares_at F (commune_of F t rnd) (map snd clients)) as [[shs|]| |] eqn:Es; intros H;
    [|discriminate H|discriminate H|discriminate H].
  destruct (shares_at_inv F _ _ _ Es) as (polys & Hp & ->). cbn [cA commune_of] in Hp, H |- *.
  cbv zeta in H. apply Ok_inj in H.
  assert (Some_inj : forall (A : Type) (a b : A), Some a = Some b -> a = b) by (intros; congruence).
  apply Some_inj in H. subst msgs. exists polys. split; [exact Hp|].
  rewrite (combine_map_snd (mk_share t (sharing_of F (commune_of F t rnd)) polys) clients
            (fun p => {| mCt := ct_new F (derive_ske_key F (r0 F rnd) e) (payload m (fst (fst p))) Params.lbl_star_encrypt;
                         mShare := snd p; mTag := r2 F rnd |})).
  reflexivity.
Qed.

Definition client_ok (m : bytes) (cl : option bytes * fp) : Prop :=
  fits32 (payload m (fst cl)) /\ match fst cl with Some a => fits32 a | None => True end.

(* ---------- C01 ---------- *)
Theorem star_end_to_end m e (t : N) rnd clients msgs :
  (1 <= t < two32)%N -> fits32 m -> Forall (client_ok m) clients ->
  star_reports F m e t rnd clients = Ok (Some msgs) ->
  (* every report survives the wire *)
  Forall (fun mm => message_from_bytes (message_to_bytes mm) = Ok mm) msgs /\
  (* any collection of these reports holding t distinct shares recovers the shared value *)
  (forall picked, incl picked msgs -> picked <> [] ->
     (t <= N.of_nat (length (nodup fp_eq_dec (map (fun mm => sx (aS (mShare mm))) picked))))%N ->
     share_recover F (map mShare picked) = Ok (commune_of F t rnd)) /\
  (* and with the key derived from it every report opens to exactly what its client supplied *)
  Forall2 (fun mm cl => parse_payload_strict
             (ct_decrypt F (derive_ske_key F (cM (commune_of F t rnd)) e) (mCt mm) Params.lbl_agg_decrypt)
             = Ok (m, fst cl)) msgs clients.
Proof.
  intros [Ht1 Ht2] Hm Hcl Hs.
  destruct (star_reports_inv _ _ _ _ _ _ Hs) as (polys & Hp & ->).
  set (c := commune_of F t rnd) in *.
  (* the single polynomial *)
  destruct (polys_from_key F t (sharing_of F c) polys (hK_len F c) (hK_wf F F_bytes c) Hp) as (cs & el & Hpolys & _ & _).
  destruct (sharing_lengths c) as (LC & LD & LJ).
  assert (HcM : length (cM c) = 32%nat) by exact (length_r0 rnd).
  assert (HcR : length (cR c) = 32%nat) by exact (length_r1 rnd).
  split; [|split].
  - apply Forall_forall. intros mm Hin. apply in_map_iff in Hin. destruct Hin as [cl [<- Hcl']].
    rewrite Forall_forall in Hcl. destruct (Hcl cl Hcl') as [Hpay _].
    apply message_roundtrip. unfold message_wf, report_of. cbn [mCt mShare mTag]. fold c.
    rewrite Hpolys.
    split; [|split; [|split]].
    + unfold fits32, ct_new. rewrite length_send_enc. exact Hpay.
    + apply mk_share_wf; [exact Ht2| | |exact LJ].
      * apply (fits32_small _ 32); [rewrite LC; exact HcM|reflexivity].
      * apply (fits32_small _ 32); [rewrite LD; exact HcR|reflexivity].
    + eapply fits32_small; [apply mk_share_bytes_len|]. rewrite LC, LD, LJ, HcM, HcR. reflexivity.
    + apply (fits32_small _ 32); [exact (length_r2 rnd)|reflexivity].
  - intros picked Hincl Hne Hcnt.
    assert (Hshape : map mShare picked = map (mk_share (cA c) (sharing_of F c) polys) (map (fun mm => sx (aS (mShare mm))) picked)).
    { rewrite map_map. apply map_ext_in. intros mm Hin. apply Hincl in Hin. apply in_map_iff in Hin.
      destruct Hin as [cl [<- _]]. reflexivity. }
    unfold share_recover. rewrite Hshape.
    apply (arecover_shares F F_bytes c polys); [reflexivity|exact Ht1|exact Hp| |exact Hcnt].
    destruct picked; [congruence|discriminate].
  - rewrite labels_agree. clear Hs. induction clients as [|cl clients IH]; cbn [map]; constructor.
    + unfold report_of at 1. cbn [mCt]. change (cM c) with (r0 F rnd). rewrite ct_roundtrip.
      inversion Hcl as [|? ? [_ Ha] _]; subst. apply payload_parse; assumption.
    + apply IH. inversion Hcl; assumption.
Qed.

(* ---------- C04: what independent clients of one triple share ---------- *)
Theorem reports_static m e (t : N) rnd clients msgs :
  star_reports F m e t rnd clients = Ok (Some msgs) ->
  exists polys, polys_from F t (sharing_of F (commune_of F t rnd)) = Ok (Some polys) /\
  Forall2 (fun mm cl =>
     mTag mm = r2 F rnd /\
     mCt mm = ct_new F (derive_ske_key F (r0 F rnd) e) (payload m (fst cl)) Params.lbl_star_encrypt /\
     aA (mShare mm) = t /\ aS (mShare mm) = evaluate polys (snd cl) /\
     aC (mShare mm) = hC (sharing_of F (commune_of F t rnd)) /\
     aD (mShare mm) = hD (sharing_of F (commune_of F t rnd)) /\
     aJ (mShare mm) = hJ (sharing_of F (commune_of F t rnd))) msgs clients.
Proof.
  intros Hs. destruct (star_reports_inv _ _ _ _ _ _ Hs) as (polys & Hp & ->). exists polys. split; [exact Hp|].
  clear Hs. induction clients as [|cl clients IH]; cbn [map]; constructor; [repeat split|exact IH].
Qed.

(* the WASM entry point derives the same key, share and tag as a report of the same triple *)
Theorem wasm_material_spec m e (t : N) x k sh tg :
  wasm_material F m e t x = Ok (Some (k, sh, tg)) ->
  k = derive_ske_key F (r0 F (sample_local F m e t)) e /\ tg = r2 F (sample_local F m e t) /\
  share_at F (commune_of F t (sample_local F m e t)) x = Ok (Some sh).
Proof.
  unfold wasm_material. cbv zeta.
  destruct (share_at F (commune_of F t (sample_local F m e t)) x) as [[s|]| |]; intros H;
    [|discriminate H|discriminate H|discriminate H].
  apply Ok_inj in H. assert (H' : (derive_ske_key F (r0 F (sample_local F m e t)) e, s, r2 F (sample_local F m e t)) = (k, sh, tg)) by congruence.
  clear H. assert (E1 : derive_ske_key F (r0 F (sample_local F m e t)) e = k) by congruence.
  assert (E2 : s = sh) by congruence. assert (E3 : r2 F (sample_local F m e t) = tg) by congruence.
  subst. repeat split.
Qed.

(* ---------- C04: derivations are injective up to an explicit digest collision ---------- *)
Definition DigestCollision (lbl : bytes) : Prop :=
  exists k ads k' ads', (k, ads) <> (k', ads') /\ strobe_digest F k ads lbl = strobe_digest F k' ads' lbl.

Lemma le32_inj a b : (a < two32)%N -> (b < two32)%N -> le32 a = le32 b -> a = b.
Proof.
  intros Ha Hb H. apply (f_equal le_of_bytes) in H. unfold le32 in H.
  rewrite !le_of_bytes_of_le_small in H by assumption. exact H.
Qed.

Lemma pair_list_neq1 (k k' : bytes) (a a' : list bytes) : k <> k' -> (k, a) <> (k', a').
Proof. intros H E. apply H. exact (f_equal fst E). Qed.
Lemma pair_list_neq2 (k k' : bytes) (a a' : list bytes) : a <> a' -> (k, a) <> (k', a').
Proof. intros H E. apply H. exact (f_equal snd E). Qed.
Lemma two_list_neq1 (e e' x x' : bytes) : e <> e' -> [e; x] <> [e'; x'].
Proof. intros H E. apply H. exact (f_equal (fun l => hd [] l) E). Qed.
Lemma two_list_neq2 (e e' x x' : bytes) : x <> x' -> [e; x] <> [e'; x'].
Proof. intros H E. apply H. exact (f_equal (fun l => hd [] (tl l)) E). Qed.
Lemma one_list_neq (e e' : bytes) : e <> e' -> [e] <> [e'].
Proof. intros H E. apply H. exact (f_equal (fun l => hd [] l) E). Qed.

Theorem sample_local_injective m e (t : N) m' e' (t' : N) : (t < two32)%N -> (t' < two32)%N ->
  sample_local F m e t = sample_local F m' e' t' ->
  (m, e, t) = (m', e', t') \/ DigestCollision Params.lbl_star_sample_local.
Proof.
  intros Ht Ht' H. unfold sample_local, digest in H.
  destruct (list_eq_dec N.eq_dec m m') as [Em|Em].
  - destruct (list_eq_dec N.eq_dec e e') as [Ee|Ee].
    + destruct (N.eq_dec t t') as [Et|Et]; [left; clear H; subst; reflexivity|].
      right. exists m, [e; le32 t], m', [e'; le32 t']. split; [|exact H]. clear H.
      apply pair_list_neq2, two_list_neq2. intro E. apply Et. apply le32_inj; assumption.
    + right. exists m, [e; le32 t], m', [e'; le32 t']. split; [|exact H]. clear H.
      apply pair_list_neq2, two_list_neq1. exact Ee.
  - right. exists m, [e; le32 t], m', [e'; le32 t']. split; [|exact H]. clear H. apply pair_list_neq1. exact Em.
Qed.

Theorem tag_injective rnd rnd' : r2 F rnd = r2 F rnd' -> rnd = rnd' \/ DigestCollision Params.lbl_star_derive_randoms.
Proof.
  intros H. unfold r2, derive_random_value, digest in H.
  destruct (list_eq_dec N.eq_dec rnd rnd') as [E|E]; [left; exact E|].
  right. exists rnd, [[2%N]], rnd', [[2%N]]. split; [|exact H]. apply pair_list_neq1. exact E.
Qed.
Theorem r0_injective rnd rnd' : r0 F rnd = r0 F rnd' -> rnd = rnd' \/ DigestCollision Params.lbl_star_derive_randoms.
Proof.
  intros H. unfold r0, derive_random_value, digest in H.
  destruct (list_eq_dec N.eq_dec rnd rnd') as [E|E]; [left; exact E|].
  right. exists rnd, [[0%N]], rnd', [[0%N]]. split; [|exact H]. apply pair_list_neq1. exact E.
Qed.
(* keys are 16-byte truncations: equal keys mean equal (r0, epoch) or two digests agreeing in their first 16 bytes *)
Definition TruncatedDigestCollision (lbl : bytes) (n : nat) : Prop :=
  exists k ads k' ads', (k, ads) <> (k', ads') /\ firstn n (strobe_digest F k ads lbl) = firstn n (strobe_digest F k' ads' lbl).
Theorem key_injective r e r' e' : derive_ske_key F r e = derive_ske_key F r' e' ->
  (r, e) = (r', e') \/ TruncatedDigestCollision Params.lbl_star_derive_ske_key Params.star_key_len.
Proof.
  intros H. unfold derive_ske_key, digest in H.
  destruct (list_eq_dec N.eq_dec r r') as [Er|Er].
  - destruct (list_eq_dec N.eq_dec e e') as [Ee|Ee]; [left; clear H; subst; reflexivity|].
    right. exists r, [e], r', [e']. split; [|exact H]. apply pair_list_neq2, one_list_neq. exact Ee.
  - right. exists r, [e], r', [e']. split; [|exact H]. apply pair_list_neq1. exact Er.
Qed.

(* ---------- C03: the payload cipher is a plain stream cipher on its first block ---------- *)
Definition ks_state (k l : bytes) : strobe := begin_op F (key F (new F l) k) fl_send_enc.

Lemma nth_upd_other l i j f : i <> j -> nth i (upd l j f) 0%N = nth i l 0%N.
Proof.
  revert i j. induction l as [|h t IH]; intros i j Hne; [destruct j; reflexivity|].
  destruct j as [|j]; destruct i as [|i]; cbn [upd nth]; try reflexivity; [congruence|apply IH; congruence].
Qed.

Lemma adv_no_wrap s l : S (pos s) <> rate ->
  adv F s l = {| st := l; pos := S (pos s); pos_begin := pos_begin s; is_recv := is_recv s |}.
Proof. intros H. unfold adv. cbn [pos]. destruct (Nat.eqb (S (pos s)) rate) eqn:Er; [apply Nat.eqb_eq in Er; contradiction|reflexivity]. Qed.

Lemma stream_block : forall d s i, (pos s + length d <= rate)%nat -> (i < length d)%nat ->
  nth i (snd (mapacc (absorb_set1 F) s d)) 0%N = N.lxor (nth (pos s + i) (st s) 0%N) (nth i d 0%N).
Proof.
  induction d as [|b d IH]; intros s i Hlen Hi; [cbn in Hi; lia|]. cbn [mapacc].
  unfold absorb_set1 at 1.
  destruct (mapacc (absorb_set1 F) (adv F s (upd (st s) (pos s) (fun _ => N.lxor (cur s) b))) d) as [s2 cs] eqn:E. cbn [snd].
  destruct i as [|i]; cbn [nth].
  - rewrite Nat.add_0_r. reflexivity.
  - cbn [length] in Hlen, Hi.
    rewrite adv_no_wrap in E by lia.
    pose proof (IH {| st := upd (st s) (pos s) (fun _ => N.lxor (cur s) b); pos := S (pos s); pos_begin := pos_begin s; is_recv := is_recv s |} i) as IH'.
    rewrite E in IH'. cbn [snd pos st] in IH'.
    rewrite IH' by lia.
    rewrite nth_upd_other by lia. f_equal. f_equal. lia.
Qed.

Lemma begin_core_pos0 s fl : has fl fC = true -> pos (begin_core F s fl) = 0%nat.
Proof.
  intros HC. unfold begin_core. rewrite HC. cbn [andb].
  destruct (Nat.eqb (pos _) 0) eqn:E; cbn [negb]; [apply Nat.eqb_eq in E; exact E|reflexivity].
Qed.
Lemma ks_state_pos0 k l : pos (ks_state k l) = 0%nat.
Proof.
  unfold ks_state. rewrite begin_op_send; try reflexivity.
  - apply begin_core_pos0. reflexivity.
  - rewrite key_recv, new_recv. discriminate.
Qed.

(* ciphertext byte i (i < 166) = payload byte i XOR a keystream byte that does not depend on the payload *)
Theorem first_block_stream k l p i : (i < length p)%nat -> (i < rate)%nat ->
  nth i (ct_new F k p l) 0%N = N.lxor (nth i (st (ks_state k l)) 0%N) (nth i p 0%N).
Proof.
  intros Hi Hr. unfold ct_new, send_enc. fold (ks_state k l).
  pose proof (ks_state_pos0 k l) as H0.
  (* only the first rate bytes matter: split the payload *)
  rewrite <- (firstn_skipn rate p) at 1.
  assert (G : forall d1 d2 s, snd (mapacc (absorb_set1 F) s (d1 ++ d2)) =
              snd (mapacc (absorb_set1 F) s d1) ++ snd (mapacc (absorb_set1 F) (fst (mapacc (absorb_set1 F) s d1)) d2)).
  { induction d1 as [|b d1 IHd]; intros d2 s; cbn [app mapacc fst snd]; [reflexivity|].
    destruct (absorb_set1 F s b) as [s1 o]. specialize (IHd d2 s1).
    destruct (mapacc (absorb_set1 F) s1 (d1 ++ d2)) as [sa ca]. destruct (mapacc (absorb_set1 F) s1 d1) as [sb cb].
    cbn [fst snd] in *. rewrite IHd. reflexivity. }
  rewrite G. rewrite app_nth1 by (rewrite length_mapacc, firstn_length; lia).
  rewrite stream_block by (rewrite ?H0, firstn_length; lia). rewrite H0. cbn [Nat.add].
  f_equal. rewrite <- (firstn_skipn rate p) at 2. rewrite app_nth1 by (rewrite firstn_length; lia). reflexivity.
Qed.

(* hence: two payloads under one key -- the ciphertext difference IS the payload difference, byte for byte *)
Theorem keystream_reuse k l p1 p2 i : (i < length p1)%nat -> (i < length p2)%nat -> (i < rate)%nat ->
  N.lxor (nth i (ct_new F k p1 l) 0%N) (nth i (ct_new F k p2 l) 0%N) = N.lxor (nth i p1 0%N) (nth i p2 0%N).
Proof.
  intros H1 H2 Hr. rewrite !first_block_stream by assumption.
  set (a := nth i (st (ks_state k l)) 0%N). set (x := nth i p1 0%N). set (y := nth i p2 0%N).
  rewrite N.lxor_assoc, <- (N.lxor_assoc x a y), (N.lxor_comm x a), N.lxor_assoc, <- N.lxor_assoc, N.lxor_nilpotent, N.lxor_0_l.
  reflexivity.
Qed.

(* the same after any common prefix: the two states agree after the prefix, so the relation holds up
   to the end of the STROBE block that contains the first differing payload byte *)
Lemma mapacc_app : forall (d1 d2 : bytes) s,
  snd (mapacc (absorb_set1 F) s (d1 ++ d2)) =
  snd (mapacc (absorb_set1 F) s d1) ++ snd (mapacc (absorb_set1 F) (fst (mapacc (absorb_set1 F) s d1)) d2).
Proof.
  induction d1 as [|b d1 IHd]; intros d2 s; cbn [app mapacc fst snd]; [reflexivity|].
  destruct (absorb_set1 F s b) as [s1 o]. specialize (IHd d2 s1).
  destruct (mapacc (absorb_set1 F) s1 (d1 ++ d2)) as [sa ca]. destruct (mapacc (absorb_set1 F) s1 d1) as [sb cb].
  cbn [fst snd] in *. rewrite IHd. reflexivity.
Qed.

Definition state_after (k l pre : bytes) : strobe := fst (mapacc (absorb_set1 F) (ks_state k l) pre).

Theorem keystream_reuse_after_prefix k l pre p1 p2 i :
  (pos (state_after k l pre) + i < rate)%nat -> (i < length p1)%nat -> (i < length p2)%nat ->
  N.lxor (nth (length pre + i) (ct_new F k (pre ++ p1) l) 0%N) (nth (length pre + i) (ct_new F k (pre ++ p2) l) 0%N)
  = N.lxor (nth i p1 0%N) (nth i p2 0%N).
Proof.
  intros Hr H1 H2. unfold ct_new, send_enc. fold (ks_state k l).
  rewrite !mapacc_app. fold (state_after k l pre).
  assert (Hl : length (snd (mapacc (absorb_set1 F) (ks_state k l) pre)) = length pre) by apply length_mapacc.
  rewrite !app_nth2 by lia. rewrite Hl. replace (length pre + i - length pre)%nat with i by lia.
  set (s := state_after k l pre) in *.
  assert (G : forall p, (i < length p)%nat ->
            nth i (snd (mapacc (absorb_set1 F) s p)) 0%N = N.lxor (nth (pos s + i) (st s) 0%N) (nth i p 0%N)).
  { intros p Hp. rewrite <- (firstn_skipn (S i) p) at 1. rewrite mapacc_app.
    rewrite app_nth1 by (rewrite length_mapacc, firstn_length; lia).
    rewrite stream_block by (rewrite firstn_length; lia).
    f_equal. rewrite <- (firstn_skipn (S i) p) at 2. rewrite app_nth1 by (rewrite firstn_length; lia). reflexivity. }
  rewrite !G by assumption.
  set (a := nth (pos s + i) (st s) 0%N). set (x := nth i p1 0%N). set (y := nth i p2 0%N).
  rewrite N.lxor_assoc, <- (N.lxor_assoc x a y), (N.lxor_comm x a), N.lxor_assoc, <- N.lxor_assoc, N.lxor_nilpotent, N.lxor_0_l.
  reflexivity.
Qed.
End SF.
