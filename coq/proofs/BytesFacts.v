(* little-endian encode/decode, byte bounds, slicing *)
From Coq Require Import NArith ZArith Arith Bool List Lia NArithRing.
Import ListNotations.
From StarV Require Import Bytes.

Lemma wf_app a b : wf (a ++ b) <-> wf a /\ wf b.
Proof. unfold wf. apply Forall_app. Qed.
Lemma wf_zeros n : wf (zeros n).
Proof. unfold wf, zeros. induction n; cbn [repeat]; constructor; [lia|assumption]. Qed.
Lemma wf_firstn n l : wf l -> wf (firstn n l).
Proof. unfold wf. revert l. induction n; intros l H; [constructor|]. destruct l; [constructor|]. inversion H; subst. constructor; auto. Qed.
Lemma wf_skipn n l : wf l -> wf (skipn n l).
Proof. unfold wf. revert l. induction n; intros l H; [exact H|]. destruct l; [constructor|]. inversion H; subst. cbn [skipn]. apply IHn. assumption. Qed.

Lemma length_bytes_of_le n v : length (bytes_of_le n v) = n.
Proof. revert v. induction n; intros v; cbn [bytes_of_le length]; [reflexivity|]. rewrite IHn. reflexivity. Qed.
Lemma wf_bytes_of_le n v : wf (bytes_of_le n v).
Proof.
  unfold wf. revert v. induction n; intros v; cbn [bytes_of_le]; constructor; [|apply IHn].
  apply N.mod_lt. lia.
Qed.

Lemma le_of_bytes_of_le n v : le_of_bytes (bytes_of_le n v) = (v mod 256 ^ N.of_nat n)%N.
Proof.
  revert v. induction n as [|n IH]; intros v.
  - cbn. symmetry. apply N.mod_1_r.
  - cbn [bytes_of_le le_of_bytes]. rewrite IH.
    rewrite Nat2N.inj_succ, N.pow_succ_r'.
    rewrite N.mod_mul_r by (try apply N.pow_nonzero; lia). reflexivity.
Qed.
Lemma le_of_bytes_of_le_small n v : (v < 256 ^ N.of_nat n)%N -> le_of_bytes (bytes_of_le n v) = v.
Proof. intros H. rewrite le_of_bytes_of_le. apply N.mod_small. exact H. Qed.

Lemma le_of_bytes_bound bs : wf bs -> (le_of_bytes bs < 256 ^ N.of_nat (length bs))%N.
Proof.
  unfold wf. induction bs as [|b bs IH]; intros H; cbn [le_of_bytes length].
  - cbn. lia.
  - inversion H as [|? ? Hb Hbs]; subst. specialize (IH Hbs).
    rewrite Nat2N.inj_succ, N.pow_succ_r'. lia.
Qed.
Lemma bytes_of_le_of_bytes bs : wf bs -> bytes_of_le (length bs) (le_of_bytes bs) = bs.
Proof.
  unfold wf. induction bs as [|b bs IH]; intros H; cbn [le_of_bytes length bytes_of_le]; [reflexivity|].
  inversion H as [|? ? Hb Hbs]; subst. f_equal.
  - rewrite (N.mul_comm 256), N.mod_add by lia. apply N.mod_small. exact Hb.
  - rewrite (N.mul_comm 256), N.div_add by lia. rewrite (N.div_small b 256) by exact Hb. rewrite N.add_0_l. apply IH. exact Hbs.
Qed.
Lemma le_of_bytes_app a b : le_of_bytes (a ++ b) = (le_of_bytes a + 256 ^ N.of_nat (length a) * le_of_bytes b)%N.
Proof.
  induction a as [|x a IH]; cbn [app le_of_bytes length].
  - change (N.of_nat 0) with 0%N. rewrite N.pow_0_r. ring.
  - rewrite IH, Nat2N.inj_succ, N.pow_succ_r'. ring.
Qed.
Lemma le_of_bytes_zeros n : le_of_bytes (zeros n) = 0%N.
Proof. unfold zeros. induction n; cbn [repeat le_of_bytes]; [reflexivity|]. rewrite IHn. reflexivity. Qed.
Lemma bytes_of_le_app n m v : bytes_of_le (n + m) v = bytes_of_le n v ++ bytes_of_le m (v / 256 ^ N.of_nat n).
Proof.
  revert v. induction n as [|n IH]; intros v.
  - cbn [Nat.add bytes_of_le app]. cbn. rewrite N.div_1_r. reflexivity.
  - cbn [Nat.add bytes_of_le app]. rewrite IH. f_equal. f_equal.
    rewrite Nat2N.inj_succ, N.pow_succ_r', N.div_div by (try apply N.pow_nonzero; lia). reflexivity.
Qed.
Lemma bytes_of_le_zero n : bytes_of_le n 0 = zeros n.
Proof. unfold zeros. induction n; cbn [bytes_of_le repeat]; [reflexivity|]. cbn. rewrite IHn. reflexivity. Qed.

Lemma length_zeros n : length (zeros n) = n.
Proof. apply repeat_length. Qed.

(* slicing *)
Lemma slice_to_ok bs n : n <= length bs -> slice_to bs n = Ok (firstn n bs).
Proof. intros H. unfold slice_to. apply Nat.leb_le in H. rewrite H. reflexivity. Qed.
Lemma slice_from_ok bs n : n <= length bs -> slice_from bs n = Ok (skipn n bs).
Proof. intros H. unfold slice_from. apply Nat.leb_le in H. rewrite H. reflexivity. Qed.
Lemma slice_ok bs a b : a <= b -> b <= length bs -> slice bs a b = Ok (firstn (b - a) (skipn a bs)).
Proof. intros H1 H2. unfold slice. apply Nat.leb_le in H1, H2. rewrite H1, H2. reflexivity. Qed.
Lemma firstn_app_exact {A} (a b : list A) : firstn (length a) (a ++ b) = a.
Proof. rewrite firstn_app, Nat.sub_diag, firstn_all. cbn. apply app_nil_r. Qed.
Lemma skipn_app_exact {A} (a b : list A) : skipn (length a) (a ++ b) = b.
Proof. rewrite skipn_app, Nat.sub_diag, skipn_all. reflexivity. Qed.
