(* STROBE duplex facts, for ANY permutation F: a receiver in step with a sender decrypts what was
   encrypted, accepts the sender's MAC and rejects every other string of that length. *)
From Coq Require Import NArith Arith Bool List Lia.
Import ListNotations.
From StarV Require Import Bytes Strobe.

Section SF.
Variable F : list N -> list N.
Notation run_f := (run_f F). Notation adv := (adv F). Notation begin_op := (begin_op F).
Notation absorb1 := (absorb1 F). Notation overwrite1 := (overwrite1 F).
Notation absorb_set1 := (absorb_set1 F). Notation copy1 := (copy1 F). Notation exchange1 := (exchange1 F).
Notation squeeze1 := (squeeze1 F).

(* equal up to the role flag *)
Definition core_eq (s s' : strobe) : Prop := st s = st s' /\ pos s = pos s' /\ pos_begin s = pos_begin s'.

Lemma core_eq_refl s : core_eq s s. Proof. repeat split. Qed.
Lemma core_eq_sym s s' : core_eq s s' -> core_eq s' s.
Proof. intros (A & B & C). repeat split; congruence. Qed.
Lemma core_eq_cur s s' : core_eq s s' -> cur s = cur s'.
Proof. intros (A & B & C). unfold cur. congruence. Qed.

Lemma run_f_core s s' : core_eq s s' -> core_eq (run_f s) (run_f s').
Proof. intros (A & B & C). unfold Strobe.run_f, core_eq. cbn [st pos pos_begin]. rewrite A, B, C. repeat split. Qed.
Lemma run_f_recv s : is_recv (run_f s) = is_recv s. Proof. reflexivity. Qed.

Lemma adv_core s s' l : core_eq s s' -> core_eq (adv s l) (adv s' l).
Proof.
  intros (A & B & C). unfold Strobe.adv. cbn [pos]. rewrite B.
  destruct (Nat.eqb (S (pos s')) rate).
  - apply run_f_core. unfold core_eq. cbn [st pos pos_begin]. repeat split; congruence.
  - unfold core_eq. cbn [st pos pos_begin]. repeat split; congruence.
Qed.
Lemma adv_recv s l : is_recv (adv s l) = is_recv s.
Proof. unfold Strobe.adv. destruct (Nat.eqb _ _); reflexivity. Qed.

Lemma absorb1_core s s' b : core_eq s s' -> core_eq (absorb1 s b) (absorb1 s' b).
Proof. intros H. unfold Strobe.absorb1. destruct H as (A & B & C). rewrite A, B. apply adv_core. repeat split; assumption. Qed.
Lemma absorb_core s s' d : core_eq s s' -> core_eq (absorb F s d) (absorb F s' d).
Proof. revert s s'. induction d as [|b d IH]; intros s s' H; cbn [absorb fold_left]; [exact H|]. apply IH. apply absorb1_core. exact H. Qed.
Lemma absorb_recv s d : is_recv (absorb F s d) = is_recv s.
Proof. revert s. induction d as [|b d IH]; intros s; cbn [absorb fold_left]; [reflexivity|]. unfold absorb in IH. rewrite IH. apply adv_recv. Qed.

(* begin_op without the role handling *)
Definition begin_core (s : strobe) (fl : N) : strobe :=
  let old := pos_begin s in
  let s := {| st := st s; pos := pos s; pos_begin := pos s + 1; is_recv := is_recv s |} in
  let s := absorb F s [N.of_nat old; fl] in
  if andb (has fl fC) (negb (Nat.eqb (pos s) 0)) then run_f s else s.

Lemma begin_core_core s s' fl : core_eq s s' -> core_eq (begin_core s fl) (begin_core s' fl).
Proof.
  intros (A & B & C). unfold begin_core.
  set (a := {| st := st s; pos := pos s; pos_begin := pos s + 1; is_recv := is_recv s |}).
  set (a' := {| st := st s'; pos := pos s'; pos_begin := pos s' + 1; is_recv := is_recv s' |}).
  assert (Ha : core_eq a a') by (unfold core_eq, a, a'; cbn [st pos pos_begin]; repeat split; congruence).
  rewrite C.
  pose proof (absorb_core a a' [N.of_nat (pos_begin s'); fl] Ha) as H.
  destruct H as (A1 & B1 & C1). rewrite B1.
  destruct (has fl fC && negb (Nat.eqb (pos (absorb F a' [N.of_nat (pos_begin s'); fl])) 0)).
  - apply run_f_core. repeat split; assumption.
  - repeat split; assumption.
Qed.
Lemma begin_core_recv s fl : is_recv (begin_core s fl) = is_recv s.
Proof.
  unfold begin_core. match goal with |- is_recv (if ?c then _ else _) = _ => destruct c end;
  rewrite ?run_f_recv, absorb_recv; reflexivity.
Qed.

Definition with_role (s : strobe) (r : bool) : strobe :=
  {| st := st s; pos := pos s; pos_begin := pos_begin s; is_recv := Some r |}.
Lemma with_role_core s r : core_eq (with_role s r) s. Proof. repeat split. Qed.

Lemma begin_op_noT s fl : has fl fT = false -> begin_op s fl = begin_core s fl.
Proof. intros H. unfold Strobe.begin_op, begin_core. rewrite H. reflexivity. Qed.

(* a sender-side transport operation on a state that is not a receiver *)
Lemma begin_op_send s fl : has fl fT = true -> has fl fI = false -> is_recv s <> Some true ->
  N.land fl (N.lxor 255 fI) = fl ->
  begin_op s fl = begin_core (with_role s false) fl.
Proof.
  intros HT HI Hr Hfl. unfold Strobe.begin_op. rewrite HT, HI.
  destruct (is_recv s) as [[|]|] eqn:E; [congruence| |]; cbn [Bool.eqb]; rewrite Hfl; reflexivity.
Qed.
(* a receiver-side transport operation on a state that is not a sender *)
Lemma begin_op_recv s fl : has fl fT = true -> has fl fI = true -> is_recv s <> Some false ->
  begin_op s fl = begin_core (with_role s true) (N.land fl (N.lxor 255 fI)).
Proof.
  intros HT HI Hr. unfold Strobe.begin_op. rewrite HT, HI.
  destruct (is_recv s) as [[|]|] eqn:E; [|congruence|]; cbn [Bool.eqb]; reflexivity.
Qed.

(* sender and receiver in step: same core, compatible roles *)
Definition in_step (s s' : strobe) : Prop :=
  core_eq s s' /\ is_recv s <> Some true /\ is_recv s' <> Some false.

Lemma in_step_enc s s' : in_step s s' ->
  in_step (begin_op s fl_send_enc) (begin_op s' fl_recv_enc).
Proof.
  intros (Hc & Hs & Hr).
  rewrite (begin_op_send s fl_send_enc) by (try reflexivity; exact Hs).
  rewrite (begin_op_recv s' fl_recv_enc) by (try reflexivity; exact Hr).
  change (N.land fl_recv_enc (N.lxor 255 fI)) with fl_send_enc.
  split; [|split].
  - apply begin_core_core. unfold core_eq, with_role. cbn [st pos pos_begin]. exact Hc.
  - rewrite begin_core_recv. cbn. congruence.
  - rewrite begin_core_recv. cbn. congruence.
Qed.
Lemma in_step_mac s s' : in_step s s' ->
  in_step (begin_op s fl_send_mac) (begin_op s' fl_recv_mac).
Proof.
  intros (Hc & Hs & Hr).
  rewrite (begin_op_send s fl_send_mac) by (try reflexivity; exact Hs).
  rewrite (begin_op_recv s' fl_recv_mac) by (try reflexivity; exact Hr).
  change (N.land fl_recv_mac (N.lxor 255 fI)) with fl_send_mac.
  split; [|split].
  - apply begin_core_core. unfold core_eq, with_role. cbn [st pos pos_begin]. exact Hc.
  - rewrite begin_core_recv. cbn. congruence.
  - rewrite begin_core_recv. cbn. congruence.
Qed.

(* ---------- data phase ---------- *)
Lemma mapacc_recv {A} (f : strobe -> A -> strobe * N) :
  (forall s a, is_recv (fst (f s a)) = is_recv s) ->
  forall d s, is_recv (fst (mapacc f s d)) = is_recv s.
Proof.
  intros Hf. induction d as [|a d IH]; intros s; cbn [mapacc]; [reflexivity|].
  specialize (Hf s a). destruct (f s a) as [s1 o]. specialize (IH s1). destruct (mapacc f s1 d) as [s2 os].
  cbn [fst] in *. congruence.
Qed.

Lemma enc_dec_data : forall d s s', core_eq s s' ->
  forall s1 c, mapacc absorb_set1 s d = (s1, c) ->
  forall s1' d', mapacc exchange1 s' c = (s1', d') -> d' = d /\ core_eq s1 s1'.
Proof.
  induction d as [|b d IH]; intros s s' H s1 c E1 s1' d' E2; cbn [mapacc] in E1.
  - injection E1 as <- <-. cbn [mapacc] in E2. injection E2 as <- <-. split; [reflexivity|exact H].
  - unfold Strobe.absorb_set1 at 1 in E1.
    destruct (mapacc absorb_set1 (adv s (upd (st s) (pos s) (fun _ => N.lxor (cur s) b))) d) as [s2 cs] eqn:E3.
    injection E1 as <- <-. cbn [mapacc] in E2. unfold Strobe.exchange1 at 1 in E2.
    destruct (mapacc exchange1 (adv s' (upd (st s') (pos s') (fun _ => N.lxor (cur s) b))) cs) as [s2' ds] eqn:E4.
    injection E2 as <- <-.
    assert (H1 : core_eq (adv s (upd (st s) (pos s) (fun _ => N.lxor (cur s) b)))
                         (adv s' (upd (st s') (pos s') (fun _ => N.lxor (cur s) b)))).
    { destruct H as (A & B & C). rewrite A, B. apply adv_core. repeat split; assumption. }
    destruct (IH _ _ H1 _ _ E3 _ _ E4) as [IHd IHc]. split; [|exact IHc].
    f_equal; [|exact IHd].
    rewrite <- (core_eq_cur s s' H).
    rewrite N.lxor_comm, <- N.lxor_assoc, N.lxor_nilpotent, N.lxor_0_l. reflexivity.
Qed.

Lemma upd_same l i : upd l i (fun _ => nth i l 0%N) = l.
Proof.
  revert i. induction l as [|h t IH]; intros i; [destruct i; reflexivity|].
  destruct i as [|i]; cbn [upd nth]; [reflexivity|]. rewrite IH. reflexivity.
Qed.

Lemma mac_accept_data : forall n s s', core_eq s s' ->
  forall s1 m, gen copy1 s n = (s1, m) ->
  forall s1' o, mapacc exchange1 s' m = (s1', o) -> forallb (N.eqb 0) o = true /\ core_eq s1 s1'.
Proof.
  induction n as [|n IH]; intros s s' H s1 m E1 s1' o E2; cbn [gen] in E1.
  - injection E1 as <- <-. cbn [mapacc] in E2. injection E2 as <- <-. split; [reflexivity|exact H].
  - unfold Strobe.copy1 at 1 in E1.
    destruct (gen copy1 (adv s (st s)) n) as [s2 ms] eqn:E3. injection E1 as <- <-.
    cbn [mapacc] in E2. unfold Strobe.exchange1 at 1 in E2.
    destruct (mapacc exchange1 (adv s' (upd (st s') (pos s') (fun _ => cur s))) ms) as [s2' os] eqn:E4.
    injection E2 as <- <-.
    assert (H1 : core_eq (adv s (st s)) (adv s' (upd (st s') (pos s') (fun _ => cur s)))).
    { rewrite (core_eq_cur s s' H). unfold cur. rewrite upd_same. destruct H as (A & B & C). rewrite A. apply adv_core. repeat split; assumption. }
    destruct (IH _ _ H1 _ _ E3 _ _ E4) as [IHo IHc]. split; [|exact IHc].
    cbn [forallb]. rewrite IHo. rewrite (core_eq_cur s s' H), N.lxor_nilpotent. reflexivity.
Qed.

Lemma mac_reject_data : forall n s s' m', core_eq s s' -> length m' = n ->
  m' <> snd (gen copy1 s n) ->
  forallb (N.eqb 0) (snd (mapacc exchange1 s' m')) = false.
Proof.
  induction n as [|n IH]; intros s s' m' H Hl Hne.
  - destruct m'; [exfalso; apply Hne; reflexivity|discriminate].
  - destruct m' as [|b m']; [discriminate|]. cbn [gen] in Hne. unfold Strobe.copy1 at 1 in Hne.
    destruct (gen copy1 (adv s (st s)) n) as [s2 ms] eqn:E1. cbn [snd] in Hne.
    cbn [mapacc]. unfold Strobe.exchange1 at 1.
    destruct (mapacc exchange1 (adv s' (upd (st s') (pos s') (fun _ => b))) m') as [s2' os] eqn:E2. cbn [snd forallb].
    destruct (N.eq_dec b (cur s)) as [Eb|Eb].
    + subst b. rewrite <- (core_eq_cur s s' H), N.lxor_nilpotent. cbn [N.eqb andb].
      assert (H1 : core_eq (adv s (st s)) (adv s' (upd (st s') (pos s') (fun _ => cur s)))).
      { rewrite (core_eq_cur s s' H). unfold cur. rewrite upd_same. destruct H as (A & B & C). rewrite A. apply adv_core. repeat split; assumption. }
      assert (Hne' : m' <> snd (gen copy1 (adv s (st s)) n)) by (rewrite E1; cbn [snd]; intro; apply Hne; congruence).
      pose proof (IH _ _ m' H1 ltac:(cbn in Hl; lia) Hne') as IH'. rewrite E2 in IH'. exact IH'.
    + assert (Hx : N.eqb 0 (N.lxor b (cur s')) = false).
      { apply N.eqb_neq. intro H0. symmetry in H0. apply N.lxor_eq in H0. apply Eb. rewrite (core_eq_cur s s' H). exact H0. }
      rewrite Hx. reflexivity.
Qed.

(* ---------- the operations ---------- *)
Theorem recv_enc_send_enc s s' d : in_step s s' ->
  snd (recv_enc F s' (snd (send_enc F s d))) = d /\
  in_step (fst (send_enc F s d)) (fst (recv_enc F s' (snd (send_enc F s d)))).
Proof.
  intros H. unfold send_enc, recv_enc. pose proof (in_step_enc s s' H) as (Hc & Hs & Hr).
  destruct (mapacc absorb_set1 (begin_op s fl_send_enc) d) as [s1 c] eqn:E1.
  destruct (mapacc exchange1 (begin_op s' fl_recv_enc) c) as [s1' d'] eqn:E2.
  destruct (enc_dec_data d _ _ Hc _ _ E1 _ _ E2) as [Hd Hc']. cbn [fst snd]. rewrite E2. cbn [fst snd].
  split; [exact Hd|].
  pose proof (mapacc_recv absorb_set1 (fun s a => adv_recv _ _) d (begin_op s fl_send_enc)) as R1.
  pose proof (mapacc_recv exchange1 (fun s a => adv_recv _ _) c (begin_op s' fl_recv_enc)) as R2.
  rewrite E1 in R1. rewrite E2 in R2. cbn [fst] in R1, R2.
  split; [exact Hc'|]. split; [rewrite R1; exact Hs|rewrite R2; exact Hr].
Qed.

Theorem recv_mac_send_mac s s' n : in_step s s' ->
  snd (recv_mac F s' (snd (send_mac F s n))) = true.
Proof.
  intros H. unfold send_mac, recv_mac. pose proof (in_step_mac s s' H) as (Hc & Hs & Hr).
  destruct (gen copy1 (begin_op s fl_send_mac) n) as [s1 m] eqn:E1. cbn [snd].
  destruct (mapacc exchange1 (begin_op s' fl_recv_mac) m) as [s1' o] eqn:E2. cbn [snd].
  destruct (mac_accept_data n _ _ Hc _ _ E1 _ _ E2) as [Ho _]. exact Ho.
Qed.

Theorem recv_mac_reject s s' n m' : in_step s s' -> length m' = n -> m' <> snd (send_mac F s n) ->
  snd (recv_mac F s' m') = false.
Proof.
  intros H Hl Hne. unfold send_mac in Hne. unfold recv_mac. pose proof (in_step_mac s s' H) as (Hc & Hs & Hr).
  pose proof (mac_reject_data n _ _ m' Hc Hl Hne) as Ho.
  destruct (mapacc exchange1 (begin_op s' fl_recv_mac) m') as [sx o]. cbn [snd] in *. exact Ho.
Qed.

(* fresh objects built the same way are in step *)
Lemma in_step_same s : is_recv s = None -> in_step s s.
Proof. intros H. split; [apply core_eq_refl|]. rewrite H. split; congruence. Qed.
Lemma key_recv s d : is_recv (key F s d) = is_recv s.
Proof.
  unfold key. rewrite begin_op_noT by reflexivity.
  assert (G : forall d s, is_recv (overwrite F s d) = is_recv s).
  { induction d0 as [|b d0 IH]; intros s0; cbn [overwrite fold_left]; [reflexivity|].
    unfold overwrite in IH. rewrite IH. apply adv_recv. }
  rewrite G. apply begin_core_recv.
Qed.
Lemma ad_recv s d : is_recv (ad F s d) = is_recv s.
Proof. unfold ad. rewrite begin_op_noT by reflexivity. rewrite absorb_recv. apply begin_core_recv. Qed.
Lemma meta_ad_recv s d : is_recv (meta_ad F s d) = is_recv s.
Proof. unfold meta_ad. rewrite begin_op_noT by reflexivity. rewrite absorb_recv. apply begin_core_recv. Qed.
Lemma new_recv l : is_recv (new F l) = None.
Proof. unfold new. rewrite meta_ad_recv. reflexivity. Qed.
Lemma length_gen f : forall n s, length (snd (gen f s n)) = n.
Proof.
  induction n as [|n IH]; intros s; cbn [gen]; [reflexivity|].
  destruct (f s) as [s1 o]. specialize (IH s1). destruct (gen f s1 n) as [s2 os]. cbn [snd length] in *. congruence.
Qed.
Lemma length_mapacc {A} (f : strobe -> A -> strobe * N) : forall d s, length (snd (mapacc f s d)) = length d.
Proof.
  induction d as [|a d IH]; intros s; cbn [mapacc]; [reflexivity|].
  destruct (f s a) as [s1 o]. specialize (IH s1). destruct (mapacc f s1 d) as [s2 os]. cbn [snd length] in *. congruence.
Qed.
Lemma length_send_mac s n : length (snd (send_mac F s n)) = n.
Proof. unfold send_mac. apply length_gen. Qed.
Lemma length_send_enc s d : length (snd (send_enc F s d)) = length d.
Proof. unfold send_enc. apply length_mapacc. Qed.
Lemma length_prf s n : length (snd (prf F s n)) = n.
Proof. unfold prf. apply length_gen. Qed.
End SF.
