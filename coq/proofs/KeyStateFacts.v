(* The exported key state read back: server_from_bincode (server_to_bincode s) = Some s.
   Every reader lemma has the shape  read (write v ++ rest) = Some (v, rest). *)
From Coq Require Import List NArith ZArith Lia Bool Sorting.Sorted.
From StarV Require Import Params Bytes Ggm Ppoprf BytesFacts PpFacts.
Import ListNotations.
Require Import ZifyBool ZifyNat ZifyN.
Ltac Zify.zify_post_hook ::= Z.div_mod_to_equations.


Lemma rd_bytes_app n a rest : length a = n -> rd_bytes n (a ++ rest) = Some (a, rest).
Proof.
  intros H. unfold rd_bytes. rewrite app_length.
  replace (n <=? length a + length rest)%nat with true by (symmetry; apply Nat.leb_le; lia).
  rewrite (firstn_app_len n) by exact H. rewrite (skipn_app_len n) by exact H. reflexivity.
Qed.
Lemma rd_u64_app v rest : (v < two64)%N -> rd_u64 (bytes_of_le 8 v ++ rest) = Some (v, rest).
Proof.
  intros H. unfold rd_u64. rewrite rd_bytes_app by apply length_bytes_of_le.
  rewrite le_of_bytes_of_le_small; [reflexivity|]. exact H.
Qed.
Lemma bytes_eqb_refl a : bytes_eqb a a = true.
Proof. induction a as [|x a IH]; cbn [bytes_eqb]; [reflexivity|]. rewrite N.eqb_refl, IH. reflexivity. Qed.

(* bits <-> value *)
Lemma bits_of_value_bits_value bs : bits_of_value (length bs) (bits_value bs) = bs.
Proof.
  induction bs as [|b bs IH]; cbn [length bits_of_value bits_value]; [reflexivity|].
  f_equal.
  - destruct b; [rewrite N.odd_add_mul_2; reflexivity|rewrite N.add_0_l, N.odd_mul, Bool.andb_false_l; reflexivity].
  - replace (((if b then 1 else 0) + 2 * bits_value bs) / 2)%N with (bits_value bs); [exact IH|].
    destruct b; lia.
Qed.
Lemma bits_value_bound bs : (bits_value bs < 2 ^ N.of_nat (length bs))%N.
Proof.
  induction bs as [|b bs IH]; cbn [length bits_value]; [cbn; lia|].
  rewrite Nat2N.inj_succ, N.pow_succ_r'. destruct b; lia.
Qed.
Lemma bits_value_64 bs : (bits_value (firstn 64 bs) < two64)%N.
Proof.
  pose proof (bits_value_bound (firstn 64 bs)) as H.
  assert (L : (length (firstn 64 bs) <= 64)%nat) by (rewrite firstn_length; lia).
  eapply N.lt_le_trans; [exact H|]. change two64 with (2 ^ 64)%N. apply N.pow_le_mono_r; lia.
Qed.

Lemma words64_nil f : words64 f [] = [].
Proof. destruct f; reflexivity. Qed.
Lemma words64_cons f b bs : words64 (S f) (b :: bs) = bytes_of_le 8 (bits_value (firstn 64 (b :: bs))) :: words64 f (skipn 64 (b :: bs)).
Proof. reflexivity. Qed.

Lemma rd_words_words64 : forall fuel bs rest, (length bs <= fuel)%nat ->
  rd_words (length (words64 fuel bs)) (length bs) (concat (words64 fuel bs) ++ rest) = Some (bs, rest).
Proof.
  induction fuel as [|f IH]; intros bs rest Hf.
  - destruct bs; [reflexivity|cbn in Hf; lia].
  - destruct bs as [|b bs]; [reflexivity|].
    rewrite words64_cons. cbn [length concat rd_words]. rewrite <- app_assoc.
    rewrite rd_u64_app by apply bits_value_64.
    assert (Hsk : length (skipn 64 (b :: bs)) = (length (b :: bs) - 64)%nat) by apply skipn_length.
    cbn [length] in Hsk. rewrite <- Hsk.
    rewrite IH by (rewrite Hsk; cbn [length] in Hf; lia).
    assert (Hfl : length (firstn 64 (b :: bs)) = Nat.min 64 (S (length bs))) by (rewrite firstn_length; reflexivity).
    rewrite <- Hfl, bits_of_value_bits_value, firstn_skipn. reflexivity.
Qed.
Lemma words64_count : forall fuel bs, (length bs <= fuel)%nat ->
  N.of_nat (length (words64 fuel bs)) = ((N.of_nat (length bs) + 63) / 64)%N.
Proof.
  induction fuel as [|f IH]; intros bs Hf.
  - destruct bs; [reflexivity|cbn in Hf; lia].
  - destruct bs as [|b bs]; [reflexivity|].
    rewrite words64_cons. cbn [length]. rewrite Nat2N.inj_succ, IH by (rewrite skipn_length; cbn [length] in *; lia).
    rewrite skipn_length. cbn [length] in *. lia.
Qed.
Lemma words64_size : forall fuel bs, length (concat (words64 fuel bs)) = (8 * length (words64 fuel bs))%nat.
Proof.
  induction fuel as [|f IH]; intros bs; [reflexivity|].
  destruct bs as [|b bs]; [reflexivity|].
  rewrite words64_cons. cbn [concat length]. rewrite app_length, length_bytes_of_le, IH. lia.
Qed.

Lemma length_bitvec_order : length bitvec_order = 19%nat. Proof. reflexivity. Qed.

Lemma bitvec_roundtrip bs rest : (N.of_nat (length bs) < two64)%N ->
  bitvec_from_bincode (bitvec_to_bincode bs ++ rest) = Some (bs, rest).
Proof.
  intros Hb. unfold bitvec_from_bincode, bitvec_to_bincode. cbv zeta.
  rewrite <- !app_assoc.
  rewrite rd_u64_app by (rewrite length_bitvec_order; reflexivity).
  rewrite N.eqb_refl. cbn [negb].
  rewrite rd_bytes_app by reflexivity. rewrite bytes_eqb_refl. cbn [negb].
  change ([64%N; 0%N] ++ ?x) with (64%N :: 0%N :: x).
  match goal with |- context [rd_bytes 2 (64%N :: 0%N :: ?x)] =>
    change (rd_bytes 2 (64%N :: 0%N :: x)) with (if Nat.leb 2 (S (S (length x))) then Some ([64%N; 0%N], x) else None) end.
  cbn [Nat.leb]. rewrite bytes_eqb_refl. cbn [negb].
  rewrite rd_u64_app by exact Hb.
  pose proof (words64_count (S (length bs)) bs ltac:(lia)) as Hc.
  rewrite rd_u64_app by (rewrite Hc; unfold two64 in *; lia).
  rewrite Hc, N.eqb_refl. cbn [negb].
  rewrite app_length, words64_size.
  replace (N.of_nat (8 * length (words64 (S (length bs)) bs) + length rest) <? 8 * ((N.of_nat (length bs) + 63) / 64))%N with false
    by (symmetry; apply N.ltb_ge; rewrite <- Hc; lia).
  rewrite <- Hc, !Nat2N.id. apply rd_words_words64. lia.
Qed.
Lemma bitvec_size bs : (45 <= length (bitvec_to_bincode bs))%nat.
Proof. unfold bitvec_to_bincode. cbv zeta. rewrite !app_length, !length_bytes_of_le, length_bitvec_order. cbn [length]. lia. Qed.

Lemma vec_u8_roundtrip b rest : (N.of_nat (length b) < two64)%N ->
  vec_u8_from_bincode (vec_u8_to_bincode b ++ rest) = Some (b, rest).
Proof.
  intros Hb. unfold vec_u8_from_bincode, vec_u8_to_bincode. rewrite <- app_assoc, rd_u64_app by exact Hb.
  rewrite app_length. replace (N.of_nat (length b + length rest) <? N.of_nat (length b))%N with false by (symmetry; apply N.ltb_ge; lia).
  rewrite Nat2N.id. apply rd_bytes_app. reflexivity.
Qed.

Definition prefix_ok (ps : bits * bytes) : Prop := (N.of_nat (length (fst ps)) < two64)%N /\ (N.of_nat (length (snd ps)) < two64)%N.
Definition enc_prefix (ps : bits * bytes) : bytes := bitvec_to_bincode (fst ps) ++ vec_u8_to_bincode (snd ps).

Lemma rd_prefixes_roundtrip : forall l rest, Forall prefix_ok l ->
  rd_prefixes (length l) (flat_map enc_prefix l ++ rest) = Some (l, rest).
Proof.
  induction l as [|[b sd] l IH]; intros rest H; [reflexivity|].
  apply Forall_cons_iff in H. destruct H as [[Hb Hs] Hl]. cbn [fst snd] in Hb, Hs.
  cbn [length flat_map rd_prefixes]. unfold enc_prefix at 1. cbn [fst snd]. rewrite <- !app_assoc.
  rewrite bitvec_roundtrip by exact Hb. rewrite vec_u8_roundtrip by exact Hs. rewrite IH by exact Hl. reflexivity.
Qed.
Lemma rd_bitvecs_roundtrip : forall l rest, Forall (fun b : bits => (N.of_nat (length b) < two64)%N) l ->
  rd_bitvecs (length l) (flat_map bitvec_to_bincode l ++ rest) = Some (l, rest).
Proof.
  induction l as [|b l IH]; intros rest H; [reflexivity|].
  apply Forall_cons_iff in H. destruct H as [Hb Hl].
  cbn [length flat_map rd_bitvecs]. rewrite <- app_assoc.
  rewrite bitvec_roundtrip by exact Hb. rewrite IH by exact Hl. reflexivity.
Qed.
Lemma flat_map_size {A} (f : A -> bytes) (k : nat) : forall l, (forall x, k <= length (f x))%nat -> (k * length l <= length (flat_map f l))%nat.
Proof. intros l H. induction l as [|x l IH]; cbn [flat_map length]; [lia|]. rewrite app_length. specialize (H x). lia. Qed.

Lemma rd_count_app n s : (N.of_nat n < two64)%N -> (n <= length s)%nat -> rd_count (bytes_of_le 8 (N.of_nat n) ++ s) = Some (n, s).
Proof.
  intros Hn Hs. unfold rd_count. rewrite rd_u64_app by exact Hn.
  replace (N.of_nat (length s) <? N.of_nat n)%N with false by (symmetry; apply N.ltb_ge; lia).
  rewrite Nat2N.id. reflexivity.
Qed.

Definition ggm_ok (k0 k1 : bytes) (g : gstate bytes) : Prop :=
  length k0 = 32%nat /\ length k1 = 32%nat /\ Forall prefix_ok (gPrefixes bytes g) /\
  Forall (fun b : bits => (N.of_nat (length b) < two64)%N) (gPunctured bytes g) /\
  (N.of_nat (length (gPrefixes bytes g)) < two64)%N /\ (N.of_nat (length (gPunctured bytes g)) < two64)%N.

Lemma ggm_roundtrip k0 k1 g rest : ggm_ok k0 k1 g ->
  ggm_from_bincode (ggm_to_bincode k0 k1 g ++ rest) = Some (k0, k1, g, rest).
Proof.
  intros (H0 & H1 & Hp & Hu & Hnp & Hnu). unfold ggm_from_bincode, ggm_to_bincode.
  change (fun ps : bits * bytes => bitvec_to_bincode (fst ps) ++ vec_u8_to_bincode (snd ps)) with enc_prefix.
  rewrite <- !app_assoc.
  rewrite rd_u64_app by reflexivity. cbn [N.eqb Pos.eqb negb].
  rewrite rd_bytes_app by exact H0. rewrite rd_bytes_app by exact H1.
  rewrite rd_count_app; [|exact Hnp|].
  2:{ rewrite app_length. pose proof (flat_map_size enc_prefix 45 (gPrefixes bytes g)) as Hsz.
      assert (forall x, (45 <= length (enc_prefix x))%nat) as Hx.
      { intros x. unfold enc_prefix. rewrite app_length. pose proof (bitvec_size (fst x)). lia. }
      specialize (Hsz Hx). lia. }
  rewrite rd_prefixes_roundtrip by exact Hp.
  rewrite rd_count_app; [|exact Hnu|].
  2:{ rewrite app_length. pose proof (flat_map_size bitvec_to_bincode 45 (gPunctured bytes g) bitvec_size). lia. }
  rewrite rd_bitvecs_roundtrip by exact Hu. destruct g; reflexivity.
Qed.

Lemma pk_entries_rest_flat : forall l acc rest,
  Forall (fun e => length (snd e) = 32%nat) l ->
  StronglySorted (fun a b => (fst a < fst b)%N) (acc ++ l) ->
  pk_entries_rest (length l) (flat_map (fun e => fst e :: snd e) l ++ rest) acc = Some (acc ++ l, rest).
Proof.
  induction l as [|[md v] l IH]; intros acc rest Hlen Hs.
  - cbn [length pk_entries_rest flat_map app]. rewrite app_nil_r. reflexivity.
  - apply Forall_cons_iff in Hlen. destruct Hlen as [Hv Hlen']. cbn [snd] in Hv.
    cbn [length pk_entries_rest flat_map fst snd app]. rewrite <- !app_assoc, app_length, Hv.
    replace (32 <=? 32 + _)%nat with true by (symmetry; apply Nat.leb_le; lia).
    rewrite (firstn_app_len 32) by exact Hv. rewrite (skipn_app_len 32) by exact Hv.
    assert (Hins : pk_insert acc md v = acc ++ [(md, v)]).
    { apply pk_insert_last. apply Forall_forall. intros e He.
      clear - Hs He. induction acc as [|a acc IHa]; [destruct He|]. cbn [app] in Hs. inversion Hs as [|? ? Hs' Hall]; subst.
      destruct He as [<-|He]; [|apply IHa; assumption].
      rewrite Forall_forall in Hall. apply (Hall (md, v)). apply in_or_app. right. left. reflexivity. }
    rewrite Hins. rewrite IH; [rewrite <- app_assoc; reflexivity|exact Hlen'|rewrite <- app_assoc; exact Hs].
Qed.

Lemma pk_rest_roundtrip pk rest : pk_wf pk -> pk_from_bincode_rest (pk_to_bincode pk ++ rest) = Some (pk, rest).
Proof.
  intros (Hb & Hm & Hs & Hn). unfold pk_from_bincode_rest, pk_to_bincode, le64. rewrite <- !app_assoc.
  rewrite rd_bytes_app by exact Hb.
  rewrite rd_count_app; [|unfold two64; lia|].
  2:{ rewrite app_length. pose proof (flat_map_size (fun e : N * bytes => fst e :: snd e) 1 (pk_md pk)) as Hsz.
      assert (forall x : N * bytes, (1 <= length (fst x :: snd x))%nat) as Hx by (intros x; cbn [length]; lia).
      specialize (Hsz Hx). unfold bytes in *. lia. }
  pose proof (pk_entries_rest_flat (pk_md pk) [] rest Hm Hs) as E. unfold bytes in *. rewrite E. destruct pk; reflexivity.
Qed.

Definition server_ok (s : server) : Prop :=
  0 <= sv_key s < ell /\ pk_wf (sv_pk s) /\ ggm_ok (sv_k0 s) (sv_k1 s) (sv_ggm s).

Theorem server_roundtrip s rest : server_ok s -> server_from_bincode (server_to_bincode s ++ rest) = Some s.
Proof.
  intros (Hk & Hp & Hg). unfold server_from_bincode, server_to_bincode. rewrite <- !app_assoc.
  rewrite rd_bytes_app by apply sc_to_bytes_len.
  rewrite sc_canonical_to_bytes by exact Hk.
  rewrite pk_rest_roundtrip by exact Hp.
  rewrite ggm_roundtrip by exact Hg. destruct s; reflexivity.
Qed.

(* a boolean form of the premise, so that it can be evaluated on every state the correspondence run exports *)
Lemma sorted_tags_sound : forall l, sorted_tags l = true -> StronglySorted (fun a b : N * bytes => (fst a < fst b)%N) l.
Proof.
  induction l as [|[a v] l IH]; intros H; [constructor|].
  cbn [sorted_tags] in H. destruct l as [|[b w] l]; [constructor; constructor|].
  apply andb_true_iff in H. destruct H as [Hab Hl]. apply N.ltb_lt in Hab.
  specialize (IH Hl). constructor; [exact IH|].
  constructor; [exact Hab|]. inversion IH as [|? ? _ Hall]; subst.
  eapply Forall_impl; [|exact Hall]. intros e He. cbn [fst] in *. lia.
Qed.
Ltac split_and H H1 H2 := apply andb_true_iff in H; destruct H as [H1 H2].
Lemma server_okb_sound s : server_okb s = true -> server_ok s.
Proof.
  unfold server_okb. intros H.
  split_and H H Hg. split_and H H Hp. split_and H Hk0 Hk1.
  apply Z.leb_le in Hk0. apply Z.ltb_lt in Hk1.
  unfold pk_okb in Hp. split_and Hp Hp Hn. split_and Hp Hp Hs. split_and Hp Hb Hm.
  apply Nat.eqb_eq in Hb. apply Nat.leb_le in Hn. rewrite forallb_forall in Hm.
  unfold ggm_okb, small in Hg. split_and Hg Hg Hnu. split_and Hg Hg Hnp. split_and Hg Hg Hu. split_and Hg Hg Hpf. split_and Hg H0 H1.
  apply Nat.eqb_eq in H0. apply Nat.eqb_eq in H1. apply N.ltb_lt in Hnu. apply N.ltb_lt in Hnp.
  rewrite forallb_forall in Hu. rewrite forallb_forall in Hpf.
  split; [lia|]. split.
  - split; [exact Hb|]. split; [|split; [apply sorted_tags_sound; exact Hs|exact Hn]].
    apply Forall_forall. intros e He. apply Nat.eqb_eq. exact (Hm e He).
  - split; [exact H0|]. split; [exact H1|]. split; [|split; [|split; assumption]].
    + apply Forall_forall. intros e He. unfold prefix_ok. specialize (Hpf e He). split_and Hpf X1 X2.
      apply N.ltb_lt in X1. apply N.ltb_lt in X2. split; assumption.
    + apply Forall_forall. intros e He. specialize (Hu e He). apply N.ltb_lt in Hu. exact Hu.
Qed.
Theorem server_roundtrip_b s rest : server_okb s = true -> server_from_bincode (server_to_bincode s ++ rest) = Some s.
Proof. intros H. apply server_roundtrip. apply server_okb_sound. exact H. Qed.

(* a strict prefix that stops inside the scalar is refused: reading never runs past the end *)
Lemma server_from_short s : (length s < 32)%nat -> server_from_bincode s = None.
Proof. intros H. unfold server_from_bincode, rd_bytes. replace (32 <=? length s)%nat with false by (symmetry; apply Nat.leb_gt; lia). reflexivity. Qed.
