(* sharks at the limb level: polynomial evaluation (Evaluator::evaluate, a Horner fold) and Lagrange interpolation at zero
   (interpolate: filter / map / fold with one `invert().unwrap()` per pair of points), instantiated from the same generic
   definitions (model/PolyDefs.v) once with the limb operations of FpLimbs.v and once with the big-integer field, are
   related by the representation map for ALL inputs; the inversion the code unwraps is never applied to zero. *)
From Coq Require Import ZArith NArith List Bool Lia.
Import ListNotations.
From StarV Require Import Params Bytes Fp PolyDefs Shamir LimbPrim LimbGen FpLimbs FieldFacts ShamirFacts LimbFacts LimbLift.
Open Scope Z_scope.

Definition lrel (t : limbs) (u : fp) : Prop := lvalid t /\ labs t = u.
(* `x.invert().unwrap()` on limbs; the default is never reached where the code calls it (linterp_no_unwrap_panic) *)
Definition linv_total (a : limbs) : limbs := match linvert a with Some r => r | None => lzero end.
Definition lhorner := horner limbs lzero ladd lmul.
Definition linterp_pairs := interp_pairs limbs lzero lone ladd lmul lsub linv_total leqb.

Lemma fold_left_rel {A B C D} (R : A -> B -> Prop) (Q : C -> D -> Prop) (f : A -> C -> A) (g : B -> D -> B) :
  (forall a b c d, R a b -> Q c d -> R (f a c) (g b d)) ->
  forall l l', Forall2 Q l l' -> forall a b, R a b -> R (fold_left f l a) (fold_left g l' b).
Proof.
  intros Hstep l l' H. induction H as [|c d l l' Hcd H IH]; intros a b Hab; cbn [fold_left]; [exact Hab|].
  apply IH. apply Hstep; assumption.
Qed.
Lemma lrel_zero : lrel lzero fzero. Proof. split; [exact lzero_valid|exact labs_lzero]. Qed.
Lemma lrel_one : lrel lone fone. Proof. split; [exact lone_valid|exact labs_lone]. Qed.
Lemma lrel_add a u b w : lrel a u -> lrel b w -> lrel (ladd a b) (fadd u w).
Proof. intros (Va & <-) (Vb & <-). exact (ladd_correct a b Va Vb). Qed.
Lemma lrel_sub a u b w : lrel a u -> lrel b w -> lrel (lsub a b) (fsub u w).
Proof. intros (Va & <-) (Vb & <-). exact (lsub_correct a b Va Vb). Qed.
Lemma lrel_mul a u b w : lrel a u -> lrel b w -> lrel (lmul a b) (fmul u w).
Proof. intros (Va & <-) (Vb & <-). exact (lmul_correct a b Va Vb). Qed.
Lemma lrel_inv a u : lrel a u -> lrel (linv_total a) (finv u).
Proof.
  intros (Va & <-). unfold linv_total. pose proof (linvert_correct a Va) as H. destruct (linvert a) as [r|].
  - destruct H as (Vr & _ & E). split; assumption.
  - rewrite H, finv_zero. exact lrel_zero.
Qed.
Lemma lrel_eqb a u b w : lrel a u -> lrel b w -> leqb a b = feqb u w.
Proof.
  intros (Va & <-) (Vb & <-). destruct (leqb a b) eqn:L.
  - apply leqb_spec in L. subst b. symmetry. apply feqb_refl.
  - symmetry. apply feqb_neq. intros E. apply (labs_inj _ _ Va Vb) in E. apply leqb_spec in E. rewrite E in L. discriminate L.
Qed.

Theorem lhorner_correct cs cs' x x' : Forall2 lrel cs cs' -> lrel x x' -> lrel (lhorner cs x) (fhorner cs' x').
Proof.
  intros Hcs Hx. unfold lhorner, fhorner, horner.
  apply (fold_left_rel lrel lrel) with (l := cs) (l' := cs'); [|exact Hcs|exact lrel_zero].
  intros a b c d Hab Hcd. apply lrel_add; [apply lrel_mul; assumption|exact Hcd].
Qed.
Lemma others_rel pts pts' a a' : Forall2 lrel pts pts' -> lrel a a' ->
  Forall2 lrel (others limbs leqb pts a) (others fp feqb pts' a').
Proof.
  intros H Ha. unfold others. induction H as [|b b' pts pts' Hb H IH]; cbn [filter]; [constructor|].
  rewrite (lrel_eqb b b' a a' Hb Ha). destruct (feqb b' a'); cbn [negb]; [exact IH|constructor; assumption].
Qed.
Lemma basis0_rel a a' l l' : lrel a a' -> Forall2 lrel l l' ->
  lrel (basis0 limbs lone lmul lsub linv_total a l) (basis0 fp fone fmul fsub finv a' l').
Proof.
  intros Ha Hl. unfold basis0.
  apply (fold_left_rel lrel lrel) with (l := l) (l' := l'); [|exact Hl|exact lrel_one].
  intros acc acc' b b' Hacc Hb. apply lrel_mul; [exact Hacc|]. apply lrel_mul; [exact Hb|]. apply lrel_inv. apply lrel_sub; assumption.
Qed.
Definition prel (p : limbs * limbs) (q : fp * fp) : Prop := lrel (fst p) (fst q) /\ lrel (snd p) (snd q).
Lemma map_fst_rel l l' : Forall2 prel l l' -> Forall2 lrel (map fst l) (map fst l').
Proof. induction 1 as [|p q l l' (H1 & _) H IH]; cbn [map]; constructor; assumption. Qed.
Theorem linterp_correct l l' : Forall2 prel l l' -> lrel (linterp_pairs l) (finterp_pairs l').
Proof.
  intros H. unfold linterp_pairs, finterp_pairs, interp_pairs.
  pose proof (map_fst_rel l l' H) as Hx.
  set (xs := map fst l) in *. set (xs' := map fst l') in *. clearbody xs xs'.
  apply (fold_left_rel lrel prel) with (l := l) (l' := l'); [|exact H|exact lrel_zero].
  intros acc acc' p q Hacc (Hp1 & Hp2). apply lrel_add; [exact Hacc|]. apply lrel_mul; [|exact Hp2].
  apply basis0_rel; [exact Hp1|]. apply others_rel; assumption.
Qed.
(* ... and it equals the evaluation strategy the executable model uses (one inversion per point) *)
Corollary linterp_fast l l' : Forall2 prel l l' -> lrel (linterp_pairs l) (finterp_pairs_fast l').
Proof. intros H. rewrite finterp_fast_eq. apply linterp_correct. exact H. Qed.

(* the `unwrap` inside interpolate never fires: every difference that is inverted is non-zero *)
Theorem linterp_no_unwrap_panic pts a b : Forall lvalid pts -> lvalid a ->
  In b (others limbs leqb pts a) -> linvert (lsub b a) <> None.
Proof.
  intros Hpts Ha Hin. unfold others in Hin. apply filter_In in Hin. destruct Hin as (Hb & Hne).
  assert (Vb : lvalid b) by (rewrite Forall_forall in Hpts; apply Hpts; exact Hb).
  destruct (lsub_correct b a Vb Ha) as (Vs & Es).
  pose proof (linvert_correct (lsub b a) Vs) as Hi. destruct (linvert (lsub b a)); [discriminate|].
  exfalso. rewrite Es in Hi.
  assert (E : labs b = labs a).
  { pose proof fp_ring as Rg. destruct Rg.
    rewrite <- (Radd_0_l (labs a)), <- Hi. rewrite Rsub_def, <- Radd_assoc, (Radd_comm (fopp (labs a))), Ropp_def, (Radd_comm _ fzero), Radd_0_l. reflexivity. }
  apply (labs_inj _ _ Vb Ha) in E. subst b. apply negb_true_iff in Hne.
  assert (T : leqb a a = true) by (apply leqb_spec; reflexivity). rewrite T in Hne. discriminate Hne.
Qed.
