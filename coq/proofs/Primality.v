From Coq Require Import ZArith Znumtheory Zpow_facts List Lia Bool.
Import ListNotations.
From StarV Require Import Fp Lucas.
Open Scope Z_scope.

Lemma powmod_pos_spec a e n : 1 < n -> powmod_pos a e n = a ^ Zpos e mod n.
Proof.
  intros Hn. induction e as [e IH|e IH|]; cbn [powmod_pos].
  - rewrite IH. rewrite Pos2Z.inj_xI.
    replace (2 * Zpos e + 1) with (1 + (Zpos e + Zpos e)) by lia.
    rewrite Z.pow_add_r, Z.pow_1_r, Z.pow_add_r by lia.
    rewrite <- Z.mul_mod by lia. rewrite Z.mul_mod_idemp_r by lia. reflexivity.
  - rewrite IH. rewrite Pos2Z.inj_xO.
    replace (2 * Zpos e) with (Zpos e + Zpos e) by lia.
    rewrite Z.pow_add_r by lia. rewrite <- Z.mul_mod by lia. reflexivity.
  - rewrite Z.pow_1_r. reflexivity.
Qed.
Lemma powmod_spec a e n : 1 < n -> 0 <= e -> powmod a e n = a ^ e mod n.
Proof.
  intros Hn He. destruct e as [|e|e]; cbn [powmod]; [reflexivity|apply powmod_pos_spec; exact Hn|lia].
Qed.

(* certificates *)
Inductive cert : Type :=
| Two : cert
| Pratt (n a : Z) (fs : certs) : cert
with certs : Type :=
| CNil : certs
| CCons (c : cert) (e : positive) (tl : certs) : certs.

Definition cnum (c : cert) : Z := match c with Two => 2 | Pratt n _ _ => n end.

Fixpoint cprod (fs : certs) : Z :=
  match fs with CNil => 1 | CCons c e tl => cnum c ^ Zpos e * cprod tl end.
Fixpoint cnums (fs : certs) : list Z :=
  match fs with CNil => [] | CCons c _ tl => cnum c :: cnums tl end.

Fixpoint check (c : cert) : bool :=
  match c with
  | Two => true
  | Pratt n a fs =>
      (1 <? n) && (n - 1 =? cprod fs) && (powmod a (n - 1) n =? 1) && check_all n a fs
  end
with check_all (n a : Z) (fs : certs) : bool :=
  match fs with
  | CNil => true
  | CCons c _ tl => check c && negb (powmod a ((n - 1) / cnum c) n =? 1) && check_all n a tl
  end.

Scheme cert_mut := Induction for cert Sort Prop
  with certs_mut := Induction for certs Sort Prop.

Lemma prime_div_cprod fs q :
  (forall x, In x (cnums fs) -> prime x) -> prime q -> (q | cprod fs) -> In q (cnums fs).
Proof.
  intros Hpr Hq. induction fs as [|c e tl IH]; cbn [cprod cnums] in *; intros Hd.
  - apply Z.divide_1_r in Hd. destruct Hq. lia.
  - apply prime_mult in Hd; [|exact Hq]. destruct Hd as [Hd|Hd].
    + left. symmetry. apply (prime_power_prime q (cnum c) (Zpos e)); [lia|exact Hq|apply Hpr; left; reflexivity|exact Hd].
    + right. apply IH; [intros x Hx; apply Hpr; right; exact Hx|exact Hd].
Qed.

Lemma check_sound :
  forall c, check c = true -> prime (cnum c).
Proof.
  apply (cert_mut
    (fun c => check c = true -> prime (cnum c))
    (fun fs => forall n a, check_all n a fs = true ->
       (forall x, In x (cnums fs) -> prime x) /\
       (forall x, In x (cnums fs) -> powmod a ((n - 1) / x) n <> 1))).
  - intros _. exact prime_2.
  - intros n a fs IH Hc. cbn [check] in Hc.
    apply andb_prop in Hc. destruct Hc as [Hc Hall].
    apply andb_prop in Hc. destruct Hc as [Hc Hpow].
    apply andb_prop in Hc. destruct Hc as [Hn Hprod].
    apply Z.ltb_lt in Hn. apply Z.eqb_eq in Hprod. apply Z.eqb_eq in Hpow.
    destruct (IH n a Hall) as [Hprimes Hne].
    cbn [cnum]. apply (lucas n a (cnums fs)).
    + exact Hn.
    + intros q Hq Hd. rewrite Hprod in Hd. apply prime_div_cprod; auto.
    + rewrite <- powmod_spec by lia. exact Hpow.
    + intros q Hin. pose proof (Hprimes q Hin) as Hpq. destruct Hpq as [Hq1 _].
      rewrite <- powmod_spec; [apply Hne; exact Hin|lia|apply Z.div_pos; lia].
  - intros n a _. split; intros x [].
  - intros c IHc e tl IHtl n a Hc. cbn [check_all] in Hc.
    apply andb_prop in Hc. destruct Hc as [Hc Htl].
    apply andb_prop in Hc. destruct Hc as [Hcc Hneq].
    apply negb_true_iff in Hneq. apply Z.eqb_neq in Hneq.
    destruct (IHtl n a Htl) as [Hp Hn]. cbn [cnums].
    split; intros x [Hx|Hx]; subst; auto.
Qed.

(* the certificate for p = 2^128 + 12451 *)
Definition c3 := Pratt 3 2 (CCons Two 1 CNil).
Definition c5 := Pratt 5 2 (CCons Two 2 CNil).
Definition c7 := Pratt 7 3 (CCons Two 1 (CCons c3 1 CNil)).
Definition c11 := Pratt 11 2 (CCons Two 1 (CCons c5 1 CNil)).
Definition c13 := Pratt 13 2 (CCons Two 2 (CCons c3 1 CNil)).
Definition c37 := Pratt 37 2 (CCons Two 2 (CCons c3 2 CNil)).
Definition c61 := Pratt 61 2 (CCons Two 2 (CCons c3 1 (CCons c5 1 CNil))).
Definition c211 := Pratt 211 2 (CCons Two 1 (CCons c3 1 (CCons c5 1 (CCons c7 1 CNil)))).
Definition c257 := Pratt 257 3 (CCons Two 8 CNil).
Definition c353 := Pratt 353 3 (CCons Two 5 (CCons c11 1 CNil)).
Definition c83 := Pratt 83 2 (CCons Two 1 (CCons (Pratt 41 6 (CCons Two 3 (CCons c5 1 CNil))) 1 CNil)).
Definition c997 := Pratt 997 7 (CCons Two 2 (CCons c3 1 (CCons c83 1 CNil))).
Definition c2549 := Pratt 2549 2 (CCons Two 2 (CCons c7 2 (CCons c13 1 CNil))).
Definition c5099 := Pratt 5099 2 (CCons Two 1 (CCons c2549 1 CNil)).
Definition c3109 := Pratt 3109 6 (CCons Two 2 (CCons c3 1 (CCons c7 1 (CCons c37 1 CNil)))).
Definition c37309 := Pratt 37309 7 (CCons Two 2 (CCons c3 1 (CCons c3109 1 CNil))).
Definition c373091 := Pratt 373091 10 (CCons Two 1 (CCons c5 1 (CCons c37309 1 CNil))).
Definition c244753 := Pratt 244753 10 (CCons Two 4 (CCons c3 1 (CCons c5099 1 CNil))).
Definition c15664193 := Pratt 15664193 3 (CCons Two 6 (CCons c244753 1 CNil)).
Definition c2673793 := Pratt 2673793 5 (CCons Two 7 (CCons c3 2 (CCons c11 1 (CCons c211 1 CNil)))).
Definition c13177 := Pratt 13177 5 (CCons Two 3 (CCons c3 3 (CCons c61 1 CNil))).
Definition c31771 := Pratt 31771 10 (CCons Two 1 (CCons c3 2 (CCons c5 1 (CCons c353 1 CNil)))).
Definition cA := Pratt 83765619188099 2 (CCons Two 1 (CCons c2673793 1 (CCons c15664193 1 CNil))).
Definition cB := Pratt 303232839737309 2 (CCons Two 2 (CCons c13 1 (CCons c61 1 (CCons c257 1 (CCons c997 1 (CCons c373091 1 CNil)))))).
Definition cq := Pratt 170141183460469231731687303715884111953 3
  (CCons Two 4 (CCons c31771 1 (CCons c13177 1 (CCons cA 1 (CCons cB 1 CNil))))).
Definition cp := Pratt 340282366920938463463374607431768223907 2 (CCons Two 1 (CCons cq 1 CNil)).

Theorem cq_prime : prime 170141183460469231731687303715884111953.
Proof. apply (check_sound cq). vm_compute. reflexivity. Qed.
(* the modulus the source declares (regenerated Params.modulus) is prime *)
Theorem p_prime : prime Fp.p.
Proof. apply (check_sound cp). vm_compute. reflexivity. Qed.
Lemma p_eq : Fp.p = 2 ^ 128 + 12451.
Proof. reflexivity. Qed.
Lemma p_minus_1 : Fp.p - 1 = 2 * 170141183460469231731687303715884111953.
Proof. reflexivity. Qed.
