(* PPOPRF over any prime-order group given by operations on encodings that satisfy the laws below
   (an explicit premise, never an axiom; ristretto255 / curve25519-dalek is assumed to satisfy it). *)
From Coq Require Import ZArith NArith Arith Bool List Lia Sorted.
Import ListNotations.
From StarV Require Import Params Bytes Strobe Fp Ggm Ppoprf BytesFacts.
Open Scope Z_scope.

Record GrpLaws (G : grp) : Prop := {
  gl_base : g_valid G (g_base G) = true;
  gl_id : g_valid G (g_id G) = true;
  gl_hash : forall u, g_valid G (g_hash G u) = true;
  gl_mul_v : forall k p, g_valid G p = true -> g_valid G (g_mul G k p) = true;
  gl_add_v : forall p q, g_valid G p = true -> g_valid G q = true -> g_valid G (g_add G p q) = true;
  gl_add_comm : forall p q, g_valid G p = true -> g_valid G q = true -> g_add G p q = g_add G q p;
  gl_add_assoc : forall p q r, g_valid G p = true -> g_valid G q = true -> g_valid G r = true ->
                 g_add G p (g_add G q r) = g_add G (g_add G p q) r;
  gl_add_id : forall p, g_valid G p = true -> g_add G p (g_id G) = p;
  gl_mul_mod : forall k p, g_valid G p = true -> g_mul G (k mod ell) p = g_mul G k p;
  gl_mul_add : forall a b p, g_valid G p = true -> g_mul G (a + b) p = g_add G (g_mul G a p) (g_mul G b p);
  gl_mul_mul : forall a b p, g_valid G p = true -> g_mul G (a * b) p = g_mul G a (g_mul G b p);
  gl_mul_1 : forall p, g_valid G p = true -> g_mul G 1 p = p;
  gl_mul_0 : forall p, g_valid G p = true -> g_mul G 0 p = g_id G;
  gl_mul_dist : forall k p q, g_valid G p = true -> g_valid G q = true ->
                g_mul G k (g_add G p q) = g_add G (g_mul G k p) (g_mul G k q);
  (* prime order: a non-identity element has order ell *)
  gl_order : forall a b p, g_valid G p = true -> p <> g_id G -> g_mul G a p = g_mul G b p -> a mod ell = b mod ell
}.

Section PF.
Variable F : list N -> list N.
Variable G : grp.
Hypothesis L : GrpLaws G.
Notation V p := (g_valid G p = true).

Lemma ell_pos : 0 < ell. Proof. reflexivity. Qed.
Lemma mul_comm_sc a b p : V p -> g_mul G a (g_mul G b p) = g_mul G b (g_mul G a p).
Proof. intros H. rewrite <- !(gl_mul_mul G L) by exact H. rewrite Z.mul_comm. reflexivity. Qed.

(* ---------- C12: unblinding removes the blinding ---------- *)
Theorem unblind_eval (e r : Z) (h : bytes) : V h -> (sc_inv r * r) mod ell = 1 ->
  client_unblind G (g_mul G e (g_mul G r h)) r = Ok (g_mul G e h).
Proof.
  intros Hh Hr. unfold client_unblind.
  rewrite (gl_mul_v G L e _ (gl_mul_v G L r h Hh)).
  f_equal. rewrite (mul_comm_sc e r h Hh). rewrite <- (gl_mul_mul G L) by (apply (gl_mul_v G L); exact Hh).
  rewrite <- (gl_mul_mod G L (sc_inv r * r)) by (apply (gl_mul_v G L); exact Hh).
  rewrite Hr. apply (gl_mul_1 G L). apply (gl_mul_v G L). exact Hh.
Qed.

(* blinding hides the point exactly when the scalar is not 1 *)
Theorem blind_is_identity_iff (r : Z) (h : bytes) : V h -> h <> g_id G ->
  (g_mul G r h = h <-> r mod ell = 1).
Proof.
  intros Hh Hne. split.
  - intros E. rewrite <- (gl_mul_1 G L h Hh) in E at 2. apply (gl_order G L r 1 h Hh Hne) in E.
    rewrite E. reflexivity.
  - intros E. rewrite <- (gl_mul_mod G L r h Hh), E. apply (gl_mul_1 G L h Hh).
Qed.
(* different exponents (tagged keys, servers) give different outputs on a non-identity point *)
Theorem eval_exponent_injective (e e' : Z) (p : bytes) : V p -> p <> g_id G ->
  g_mul G e p = g_mul G e' p -> e mod ell = e' mod ell.
Proof. intros Hp Hne. apply (gl_order G L e e' p Hp Hne). Qed.

(* ---------- C13: completeness of the batched DLEQ proof ---------- *)
Lemma composites_loop_valid seed wz : forall cs ds i m z, Forall (fun p => V p) cs -> Forall (fun p => V p) ds -> V m -> V z ->
  V (fst (composites_loop F G seed wz i cs ds m z)) /\ V (snd (composites_loop F G seed wz i cs ds m z)).
Proof.
  induction cs as [|c cs IH]; intros ds i m z Hcs Hds Hm Hz; cbn [composites_loop]; [split; assumption|].
  destruct ds as [|d ds]; [split; assumption|].
  inversion Hcs; subst. inversion Hds; subst.
  apply IH; try assumption.
  - apply (gl_add_v G L); [apply (gl_mul_v G L)|]; assumption.
  - destruct wz; [apply (gl_add_v G L); [apply (gl_mul_v G L)|]; assumption|assumption].
Qed.

(* with q_i = key * p_i the verifier's Z equals key * M *)
Lemma composites_loop_key seed key : forall cs ds i m z, Forall (fun p => V p) cs ->
  ds = map (g_mul G key) cs -> V m -> z = g_mul G key m ->
  fst (composites_loop F G seed true i cs ds m z) = fst (composites_loop F G seed false i cs ds m (g_id G)) /\
  snd (composites_loop F G seed true i cs ds m z) = g_mul G key (fst (composites_loop F G seed true i cs ds m z)).
Proof.
  induction cs as [|c cs IH]; intros ds i m z Hcs -> Hm ->; cbn [map composites_loop fst snd]; [split; reflexivity|].
  inversion Hcs as [|? ? Hc Hcs']; subst.
  set (di := composite_scalar F seed i c (g_mul G key c)).
  assert (Hm' : V (g_add G (g_mul G di c) m)) by (apply (gl_add_v G L); [apply (gl_mul_v G L)|]; assumption).
  destruct (IH (map (g_mul G key) cs) (S i) (g_add G (g_mul G di c) m)
              (g_add G (g_mul G di (g_mul G key c)) (g_mul G key m)) Hcs' eq_refl Hm') as [A B].
  - rewrite (gl_mul_dist G L) by (try apply (gl_mul_v G L); assumption). f_equal. apply mul_comm_sc. exact Hc.
  - split; [exact A|exact B].
Qed.

Theorem verify_new_batch (key r : Z) (ps : list bytes) :
  Forall (fun p => V p) ps ->
  verify_batch F G (new_batch F G key (g_mul G key (g_base G)) ps (map (g_mul G key) ps) r)
               (g_mul G key (g_base G)) ps (map (g_mul G key) ps) = true.
Proof.
  intros Hps. unfold verify_batch, new_batch, compute_composites.
  set (pv := g_mul G key (g_base G)). set (seed := composite_seed F pv). set (qs := map (g_mul G key) ps).
  destruct (composites_loop_key seed key ps qs 0%nat (g_id G) (g_id G) Hps eq_refl (gl_id G L)) as [A B].
  { symmetry. rewrite <- (gl_mul_mod G L key) by apply (gl_id G L).
    (* key * id = id: id = 0 * base *)
    rewrite <- (gl_mul_0 G L (g_base G) (gl_base G L)). rewrite (gl_mul_mod G L key) by (apply (gl_mul_v G L), (gl_base G L)).
    rewrite <- (gl_mul_mul G L) by apply (gl_base G L). rewrite Z.mul_0_r. reflexivity. }
  destruct (composites_loop F G seed true 0 ps qs (g_id G) (g_id G)) as [mv zv] eqn:Ev.
  destruct (composites_loop F G seed false 0 ps qs (g_id G) (g_id G)) as [mp zp] eqn:Ep.
  cbn [fst snd] in A, B. subst mp zv. cbn [pr_c pr_s].
  assert (Hmv : V mv).
  { pose proof (composites_loop_valid seed true ps qs 0%nat (g_id G) (g_id G) Hps) as Hv.
    rewrite Ev in Hv. cbn [fst] in Hv. apply Hv; [|apply (gl_id G L)|apply (gl_id G L)].
    unfold qs. apply Forall_forall. intros q Hq. apply in_map_iff in Hq. destruct Hq as [p [<- Hp]].
    apply (gl_mul_v G L). rewrite Forall_forall in Hps. apply Hps. exact Hp. }
  set (c := challenge F pv mv (g_mul G key mv) (g_mul G r (g_base G)) (g_mul G r mv)).
  assert (Hgen : forall b, V b ->
            g_add G (g_mul G (sc_sub r (sc_mul c key)) b) (g_mul G c (g_mul G key b)) = g_mul G r b).
  { intros b Hb. unfold sc_sub, sc_mul. rewrite (gl_mul_mod G L) by exact Hb.
    rewrite <- (gl_mul_mul G L) by exact Hb. rewrite <- (gl_mul_add G L) by exact Hb.
    rewrite <- (gl_mul_mod G L (r - (c * key) mod ell + c * key)) by exact Hb.
    rewrite <- Zplus_mod_idemp_l, Zminus_mod_idemp_r, Zplus_mod_idemp_l.
    replace (r - c * key + c * key) with r by ring. apply (gl_mul_mod G L). exact Hb. }
  pose proof (Hgen (g_base G) (gl_base G L)) as H1. fold pv in H1. rewrite H1. rewrite (Hgen mv Hmv). apply Z.eqb_refl.
Qed.

(* ---------- C13: special soundness of the DLEQ relation ---------- *)
Lemma lin2 a b p : V p -> g_add G (g_mul G a p) (g_mul G b p) = g_mul G (a + b) p.
Proof. intros H. symmetry. apply (gl_mul_add G L). exact H. Qed.
Lemma add4 a b a' b' p q : V p -> V q ->
  g_add G (g_add G (g_mul G a p) (g_mul G b q)) (g_add G (g_mul G a' p) (g_mul G b' q))
  = g_add G (g_mul G (a + a') p) (g_mul G (b + b') q).
Proof.
  intros Hp Hq.
  assert (Vap : V (g_mul G a p)) by (apply (gl_mul_v G L); exact Hp).
  assert (Vbq : V (g_mul G b q)) by (apply (gl_mul_v G L); exact Hq).
  assert (Va'p : V (g_mul G a' p)) by (apply (gl_mul_v G L); exact Hp).
  assert (Vb'q : V (g_mul G b' q)) by (apply (gl_mul_v G L); exact Hq).
  rewrite <- (lin2 a a' p Hp), <- (lin2 b b' q Hq).
  (* (ap + bq) + (a'p + b'q) = (ap + a'p) + (bq + b'q) *)
  rewrite (gl_add_assoc G L (g_add G (g_mul G a p) (g_mul G b q)) (g_mul G a' p) (g_mul G b' q))
    by (try apply (gl_add_v G L); assumption).
  rewrite <- (gl_add_assoc G L (g_mul G a p) (g_mul G b q) (g_mul G a' p)) by assumption.
  rewrite (gl_add_comm G L (g_mul G b q) (g_mul G a' p)) by assumption.
  rewrite (gl_add_assoc G L (g_mul G a p) (g_mul G a' p) (g_mul G b q)) by assumption.
  rewrite <- (gl_add_assoc G L (g_add G (g_mul G a p) (g_mul G a' p)) (g_mul G b q) (g_mul G b' q))
    by (try apply (gl_add_v G L); assumption).
  reflexivity.
Qed.

(* two accepting transcripts with the same commitments and different challenges force Z = k*M:
   if Z <> k*M, at most one challenge can be answered for given commitments *)
Theorem dleq_special_soundness (k : Z) (m z : bytes) (c s c' s' d : Z) :
  V m -> V z -> g_base G <> g_id G ->
  g_add G (g_mul G s (g_base G)) (g_mul G c (g_mul G k (g_base G)))
    = g_add G (g_mul G s' (g_base G)) (g_mul G c' (g_mul G k (g_base G))) ->
  g_add G (g_mul G s m) (g_mul G c z) = g_add G (g_mul G s' m) (g_mul G c' z) ->
  (d * (c' - c)) mod ell = 1 ->
  z = g_mul G k m.
Proof.
  intros Hm Hz HB E1 E2 Hd.
  pose proof (gl_base G L) as VB.
  (* exponents on the base point *)
  rewrite <- !(gl_mul_mul G L) in E1 by exact VB. rewrite !(lin2 _ _ _ VB) in E1.
  apply (gl_order G L _ _ _ VB HB) in E1.
  (* bring the second equation to (s - s') m = (c' - c) z *)
  assert (E3 : g_mul G (s - s') m = g_mul G (c' - c) z).
  { assert (HL : g_add G (g_add G (g_mul G s m) (g_mul G c z)) (g_add G (g_mul G (- s') m) (g_mul G (- c) z))
               = g_mul G (s - s') m).
    { rewrite (add4 s c (- s') (- c) m z Hm Hz). replace (c + - c) with 0 by ring.
      rewrite (gl_mul_0 G L z Hz). rewrite (gl_add_id G L) by (apply (gl_mul_v G L); exact Hm).
      reflexivity. }
    assert (HR : g_add G (g_add G (g_mul G s' m) (g_mul G c' z)) (g_add G (g_mul G (- s') m) (g_mul G (- c) z))
               = g_mul G (c' - c) z).
    { rewrite (add4 s' c' (- s') (- c) m z Hm Hz). replace (s' + - s') with 0 by ring.
      rewrite (gl_mul_0 G L m Hm).
      rewrite (gl_add_comm G L (g_id G)) by (try apply (gl_id G L); apply (gl_mul_v G L); exact Hz).
      rewrite (gl_add_id G L) by (apply (gl_mul_v G L); exact Hz). reflexivity. }
    rewrite <- HL, <- HR, E2. reflexivity. }
  (* s - s' = (c' - c) k  (mod ell) *)
  assert (E4 : (s - s') mod ell = ((c' - c) * k) mod ell).
  { assert (H1 : (s - s') mod ell = ((s + c * k) - (s' + c * k)) mod ell) by (f_equal; ring).
    rewrite H1. rewrite Zminus_mod, E1, <- Zminus_mod. f_equal. ring. }
  rewrite <- (gl_mul_mod G L (s - s') m Hm), E4, (gl_mul_mod G L _ m Hm) in E3.
  (* multiply by d *)
  assert (E5 : g_mul G d (g_mul G ((c' - c) * k) m) = g_mul G d (g_mul G (c' - c) z)) by (rewrite E3; reflexivity).
  rewrite <- !(gl_mul_mul G L) in E5 by assumption.
  rewrite Z.mul_assoc in E5.
  rewrite <- (gl_mul_mod G L (d * (c' - c) * k) m Hm) in E5. rewrite <- Zmult_mod_idemp_l, Hd, Z.mul_1_l in E5.
  rewrite (gl_mul_mod G L k m Hm) in E5.
  rewrite <- (gl_mul_mod G L (d * (c' - c)) z Hz), Hd, (gl_mul_1 G L z Hz) in E5.
  symmetry. exact E5.
Qed.

(* ---------- C15: binary forms ---------- *)
Lemma sc_canonical_to_bytes s : 0 <= s < ell -> sc_canonical (sc_to_bytes s) = Some s.
Proof.
  intros Hs. unfold sc_canonical, sc_to_bytes. rewrite length_bytes_of_le. cbn [Nat.eqb].
  rewrite le_of_bytes_of_le_small.
  - rewrite Z2N.id by lia. destruct (s <? ell) eqn:E; [reflexivity|apply Z.ltb_ge in E; lia].
  - change (256 ^ N.of_nat 32)%N with (Z.to_N (256 ^ 32)). apply Z2N.inj_lt; [lia|vm_compute; congruence|].
    assert (ell < 256 ^ 32) by reflexivity. lia.
Qed.
Lemma firstn_app_len {A} n (a b : list A) : length a = n -> firstn n (a ++ b) = a.
Proof. intros <-. apply firstn_app_exact. Qed.
Lemma skipn_app_len {A} n (a b : list A) : length a = n -> skipn n (a ++ b) = b.
Proof. intros <-. apply skipn_app_exact. Qed.
Lemma sc_to_bytes_len s : length (sc_to_bytes s) = 32%nat.
Proof. apply length_bytes_of_le. Qed.
Theorem proof_roundtrip (p : proof) : 0 <= pr_c p < ell -> 0 <= pr_s p < ell ->
  proof_from_bincode (proof_to_bincode p) = inr p.
Proof.
  intros Hc Hs. unfold proof_from_bincode, proof_to_bincode.
  rewrite app_length, !sc_to_bytes_len.
  change (Params.max_serialized_proof_size <? N.of_nat (32 + 32))%N with false.
  change (32 + 32 <? 64)%nat with false. cbv iota.
  rewrite (firstn_app_len 32) by apply sc_to_bytes_len.
  rewrite (skipn_app_len 32) by apply sc_to_bytes_len.
  rewrite firstn_all2 by (rewrite sc_to_bytes_len; lia).
  rewrite !sc_canonical_to_bytes by assumption. destruct p; reflexivity.
Qed.
Theorem proof_too_big data : (Params.max_serialized_proof_size < N.of_nat (length data))%N -> proof_from_bincode data = inl TooBig.
Proof. intros H. unfold proof_from_bincode. apply N.ltb_lt in H. rewrite H. reflexivity. Qed.
Theorem pk_too_big data : (Params.max_serialized_pk_size < N.of_nat (length data))%N -> pk_from_bincode data = inl TooBig.
Proof. intros H. unfold pk_from_bincode. apply N.ltb_lt in H. rewrite H. reflexivity. Qed.
Theorem pk_size pk : Forall (fun e => length (snd e) = 32%nat) (pk_md pk) -> length (pk_base pk) = 32%nat ->
  length (pk_to_bincode pk) = (40 + 33 * length (pk_md pk))%nat.
Proof.
  intros Hm Hb. unfold pk_to_bincode, le64. rewrite !app_length, Hb, length_bytes_of_le.
  assert (H : length (flat_map (fun e => fst e :: snd e) (pk_md pk)) = (33 * length (pk_md pk))%nat).
  { induction Hm as [|e l He _ IH]; cbn [flat_map length]; [reflexivity|]. rewrite app_length, IH. cbn [length]. rewrite He. lia. }
  rewrite H. lia.
Qed.
(* every key fits: at most 256 one-byte tags, and the limit in the source leaves room *)
Theorem pk_fits pk : Forall (fun e => length (snd e) = 32%nat) (pk_md pk) -> length (pk_base pk) = 32%nat ->
  (length (pk_md pk) <= 256)%nat ->
  (N.of_nat (length (pk_to_bincode pk)) <= 8488)%N /\ (8488 <= Params.max_serialized_pk_size)%N.
Proof. intros Hm Hb Hn. rewrite (pk_size pk Hm Hb). split; [lia|vm_compute; discriminate]. Qed.

(* public key: decode (encode pk) = pk for keys as the server builds them (tags strictly increasing) *)
Definition pk_wf (pk : pubkey) : Prop :=
  length (pk_base pk) = 32%nat /\ Forall (fun e => length (snd e) = 32%nat) (pk_md pk) /\
  StronglySorted (fun a b => (fst a < fst b)%N) (pk_md pk) /\ (length (pk_md pk) <= 256)%nat.

Lemma pk_insert_last : forall acc md v, Forall (fun e => (fst e < md)%N) acc -> pk_insert acc md v = acc ++ [(md, v)].
Proof.
  induction acc as [|[k w] acc IH]; intros md v H; cbn [pk_insert app]; [reflexivity|].
  inversion H as [|? ? Hk Hacc]; subst. cbn [fst] in Hk.
  replace (N.eqb k md) with false by (symmetry; apply N.eqb_neq; lia).
  replace (md <? k)%N with false by (symmetry; apply N.ltb_ge; lia).
  rewrite IH by exact Hacc. reflexivity.
Qed.

Lemma pk_entries_flat : forall l acc fuel rest,
  (length l < fuel)%nat -> Forall (fun e => length (snd e) = 32%nat) l ->
  StronglySorted (fun a b => (fst a < fst b)%N) (acc ++ l) ->
  pk_entries fuel (N.of_nat (length l)) (flat_map (fun e => fst e :: snd e) l ++ rest) acc = Some (acc ++ l).
Proof.
  induction l as [|[md v] l IH]; intros acc fuel rest Hf Hlen Hs.
  - destruct fuel; [cbn in Hf; lia|]. cbn [pk_entries length N.of_nat N.eqb]. rewrite app_nil_r. reflexivity.
  - destruct fuel as [|fuel]; [cbn in Hf; lia|].
    inversion Hlen as [|? ? Hv Hlen']; subst. cbn [snd] in Hv.
    cbn [pk_entries]. replace (N.eqb (N.of_nat (length ((md, v) :: l))) 0) with false by (symmetry; apply N.eqb_neq; cbn [length]; lia).
    cbn [flat_map fst snd app]. rewrite <- !app_assoc, app_length, Hv.
    replace (32 <=? 32 + _)%nat with true by (symmetry; apply Nat.leb_le; lia).
    rewrite (firstn_app_len 32) by exact Hv. rewrite (skipn_app_len 32) by exact Hv.
    replace (N.of_nat (length ((md, v) :: l)) - 1)%N with (N.of_nat (length l)) by (cbn [length]; lia).
    assert (Hins : pk_insert acc md v = acc ++ [(md, v)]).
    { apply pk_insert_last. apply Forall_forall. intros e He.
      clear - Hs He. induction acc as [|a acc IHa]; [destruct He|]. cbn [app] in Hs. inversion Hs as [|? ? Hs' Hall]; subst.
      destruct He as [<-|He]; [|apply IHa; assumption].
      rewrite Forall_forall in Hall. apply (Hall (md, v)). apply in_or_app. right. left. reflexivity. }
    rewrite Hins. rewrite IH; [rewrite <- app_assoc; reflexivity|cbn [length] in Hf; lia|exact Hlen'|rewrite <- app_assoc; exact Hs].
Qed.

Theorem pk_roundtrip pk : pk_wf pk -> pk_from_bincode (pk_to_bincode pk) = inr pk.
Proof.
  intros (Hb & Hm & Hs & Hn). unfold pk_from_bincode.
  pose proof (pk_size pk Hm Hb) as Hsz. rewrite Hsz.
  replace (Params.max_serialized_pk_size <? N.of_nat (40 + 33 * length (pk_md pk)))%N with false
    by (symmetry; apply N.ltb_ge; change Params.max_serialized_pk_size with 16384%N; lia).
  replace (40 + 33 * length (pk_md pk) <? 40)%nat with false by (symmetry; apply Nat.ltb_ge; lia).
  unfold pk_to_bincode.
  rewrite (firstn_app_len 32) by exact Hb. rewrite (skipn_app_len 32) by exact Hb.
  assert (L8 : length (le64 (N.of_nat (length (pk_md pk)))) = 8%nat) by apply length_bytes_of_le.
  rewrite (firstn_app_len 8) by exact L8.
  replace (skipn 40 (pk_base pk ++ le64 (N.of_nat (length (pk_md pk))) ++ flat_map (fun e => fst e :: snd e) (pk_md pk)))
    with (flat_map (fun e => fst e :: snd e) (pk_md pk)).
  2:{ rewrite app_assoc. symmetry. apply skipn_app_len. rewrite app_length, Hb, L8. reflexivity. }
  unfold le64. rewrite le_of_bytes_of_le_small by (change (256 ^ N.of_nat 8)%N with 18446744073709551616%N; lia).
  rewrite <- (app_nil_r (flat_map _ _)).
  rewrite (pk_entries_flat (pk_md pk) [] _ []); [destruct pk; reflexivity| |exact Hm|exact Hs].
  clear. unfold bytes. lia.
Qed.
End PF.
