(* Field element encoding, dealing, and Shamir recovery (sharks) *)
From Coq Require Import ZArith NArith Arith Bool List Lia Field.
Import ListNotations.
From StarV Require Import Params Bytes Fp PolyDefs Shamir BytesFacts FieldFacts Lagrange.

(* ---------- canonical 24-byte encoding ---------- *)
Lemma fel : Params.field_element_len = 24%nat. Proof. reflexivity. Qed.
Lemma p_lt_256_24 : (p < 256 ^ 24)%Z. Proof. reflexivity. Qed.

Lemma length_to_repr a : length (to_repr a) = 24%nat.
Proof. unfold to_repr. rewrite length_bytes_of_le. apply fel. Qed.
Lemma wf_to_repr a : wf (to_repr a).
Proof. apply wf_bytes_of_le. Qed.

Lemma from_to_repr a : from_repr (to_repr a) = Some a.
Proof.
  unfold from_repr. rewrite length_to_repr, fel. cbn [Nat.eqb].
  unfold to_repr. rewrite fel. pose proof (val_range a) as Hr.
  rewrite le_of_bytes_of_le_small.
  - rewrite Z2N.id by lia. destruct (val a <? p)%Z eqn:E; [|apply Z.ltb_ge in E; lia].
    f_equal. apply mkfp_val.
  - change (256 ^ N.of_nat 24)%N with (Z.to_N (256 ^ 24)). apply Z2N.inj_lt; [lia|vm_compute; congruence|].
    pose proof p_lt_256_24. lia.
Qed.

Lemma from_repr_some bs a : from_repr bs = Some a ->
  length bs = 24%nat /\ (Z.of_N (le_of_bytes bs) < p)%Z /\ val a = Z.of_N (le_of_bytes bs).
Proof.
  unfold from_repr. rewrite fel. destruct (Nat.eqb (length bs) 24) eqn:El; [|discriminate].
  apply Nat.eqb_eq in El. destruct (Z.of_N (le_of_bytes bs) <? p)%Z eqn:Ev; [|discriminate].
  apply Z.ltb_lt in Ev. intros H. injection H as <-. repeat split; try assumption.
  apply mkfp_small. lia.
Qed.
Lemma from_repr_unique bs a : wf bs -> from_repr bs = Some a -> to_repr a = bs.
Proof.
  intros Hwf H. destruct (from_repr_some bs a H) as (Hl & Hv & Hval).
  unfold to_repr. rewrite Hval, N2Z.id, fel, <- Hl. apply bytes_of_le_of_bytes. exact Hwf.
Qed.
Lemma from_repr_none bs : from_repr bs = None <-> length bs <> 24%nat \/ (p <= Z.of_N (le_of_bytes bs))%Z.
Proof.
  unfold from_repr. rewrite fel. destruct (Nat.eqb (length bs) 24) eqn:El.
  - apply Nat.eqb_eq in El. destruct (Z.of_N (le_of_bytes bs) <? p)%Z eqn:Ev.
    + apply Z.ltb_lt in Ev. split; [discriminate|intros [H|H]; [contradiction|lia]].
    + apply Z.ltb_ge in Ev. split; [intros _; right; exact Ev|reflexivity].
  - apply Nat.eqb_neq in El. split; [intros _; left; exact El|reflexivity].
Qed.
Lemma to_repr_inj a b : to_repr a = to_repr b -> a = b.
Proof. intros H. pose proof (from_to_repr a) as Ha. rewrite H, from_to_repr in Ha. congruence. Qed.

(* ---------- share codec ---------- *)
Lemma chunks_flat_map (l : list fp) (fuel : nat) : (length l <= fuel)%nat ->
  Shamir.chunks fuel (flat_map to_repr l) = map to_repr l.
Proof.
  revert fuel. induction l as [|a l IH]; intros fuel Hf.
  - destruct fuel; reflexivity.
  - destruct fuel as [|fuel]; [cbn in Hf; lia|]. cbn [flat_map Shamir.chunks].
    rewrite fel, app_length, length_to_repr.
    replace (24 <=? 24 + length (flat_map to_repr l))%nat with true by (symmetry; apply Nat.leb_le; lia).
    rewrite <- (length_to_repr a) at 1 2. rewrite firstn_app_exact, skipn_app_exact.
    cbn [map]. f_equal. apply IH. cbn in Hf. lia.
Qed.
Lemma length_flat_map_repr (l : list fp) : length (flat_map to_repr l) = (24 * length l)%nat.
Proof. induction l as [|a l IH]; cbn [flat_map length]; [reflexivity|]. rewrite app_length, length_to_repr, IH. lia. Qed.
Lemma chunks24_flat_map (l : list fp) : chunks24 (flat_map to_repr l) = map to_repr l.
Proof. unfold chunks24. apply chunks_flat_map. rewrite length_flat_map_repr. lia. Qed.
Lemma decode_all_map (l : list fp) : decode_all (map to_repr l) = Some l.
Proof. induction l as [|a l IH]; cbn [map decode_all]; [reflexivity|]. rewrite from_to_repr, IH. reflexivity. Qed.

Theorem share_roundtrip s : share_from_bytes (share_to_bytes s) = Ok s.
Proof.
  unfold share_from_bytes, share_to_bytes. rewrite fel, app_length, length_to_repr.
  replace (24 + length (flat_map to_repr (sy s)) <? 24)%nat with false by (symmetry; apply Nat.ltb_ge; lia).
  rewrite slice_to_ok by (rewrite app_length, length_to_repr; lia). cbn [obind].
  rewrite <- (length_to_repr (sx s)) at 1. rewrite firstn_app_exact, from_to_repr.
  rewrite slice_from_ok by (rewrite app_length, length_to_repr; lia). cbn [obind].
  rewrite <- (length_to_repr (sx s)) at 1. rewrite skipn_app_exact.
  rewrite chunks24_flat_map, decode_all_map. destruct s; reflexivity.
Qed.

(* ---------- de-duplication ---------- *)
Lemma existsb_feqb x l : existsb (feqb x) l = true <-> In x l.
Proof.
  rewrite existsb_exists. split.
  - intros [y [Hy E]]. apply feqb_eq in E. subst. exact Hy.
  - intros H. exists x. split; [exact H|apply feqb_refl].
Qed.
Lemma dedup_in seen l s : In s (dedup seen l) -> In s l /\ ~ In (sx s) seen.
Proof.
  revert seen. induction l as [|a l IH]; intros seen H; cbn [dedup] in H; [destruct H|].
  destruct (existsb (feqb (sx a)) seen) eqn:E.
  - destruct (IH _ H) as [H1 H2]. split; [right; exact H1|exact H2].
  - destruct H as [H|H].
    + subst a. split; [left; reflexivity|]. intro Hin. apply existsb_feqb in Hin. congruence.
    + destruct (IH _ H) as [H1 H2]. split; [right; exact H1|]. intro Hin. apply H2. right. exact Hin.
Qed.
Lemma dedup_nodup seen l : NoDup (map sx (dedup seen l)).
Proof.
  revert seen. induction l as [|a l IH]; intros seen; cbn [dedup]; [constructor|].
  destruct (existsb (feqb (sx a)) seen) eqn:E; [apply IH|].
  cbn [map]. constructor; [|apply IH].
  intro Hin. apply in_map_iff in Hin. destruct Hin as [s [Hs Hin]].
  apply dedup_in in Hin. destruct Hin as [_ Hn]. apply Hn. left. symmetry. exact Hs.
Qed.
(* every x of the input is either already seen or kept *)
Lemma dedup_covers seen l x : In x (map sx l) -> In x seen \/ In x (map sx (dedup seen l)).
Proof.
  revert seen. induction l as [|a l IH]; intros seen H; cbn [map] in H; [destruct H|]. cbn [dedup].
  destruct (existsb (feqb (sx a)) seen) eqn:E.
  - destruct H as [H|H]; [left; subst; apply existsb_feqb; exact E|apply IH; exact H].
  - destruct H as [H|H]; [right; left; exact H|].
    destruct (IH (sx a :: seen) H) as [[H1|H1]|H1]; [right; left; exact H1|left; exact H1|right; right; exact H1].
Qed.
Lemma dedup_count l pts : NoDup pts -> incl pts (map sx l) -> (length pts <= length (dedup [] l))%nat.
Proof.
  intros Hnd Hincl. rewrite <- (map_length sx (dedup [] l)).
  apply NoDup_incl_length; [exact Hnd|].
  intros x Hx. destruct (dedup_covers [] l x (Hincl x Hx)) as [[]|H]. exact H.
Qed.
Lemma dedup_head seen a l : ~ In (sx a) seen -> dedup seen (a :: l) = a :: dedup (sx a :: seen) l.
Proof.
  intros H. cbn [dedup]. destruct (existsb (feqb (sx a)) seen) eqn:E; [apply existsb_feqb in E; contradiction|reflexivity].
Qed.

Lemma NoDup_app_l {A} (a b : list A) : NoDup (a ++ b) -> NoDup a.
Proof.
  induction a as [|x a IH]; intros H; [constructor|]. cbn [app] in H. inversion H as [|? ? Hn Hd]; subst.
  constructor; [intro Hin; apply Hn; apply in_or_app; left; exact Hin|apply IH; exact Hd].
Qed.

Lemma In_firstn {A} n (l : list A) x : In x (firstn n l) -> In x l.
Proof.
  revert l. induction n as [|n IH]; intros l H; [destruct H|]. destruct l as [|a l]; [destruct H|].
  cbn [firstn] in H. destruct H as [H|H]; [left; exact H|right; apply IH; exact H].
Qed.

(* ---------- recovery ---------- *)
Definition on_polys (polys : list (list fp)) (s : share) : Prop := sy s = map (fun pl => fhorner pl (sx s)) polys.
Lemma evaluate_on polys x : on_polys polys (evaluate polys x).
Proof. reflexivity. Qed.

Notation fl_horner := (lagrange_horner fp fzero fone fadd fmul fsub fopp fdiv finv feqb fp_field feqb_eq).

(* the fast evaluation strategy of the model equals the code-shaped interpolation, for every input *)
Add Field FpField : fp_field.
Lemma finv_zero : finv fzero = fzero.
Proof. apply fp_eq. vm_compute. reflexivity. Qed.
Lemma finv_one : finv fone = fone.
Proof. apply fp_eq. vm_compute. reflexivity. Qed.
Lemma fold_left_ext_fn {A B} (f g : A -> B -> A) : (forall a b, f a b = g a b) -> forall l a, fold_left f l a = fold_left g l a.
Proof. intros H l. induction l as [|b l IH]; intros a; cbn [fold_left]; [reflexivity|]. rewrite H. apply IH. Qed.
Lemma finv_mul a b : finv (fmul a b) = fmul (finv a) (finv b).
Proof.
  destruct (fp_eq_dec a fzero) as [->|Ha].
  - replace (fmul fzero b) with fzero by ring. rewrite finv_zero. ring.
  - destruct (fp_eq_dec b fzero) as [->|Hb].
    + replace (fmul a fzero) with fzero by ring. rewrite finv_zero. ring.
    + field. split; assumption.
Qed.
Lemma fold_mul_acc (g : fp -> fp) l : forall acc,
  fold_left (fun acc b => fmul acc (g b)) l acc = fmul acc (fold_left (fun acc b => fmul acc (g b)) l fone).
Proof.
  induction l as [|b l IH]; intros acc; cbn [fold_left]; [ring|].
  rewrite IH. rewrite (IH (fmul fone (g b))). ring.
Qed.
Lemma fold_fmul_acc l : forall acc, fold_left fmul l acc = fmul acc (fold_left fmul l fone).
Proof.
  induction l as [|b l IH]; intros acc; cbn [fold_left]; [ring|].
  rewrite IH. rewrite (IH (fmul fone b)). ring.
Qed.
Lemma basis0_fast_eq a l : basis0 fp fone fmul fsub finv a l = basis0_fast a l.
Proof.
  unfold basis0, basis0_fast.
  induction l as [|b l IH]; cbn [fold_left].
  - rewrite finv_one. ring.
  - rewrite (fold_mul_acc (fun b => fmul b (finv (fsub b a)))). cbv beta. rewrite IH.
    rewrite (fold_fmul_acc l (fmul fone b)).
    rewrite (fold_mul_acc (fun b => fsub b a) l (fmul fone (fsub b a))). cbv beta.
    rewrite !finv_mul, finv_one.
    set (P := fold_left fmul l fone). set (Q := finv (fold_left (fun acc b0 => fmul acc (fsub b0 a)) l fone)).
    set (I := finv (fsub b a)). ring.
Qed.
Lemma finterp_fast_eq l : finterp_pairs_fast l = finterp_pairs l.
Proof.
  unfold finterp_pairs_fast, finterp_pairs, interp_pairs.
  apply fold_left_ext_fn. intros acc pr. rewrite basis0_fast_eq. reflexivity.
Qed.

Lemma interp_one polys (shs : list share) i pl :
  NoDup (map sx shs) -> Forall (on_polys polys) shs -> nth_error polys i = Some pl ->
  (length pl <= length shs)%nat ->
  finterp_pairs_fast (map (fun s => (sx s, nth i (sy s) fzero)) shs) = fhorner pl fzero.
Proof.
  intros Hnd Hon Hi Hlen.
  assert (E : map (fun s => (sx s, nth i (sy s) fzero)) shs = map (fun a => (a, fhorner pl a)) (map sx shs)).
  { rewrite map_map. apply map_ext_in. intros s Hs. f_equal.
    rewrite Forall_forall in Hon. rewrite (Hon s Hs).
    rewrite (nth_indep _ fzero (fhorner pl (sx s))).
    2:{ rewrite map_length. apply nth_error_Some. congruence. }
    rewrite (map_nth (fun pl0 => fhorner pl0 (sx s)) polys pl i). f_equal.
    apply nth_error_nth. exact Hi. }
  rewrite finterp_fast_eq. unfold finterp_pairs. rewrite E. unfold fhorner. apply fl_horner; [exact Hnd|rewrite map_length; exact Hlen].
Qed.

Lemma flat_map_seq_nth {A B} (f : A -> list B) (g : nat -> list B) (l : list A) :
  (forall i a, nth_error l i = Some a -> g i = f a) ->
  flat_map g (seq 0 (length l)) = flat_map f l.
Proof.
  intros H. 
  assert (G : forall k, (forall i a, nth_error l i = Some a -> g (k + i)%nat = f a) -> flat_map g (seq k (length l)) = flat_map f l).
  { clear H. induction l as [|a l IH]; intros k H; cbn [length seq flat_map]; [reflexivity|].
    f_equal.
    - rewrite <- (H 0%nat a eq_refl). f_equal. lia.
    - apply IH. intros i b Hi. rewrite <- (H (S i) b Hi). f_equal. lia. }
  apply (G 0%nat). exact H.
Qed.

Theorem interpolate_correct polys (shs : list share) :
  shs <> [] -> NoDup (map sx shs) -> Forall (on_polys polys) shs ->
  Forall (fun pl => (length pl <= length shs)%nat) polys ->
  interpolate shs = Ok (flat_map (fun pl => to_repr (fhorner pl fzero)) polys).
Proof.
  intros Hne Hnd Hon Hlen. destruct shs as [|s0 rest] eqn:Es; [congruence|]. rewrite <- Es in *.
  unfold interpolate. rewrite Es. rewrite <- Es. f_equal.
  assert (Hs0 : length (sy s0) = length polys).
  { rewrite Forall_forall in Hon. rewrite (Hon s0) by (rewrite Es; left; reflexivity). apply map_length. }
  rewrite Hs0. apply flat_map_seq_nth. intros i pl Hi. f_equal.
  apply (interp_one polys shs i pl Hnd Hon Hi).
  rewrite Forall_forall in Hlen. apply Hlen. eapply nth_error_In. exact Hi.
Qed.

Lemma forallb_len polys shs s0 : Forall (on_polys polys) shs -> on_polys polys s0 ->
  forallb (fun s => Nat.eqb (length (sy s)) (length (sy s0))) shs = true.
Proof.
  intros H H0. apply forallb_forall. intros s Hs. rewrite Forall_forall in H.
  rewrite (H s Hs), H0, !map_length. apply Nat.eqb_refl.
Qed.

(* >= t distinct points on polynomials of at most t coefficients: exactly the constant terms *)
Theorem recover_correct polys (t : N) (shs : list share) :
  (1 <= t)%N ->
  Forall (fun pl => (N.of_nat (length pl) <= t)%N) polys ->
  Forall (on_polys polys) shs ->
  (t <= N.of_nat (length (dedup [] shs)))%N ->
  recover t shs = Ok (flat_map (fun pl => to_repr (fhorner pl fzero)) polys).
Proof.
  intros Ht Hdeg Hon Hcnt. unfold recover.
  destruct shs as [|s0 rest] eqn:Es; [cbn in Hcnt; lia|]. rewrite <- Es in *.
  assert (H0 : on_polys polys s0) by (rewrite Forall_forall in Hon; apply Hon; rewrite Es; left; reflexivity).
  rewrite (forallb_len polys shs s0 Hon H0).
  destruct (N.of_nat (length (dedup [] shs)) <? t)%N eqn:E; [apply N.ltb_lt in E; lia|].
  set (vals := firstn (N.to_nat t) (dedup [] shs)).
  assert (Hlenv : length vals = N.to_nat t) by (unfold vals; rewrite firstn_length; lia).
  apply interpolate_correct.
  - intro Hnil. rewrite Hnil in Hlenv. cbn in Hlenv. lia.
  - unfold vals. rewrite <- firstn_map. 
    pose proof (dedup_nodup [] shs) as Hnd. 
    rewrite <- (firstn_skipn (N.to_nat t) (map sx (dedup [] shs))) in Hnd.
    apply NoDup_app_l in Hnd. exact Hnd.
  - apply Forall_forall. intros s Hs. unfold vals in Hs. apply In_firstn in Hs.
    apply dedup_in in Hs. destruct Hs as [Hs _]. rewrite Forall_forall in Hon. apply Hon. exact Hs.
  - rewrite Hlenv. eapply Forall_impl; [|exact Hdeg]. cbn beta. intros pl Hpl. lia.
Qed.

(* fewer than t distinct points, unequal lengths, or no shares: refused *)
Theorem recover_too_few (t : N) shs : (N.of_nat (length (dedup [] shs)) < t)%N -> recover t shs = Err.
Proof.
  intros H. unfold recover. destruct shs as [|s0 rest]; [reflexivity|].
  destruct (forallb _ _); [|reflexivity]. apply N.ltb_lt in H. rewrite H. reflexivity.
Qed.
Theorem recover_unequal (t : N) s0 rest s : In s rest -> length (sy s) <> length (sy s0) -> recover t (s0 :: rest) = Err.
Proof.
  intros Hin Hne. unfold recover.
  destruct (forallb (fun s1 => Nat.eqb (length (sy s1)) (length (sy s0))) (s0 :: rest)) eqn:E; [|reflexivity].
  rewrite forallb_forall in E. specialize (E s (or_intror Hin)). apply Nat.eqb_eq in E. contradiction.
Qed.
Theorem recover_zero_threshold shs : recover 0 shs = Err.
Proof.
  unfold recover. destruct shs as [|s0 rest]; [reflexivity|]. destruct (forallb _ _); [|reflexivity].
  cbn [N.ltb]. destruct (N.of_nat _ <? 0)%N eqn:E; [reflexivity|]. reflexivity.
Qed.
Theorem recover_never_panics t shs : recover t shs <> Panic.
Proof.
  unfold recover. destruct shs as [|s0 rest]; [discriminate|]. destruct (forallb _ _); [|discriminate].
  destruct (_ <? _)%N; [discriminate|]. unfold interpolate. destruct (firstn _ _); discriminate.
Qed.

(* ---------- dealing ---------- *)
Section Dealing.
Variable St : Type.
Variable next64 : St -> St * N.
Notation draw_n := (draw_n St next64).
Notation deal_polys := (deal_polys St next64).

Lemma draw_n_len fuel : forall n s s' cs, draw_n fuel n s = (s', Some cs) -> length cs = n.
Proof.
  induction n as [|n IH]; intros s s' cs H; cbn [Shamir.draw_n] in H.
  - injection H as _ <-. reflexivity.
  - destruct (draw St next64 fuel s) as [s1 [c|]]; [|discriminate].
    destruct (draw_n fuel n s1) as [s2 [cs'|]] eqn:E; [|discriminate].
    injection H as _ <-. cbn [length]. f_equal. eapply IH. exact E.
Qed.
Lemma draw_n_app fuel : forall a b s s1 s2 ca cb,
  draw_n fuel a s = (s1, Some ca) -> draw_n fuel b s1 = (s2, Some cb) ->
  draw_n fuel (a + b) s = (s2, Some (ca ++ cb)).
Proof.
  induction a as [|a IH]; intros b s s1 s2 ca cb Ha Hb; cbn [Shamir.draw_n Nat.add] in *.
  - injection Ha as <- <-. exact Hb.
  - destruct (draw St next64 fuel s) as [s' [c|]]; [|discriminate].
    destruct (draw_n fuel a s') as [s'' [cs'|]] eqn:E; [|discriminate].
    injection Ha as <- <-. rewrite (IH b s' s'' s2 cs' cb E Hb). reflexivity.
Qed.

(* the polynomials dealt for the elements els: constant terms are the decoded elements, and the
   other coefficients are, in order, the first (length els)*(t-1) draws of the source *)
Theorem deal_polys_spec fuel (t : N) : forall els s s' polys,
  deal_polys fuel t els s = (s', Ok (Some polys)) ->
  decode_all els = Some (map (fun pl => last pl fzero) polys) /\
  Forall (fun pl => length pl = S (N.to_nat (t - 1))) polys /\
  length polys = length els /\
  draw_n fuel (length els * N.to_nat (t - 1)) s = (s', Some (concat (map (@removelast fp) polys))).
Proof.
  induction els as [|c rest IH]; intros s s' polys H; cbn [Shamir.deal_polys] in H.
  - injection H as <- <-. cbn. repeat split; constructor.
  - destruct (from_repr c) as [e|] eqn:Ec; [|discriminate].
    unfold random_polynomial in H.
    destruct (draw_n fuel (N.to_nat (t - 1)) s) as [s1 [cs|]] eqn:Ed; [|discriminate].
    destruct (deal_polys fuel t rest s1) as [s2 [[ps|]| |]] eqn:Er; try discriminate.
    injection H as <- <-.
    destruct (IH s1 s2 ps Er) as (Hdec & Hlen & Hcnt & Hdraw).
    cbn [decode_all map]. rewrite Ec, Hdec, last_last.
    repeat split.
    + constructor; [|exact Hlen]. rewrite app_length, (draw_n_len _ _ _ _ _ Ed). cbn [length]. lia.
    + cbn [length]. rewrite Hcnt. reflexivity.
    + cbn [length concat map]. rewrite removelast_last.
      apply (draw_n_app fuel (N.to_nat (t - 1)) (length rest * N.to_nat (t - 1)) s s1 s2 cs _ Ed Hdraw).
Qed.

Theorem deal_polys_refuses fuel (t : N) : forall els s,
  decode_all els = None ->
  snd (deal_polys fuel t els s) = Err \/ snd (deal_polys fuel t els s) = Ok None.
Proof.
  induction els as [|c rest IH]; intros s H; cbn [decode_all] in H; [discriminate|].
  cbn [Shamir.deal_polys]. destruct (from_repr c) as [e|] eqn:Ec; [|left; reflexivity].
  destruct (random_polynomial St next64 fuel e t s) as [s1 [poly|]]; [|right; reflexivity].
  destruct (decode_all rest) as [es|] eqn:Er; [discriminate|].
  destruct (IH s1 eq_refl) as [E|E]; destruct (deal_polys fuel t rest s1) as [s2 [[ps|]| |]];
    cbn [snd] in *; try discriminate; auto.
Qed.
Theorem deal_polys_accepts fuel (t : N) : forall els s es,
  decode_all els = Some es -> snd (deal_polys fuel t els s) <> Err /\ snd (deal_polys fuel t els s) <> Panic.
Proof.
  induction els as [|c rest IH]; intros s es H; cbn [decode_all] in H.
  - cbn. split; discriminate.
  - cbn [Shamir.deal_polys]. destruct (from_repr c) as [e|] eqn:Ec; [|discriminate].
    destruct (decode_all rest) as [es'|] eqn:Er; [|discriminate].
    destruct (random_polynomial St next64 fuel e t s) as [s1 [poly|]]; [|cbn; split; discriminate].
    destruct (IH s1 es' eq_refl) as [H1 H2].
    destruct (deal_polys fuel t rest s1) as [s2 [[ps|]| |]]; cbn [snd] in *; split; congruence.
Qed.

Theorem gen_point_nonzero fuel : forall n s s' x, gen_point St next64 fuel n s = (s', Some x) -> x <> fzero.
Proof.
  induction n as [|n IH]; intros s s' x H; cbn [gen_point] in H; [discriminate|].
  destruct (draw St next64 fuel s) as [s1 [y|]]; [|discriminate].
  destruct (feqb y fzero) eqn:E; [eapply IH; exact H|].
  injection H as _ <-. apply feqb_neq. exact E.
Qed.
End Dealing.

(* the iterator hands out the points 1, 2, 3, ... *)
Lemma eval_iter_nth polys : forall n x i, (i < n)%nat ->
  nth_error (eval_iter polys x n) i = Some (evaluate polys (fadd x (mkfp (Z.of_nat (S i))))).
Proof.
  induction n as [|n IH]; intros x i Hi; [lia|]. cbn [eval_iter].
  destruct i as [|i]; cbn [nth_error].
  - reflexivity.
  - rewrite IH by lia. do 2 f_equal.
    apply fp_eq. unfold fadd, fone. rewrite !val_mkfp.
    rewrite Zplus_mod_idemp_l, Zplus_mod_idemp_r, Zplus_mod_idemp_r.
    change (1 mod p)%Z with 1%Z. f_equal. lia.
Qed.
Lemma small_nonzero i : (0 < i < p)%Z -> mkfp i <> fzero.
Proof. intros H E. apply (f_equal val) in E. rewrite mkfp_small in E by lia. vm_compute in E. lia. Qed.
