From Coq Require Import ZArith Znumtheory List Lia.
Import ListNotations.
Open Scope Z_scope.

(* ---------- congruence helpers ---------- *)
Lemma pow_mod_one n x k : 1 < n -> 0 <= k -> x mod n = 1 -> x ^ k mod n = 1.
Proof.
  intros Hn Hk Hx. revert k Hk. apply natlike_ind.
  - rewrite Z.pow_0_r. apply Z.mod_1_l; lia.
  - intros k Hk IH. rewrite Z.pow_succ_r by lia.
    rewrite Z.mul_mod by lia. rewrite Hx, IH. rewrite Z.mul_1_l. apply Z.mod_1_l; lia.
Qed.

Lemma exists_prime_divisor : forall c, 1 < c -> exists q, prime q /\ (q | c).
Proof.
  intros c Hc. assert (H0 : 0 <= c) by lia. revert Hc.
  pattern c. apply Z_lt_induction; [|exact H0]. clear c H0.
  intros c IH Hc. destruct (prime_dec c) as [Hp|Hnp].
  - exists c. split; [exact Hp|apply Z.divide_refl].
  - destruct (not_prime_divide c Hc Hnp) as [d [Hd Hdiv]].
    destruct (IH d) as [q [Hq Hqd]]; [lia|lia|].
    exists q. split; [exact Hq|]. eapply Z.divide_trans; eauto.
Qed.

Section Lucas.
Variables (n a : Z) (fs : list Z).
Hypothesis Hn : 1 < n.
Hypothesis Hfs : forall q, prime q -> (q | n - 1) -> In q fs.
Hypothesis Hone : a ^ (n - 1) mod n = 1.
Hypothesis Hq : forall q, In q fs -> a ^ ((n - 1) / q) mod n <> 1.

Lemma no_small_order e : 0 < e < n - 1 -> a ^ e mod n <> 1.
Proof.
  intros He Hae.
  pose (g := Z.gcd e (n - 1)).
  assert (Hg0 : 0 < g).
  { pose proof (Z.gcd_nonneg e (n-1)) as Hnn.
    assert (Hne : Z.gcd e (n-1) <> 0). { intro H0. apply Z.gcd_eq_0_l in H0. lia. }
    unfold g. lia. }
  assert (Hge : (g | e)) by apply Z.gcd_divide_l.
  assert (Hgn : (g | n - 1)) by apply Z.gcd_divide_r.
  assert (Hgle : g <= e) by (apply Z.divide_pos_le; [lia|exact Hge]).
  (* Bezout *)
  destruct (Z.gcd_bezout e (n-1) g eq_refl) as [u0 [v0 Hb]].
  pose (k := Z.abs u0 + Z.abs v0 + 1).
  assert (Hk1 : 1 <= k) by (unfold k; lia).
  assert (Hku : - k < u0 < k) by (unfold k; lia).
  assert (Hkv : - k < v0 < k) by (unfold k; lia).
  clearbody k.
  pose (u := u0 + k * (n - 1)). pose (v := k * e - v0).
  assert (Hu : 0 <= u). { unfold u. assert (k * 1 <= k * (n-1)) by (apply Z.mul_le_mono_nonneg_l; lia). lia. }
  assert (Hv : 0 <= v). { unfold v. assert (k * 1 <= k * e) by (apply Z.mul_le_mono_nonneg_l; lia). lia. }
  assert (Huv : u * e = g + v * (n - 1)). { unfold u, v. rewrite <- Hb. ring. }
  assert (Hvn : 0 <= v * (n - 1)) by (apply Z.mul_nonneg_nonneg; lia).
  assert (Hag : a ^ g mod n = 1).
  { assert (H1 : a ^ (u * e) mod n = 1).
    { rewrite Z.mul_comm, Z.pow_mul_r by lia. apply pow_mod_one; [lia|lia|exact Hae]. }
    rewrite Huv in H1. rewrite Z.pow_add_r in H1 by lia.
    rewrite Z.mul_mod in H1 by lia.
    assert (H2 : a ^ (v * (n - 1)) mod n = 1).
    { rewrite Z.mul_comm, Z.pow_mul_r by lia. apply pow_mod_one; [lia|lia|exact Hone]. }
    rewrite H2, Z.mul_1_r, Z.mod_mod in H1 by lia. exact H1. }
  destruct Hgn as [c Hc].
  assert (Hc1 : 1 < c). { destruct (Z.le_gt_cases c 1) as [Hle|Hgt]; [|lia]. assert (c * g <= 1 * g) by (apply Z.mul_le_mono_nonneg_r; lia). lia. }
  destruct (exists_prime_divisor c Hc1) as [q [Hpq [c' Hc']]].
  assert (Hq0 : 1 < q) by (destruct Hpq; lia).
  assert (Hc'0 : 0 <= c'). { destruct (Z.le_gt_cases 0 c') as [Hle|Hgt]; [exact Hle|]. assert (c' * q <= 0) by (apply Z.mul_nonpos_nonneg; lia). lia. }
  assert (Hqn : (q | n - 1)). { exists (c' * g). rewrite Hc, Hc'. ring. }
  apply (Hq q (Hfs q Hpq Hqn)).
  replace ((n - 1) / q) with (g * c').
  2:{ rewrite Hc, Hc'. replace (c' * q * g) with (g * c' * q) by ring. rewrite Z.div_mul; lia. }
  rewrite Z.pow_mul_r by lia. apply pow_mod_one; [lia|lia|exact Hag].
Qed.

Lemma pow_nonzero i : 0 <= i <= n - 1 -> a ^ i mod n <> 0.
Proof.
  intros Hi H0.
  assert (H1 : a ^ (n - 1) mod n = 0).
  { replace (n - 1) with (i + (n - 1 - i)) by lia. rewrite Z.pow_add_r by lia.
    rewrite Z.mul_mod by lia. rewrite H0. rewrite Z.mul_0_l. apply Z.mod_0_l. lia. }
  rewrite Hone in H1. lia.
Qed.

Lemma pow_inj i j : 0 <= i < j -> j < n - 1 -> a ^ i mod n <> a ^ j mod n.
Proof.
  intros Hij Hj Heq.
  apply (no_small_order (j - i)); [lia|].
  (* multiply by a^(n-1-i) *)
  assert (H1 : (a ^ i * a ^ (n - 1 - i)) mod n = (a ^ j * a ^ (n - 1 - i)) mod n).
  { rewrite Z.mul_mod by lia. rewrite Heq. rewrite <- Z.mul_mod by lia. reflexivity. }
  rewrite <- !Z.pow_add_r in H1 by lia.
  replace (i + (n - 1 - i)) with (n - 1) in H1 by lia.
  replace (j + (n - 1 - i)) with ((n - 1) + (j - i)) in H1 by lia.
  rewrite Z.pow_add_r in H1 by lia. rewrite Hone in H1.
  rewrite Z.mul_mod, Hone, Z.mul_1_l, Z.mod_mod in H1 by lia. symmetry. exact H1.
Qed.

Definition N := Z.to_nat (n - 1).
Definition f (i : nat) : Z := a ^ (Z.of_nat i) mod n.

Lemma NoDup_map_seq (h : nat -> Z) : forall len s,
  (forall i j, (s <= i < j)%nat -> (j < s + len)%nat -> h i <> h j) ->
  NoDup (map h (seq s len)).
Proof.
  induction len as [|len IH]; intros s Hinj; cbn [seq map]; constructor.
  - intro Hin. apply in_map_iff in Hin. destruct Hin as [j [Hj Hjin]].
    apply in_seq in Hjin. apply (Hinj s j); [lia|lia|congruence].
  - apply IH. intros i j Hi Hj. apply Hinj; lia.
Qed.

Lemma all_units k : 1 <= k < n -> exists i, 0 <= i <= n - 1 /\ k = a ^ i mod n.
Proof.
  intros Hk.
  pose (l := map f (seq 0 N)). pose (l' := map Z.of_nat (seq 1 N)).
  assert (Hnd : NoDup l).
  { apply NoDup_map_seq. intros i j Hi Hj. unfold f. apply pow_inj; unfold N in *; lia. }
  assert (Hincl : incl l l').
  { intros x Hx. apply in_map_iff in Hx. destruct Hx as [i [Hfi Hi]]. apply in_seq in Hi.
    apply in_map_iff. exists (Z.to_nat x). 
    assert (0 <= x < n) by (subst x; apply Z.mod_pos_bound; lia).
    assert (x <> 0). { subst x. apply pow_nonzero. unfold N in *. lia. }
    split; [lia|]. apply in_seq. unfold N in *. lia. }
  assert (Hlen : (length l' <= length l)%nat).
  { unfold l, l'. rewrite !map_length, !seq_length. lia. }
  pose proof (NoDup_length_incl Hnd Hlen Hincl) as Hsur.
  assert (Hkin : In k l').
  { apply in_map_iff. exists (Z.to_nat k). split; [lia|]. apply in_seq. unfold N. lia. }
  apply Hsur in Hkin. apply in_map_iff in Hkin. destruct Hkin as [i [Hfi Hi]]. apply in_seq in Hi.
  exists (Z.of_nat i). split; [unfold N in *; lia|]. symmetry. exact Hfi.
Qed.

Theorem lucas : prime n.
Proof.
  apply prime_intro; [exact Hn|].
  intros k Hk. destruct (all_units k Hk) as [i [Hi Hki]].
  (* k * a^(n-1-i) = 1 mod n *)
  assert (H1 : (k * a ^ (n - 1 - i)) mod n = 1).
  { rewrite Hki. rewrite Z.mul_mod_idemp_l by lia. rewrite <- Z.pow_add_r by lia.
    replace (i + (n - 1 - i)) with (n - 1) by lia. exact Hone. }
  apply bezout_rel_prime.
  pose proof (Z.div_mod (k * a ^ (n - 1 - i)) n ltac:(lia)) as Hdm. rewrite H1 in Hdm.
  apply Bezout_intro with (u := a ^ (n - 1 - i)) (v := - ((k * a ^ (n - 1 - i)) / n)). lia.
Qed.
End Lucas.

