(* Fp is a field; inversion, exponentiation, Fermat; decidable equality. *)
From Coq Require Import ZArith Znumtheory Zpow_facts Bool List Lia Eqdep_dec Ring Field.
Import ListNotations.
From StarV Require Import Params Bytes Fp Lucas Primality.
Open Scope Z_scope.

Lemma fp_eq (a b : fp) : val a = val b -> a = b.
Proof.
  destruct a as [x Hx], b as [y Hy]. cbn [val proj1_sig]. intros E. subst y.
  f_equal. apply UIP_dec. apply bool_dec.
Qed.
Lemma val_mkfp z : val (mkfp z) = z mod p.
Proof. reflexivity. Qed.
Lemma val_range (a : fp) : 0 <= val a < p.
Proof.
  destruct a as [x Hx]. cbn [val proj1_sig]. unfold inb in Hx.
  apply andb_prop in Hx. destruct Hx as [H1 H2]. apply Z.leb_le in H1. apply Z.ltb_lt in H2. lia.
Qed.
Lemma mkfp_val (a : fp) : mkfp (val a) = a.
Proof. apply fp_eq. rewrite val_mkfp. apply Z.mod_small. apply val_range. Qed.
Lemma mkfp_small z : 0 <= z < p -> val (mkfp z) = z.
Proof. intros H. rewrite val_mkfp. apply Z.mod_small. exact H. Qed.
Lemma mkfp_mod z : mkfp (z mod p) = mkfp z.
Proof. apply fp_eq. rewrite !val_mkfp. apply Z.mod_mod. pose proof p_pos. lia. Qed.
Lemma mkfp_eq_iff a b : mkfp a = mkfp b <-> a mod p = b mod p.
Proof.
  split; intros H.
  - apply (f_equal val) in H. rewrite !val_mkfp in H. exact H.
  - apply fp_eq. rewrite !val_mkfp. exact H.
Qed.

Lemma feqb_eq a b : feqb a b = true <-> a = b.
Proof.
  unfold feqb. rewrite Z.eqb_eq. split; [apply fp_eq|intros ->; reflexivity].
Qed.
Lemma feqb_refl a : feqb a a = true.
Proof. apply feqb_eq. reflexivity. Qed.
Lemma feqb_neq a b : feqb a b = false <-> a <> b.
Proof.
  split.
  - intros H E. apply feqb_eq in E. congruence.
  - intros H. destruct (feqb a b) eqn:E; [apply feqb_eq in E; contradiction|reflexivity].
Qed.
Definition fp_eq_dec (a b : fp) : {a = b} + {a <> b}.
Proof.
  destruct (feqb a b) eqn:E; [left; apply feqb_eq; exact E|right; apply feqb_neq; exact E].
Defined.

Lemma p_gt_1 : 1 < p. Proof. reflexivity. Qed.
Lemma p_ne_0 : p <> 0. Proof. pose proof p_pos. lia. Qed.

Ltac fp_norm :=
  apply fp_eq; unfold fadd, fsub, fmul, fopp, fone, fzero; rewrite ?val_mkfp;
  repeat (rewrite ?Zplus_mod_idemp_l, ?Zplus_mod_idemp_r, ?Zminus_mod_idemp_l, ?Zminus_mod_idemp_r,
          ?Zmult_mod_idemp_l, ?Zmult_mod_idemp_r).

Lemma fp_ring : ring_theory fzero fone fadd fmul fsub fopp (@eq fp).
Proof.
  constructor.
  - intros x. fp_norm. cbn [Z.add]. apply Z.mod_small. apply val_range.
  - intros x y. fp_norm. f_equal. ring.
  - intros x y z. fp_norm. f_equal. ring.
  - intros x. fp_norm. rewrite Z.mul_1_l. apply Z.mod_small. apply val_range.
  - intros x y. fp_norm. f_equal. ring.
  - intros x y z. fp_norm. f_equal. ring.
  - intros x y z. fp_norm. try reflexivity; try (f_equal; ring).
  - intros x y. fp_norm. try reflexivity; try (f_equal; ring).
  - intros x. fp_norm. replace (val x + - val x) with 0 by ring. reflexivity.
Qed.

(* ---------- Fermat's little theorem for p, from the generator 2 ---------- *)
Definition q0 : Z := 170141183460469231731687303715884111953.

Lemma prime_factors_p1 : forall q, prime q -> (q | p - 1) -> In q [2; q0].
Proof.
  intros q Hq Hd. rewrite p_minus_1 in Hd. fold q0 in Hd.
  apply prime_mult in Hd; [|exact Hq]. destruct Hd as [Hd|Hd].
  - left. symmetry. apply prime_div_prime; [exact Hq|exact prime_2|exact Hd].
  - right. left. symmetry. apply prime_div_prime; [exact Hq|exact cq_prime|exact Hd].
Qed.
Lemma two_pow_p1 : 2 ^ (p - 1) mod p = 1.
Proof. rewrite <- powmod_spec by (vm_compute; intuition congruence). vm_compute. reflexivity. Qed.
Lemma two_order : forall q, In q [2; q0] -> 2 ^ ((p - 1) / q) mod p <> 1.
Proof.
  intros q [H|[H|[]]]; subst q.
  - rewrite <- powmod_spec by (vm_compute; intuition congruence). vm_compute. congruence.
  - rewrite <- powmod_spec by (vm_compute; intuition congruence). vm_compute. congruence.
Qed.

Theorem fermat k : 1 <= k < p -> k ^ (p - 1) mod p = 1.
Proof.
  intros Hk.
  destruct (all_units p 2 [2; q0] p_gt_1 prime_factors_p1 two_pow_p1 two_order k Hk) as [i [Hi Hki]].
  rewrite Hki. rewrite <- Zpower_mod by apply p_pos.
  rewrite <- Z.pow_mul_r by lia. rewrite Z.mul_comm. rewrite Z.pow_mul_r by lia.
  apply pow_mod_one; [apply p_gt_1|lia|apply two_pow_p1].
Qed.

(* ---------- inversion ---------- *)
Lemma egcd_inv a : forall fuel r0 r1 s0 s1 u,
  (p | r0 - s0 * a) -> (p | r1 - s1 * a) ->
  egcd fuel r0 r1 s0 s1 = Some u -> (u * a) mod p = 1.
Proof.
  induction fuel as [|f IH]; intros r0 r1 s0 s1 u H0 H1 E; cbn [egcd] in E; [discriminate|].
  destruct (r1 =? 0) eqn:E1.
  - destruct (r0 =? 1) eqn:E0; [|discriminate]. inversion E; subst u. apply Z.eqb_eq in E0. subst r0.
    destruct H0 as [k Hk].
    assert (Hs : s0 * a = 1 + (- k) * p) by lia.
    rewrite Hs. rewrite Z_mod_plus_full. apply Z.mod_1_l. apply p_gt_1.
  - apply (IH r1 (r0 - r0 / r1 * r1) s1 (s0 - r0 / r1 * s1) u); [exact H1| |exact E].
    destruct H0 as [k0 Hk0]. destruct H1 as [k1 Hk1].
    exists (k0 - r0 / r1 * k1).
    replace (r0 - r0 / r1 * r1 - (s0 - r0 / r1 * s1) * a) with ((r0 - s0 * a) - r0 / r1 * (r1 - s1 * a)) by ring.
    rewrite Hk0, Hk1. ring.
Qed.

Lemma powmod_p a e : 0 <= e -> powmod a e p = a ^ e mod p.
Proof. intros He. apply powmod_spec; [apply p_gt_1|exact He]. Qed.

Lemma zinv_spec a : a mod p <> 0 -> (zinv a * a) mod p = 1.
Proof.
  intros Ha. unfold zinv. destruct (egcd 400 p a 0 1) as [u|] eqn:E.
  - rewrite Zmult_mod_idemp_l. apply (egcd_inv a 400 p a 0 1 u); [exists 1; ring|exists 0; ring|exact E].
  - rewrite powmod_p by (vm_compute; congruence).
    rewrite Zmult_mod_idemp_l. rewrite <- (Z.pow_1_r a) at 2. rewrite <- Z.pow_add_r by (vm_compute; congruence).
    replace (p - 2 + 1) with (p - 1) by ring.
    rewrite Zpower_mod by apply p_pos. apply fermat.
    pose proof (Z.mod_pos_bound a p p_pos). lia.
Qed.

Lemma finv_l a : a <> fzero -> fmul (finv a) a = fone.
Proof.
  intros Ha. apply fp_eq. unfold fmul, finv, fone. rewrite !val_mkfp.
  rewrite Zmult_mod_idemp_l. rewrite zinv_spec; [reflexivity|].
  intro H0. apply Ha. apply fp_eq. unfold fzero. rewrite val_mkfp.
  rewrite Z.mod_small in H0 by apply val_range. rewrite H0. reflexivity.
Qed.

Lemma fone_neq_fzero : fone <> fzero.
Proof. intro H. apply (f_equal val) in H. vm_compute in H. discriminate. Qed.

Lemma fp_field : field_theory fzero fone fadd fmul fsub fopp fdiv finv (@eq fp).
Proof.
  constructor.
  - exact fp_ring.
  - exact fone_neq_fzero.
  - intros x y. reflexivity.
  - intros x Hx. apply finv_l. exact Hx.
Qed.

(* exponentiation *)
Lemma fpow_val a e : 0 <= e -> val (fpow a e) = val a ^ e mod p.
Proof.
  intros He. unfold fpow. rewrite val_mkfp, powmod_p by exact He. apply Z.mod_mod. apply p_ne_0.
Qed.

(* ---------- pow, sqrt ---------- *)
Lemma fmul_val a b : val (fmul a b) = (val a * val b) mod p.
Proof. reflexivity. Qed.
Lemma fpow_add a e1 e2 : 0 <= e1 -> 0 <= e2 -> fpow a (e1 + e2) = fmul (fpow a e1) (fpow a e2).
Proof.
  intros H1 H2. apply fp_eq. rewrite fmul_val, !fpow_val by lia.
  rewrite Z.pow_add_r by lia. rewrite <- Z.mul_mod by apply p_ne_0. reflexivity.
Qed.
Lemma fpow_0 a : fpow a 0 = fone.
Proof. apply fp_eq. rewrite fpow_val by lia. reflexivity. Qed.
Lemma fpow_1 a : fpow a 1 = a.
Proof. apply fp_eq. rewrite fpow_val by lia. rewrite Z.pow_1_r. apply Z.mod_small. apply val_range. Qed.
Lemma fpow_2 a : fpow a 2 = fmul a a.
Proof. change 2 with (1 + 1). rewrite fpow_add by lia. rewrite fpow_1. reflexivity. Qed.
Lemma fpow_mul a e1 e2 : 0 <= e1 -> 0 <= e2 -> fpow a (e1 * e2) = fpow (fpow a e1) e2.
Proof.
  intros H1 H2. apply fp_eq. rewrite !fpow_val by (try apply Z.mul_nonneg_nonneg; lia).
  rewrite Z.pow_mul_r by lia. rewrite <- Zpower_mod by apply p_pos. reflexivity.
Qed.

Lemma fermat_fp a : a <> fzero -> fpow a (p - 1) = fone.
Proof.
  intros Ha. apply fp_eq. rewrite fpow_val by (vm_compute; congruence).
  rewrite fermat; [reflexivity|]. pose proof (val_range a).
  assert (val a <> 0). { intro H0. apply Ha. apply fp_eq. rewrite H0. reflexivity. }
  lia.
Qed.

Lemma fsqrt_sound a r : fsqrt a = Some r -> fmul r r = a.
Proof.
  unfold fsqrt. destruct (feqb (fmul (fpow a ((p + 1) / 4)) (fpow a ((p + 1) / 4))) a) eqn:E; [|discriminate].
  intros H. injection H as <-. apply feqb_eq. exact E.
Qed.
Lemma fsqrt_complete b : exists r, fsqrt (fmul b b) = Some r.
Proof.
  unfold fsqrt. set (a := fmul b b). set (r := fpow a ((p + 1) / 4)).
  assert (Hr : fmul r r = a).
  { destruct (fp_eq_dec b fzero) as [Hb|Hb].
    - subst b. unfold r, a. apply fp_eq. vm_compute. reflexivity.
    - unfold r, a. rewrite <- (fpow_2 b).
      rewrite <- (fpow_mul b 2 ((p + 1) / 4)) by (vm_compute; congruence).
      rewrite <- fpow_add by (vm_compute; congruence).
      replace (2 * ((p + 1) / 4) + 2 * ((p + 1) / 4)) with ((p - 1) + 2) by (vm_compute; reflexivity).
      rewrite fpow_add by (vm_compute; congruence). rewrite fermat_fp by exact Hb.
      destruct fp_ring. rewrite Rmul_1_l. reflexivity. }
  rewrite Hr, feqb_refl. exists r. reflexivity.
Qed.

(* ---------- ff_derive `random`: the limbs are the Montgomery form ---------- *)
Lemma mont_rinv_spec : (mont_rinv * (2 ^ 192)) mod p = 1.
Proof. vm_compute. reflexivity. Qed.
Lemma fp_of_limbs_spec a b c x : fp_of_limbs a b c = Some x ->
  let v := Z.of_N a + 2 ^ 64 * Z.of_N b + 2 ^ 128 * Z.of_N (N.land c 1) in
  v < p /\ (val x * 2 ^ 192) mod p = v.
Proof.
  unfold fp_of_limbs. cbv zeta.
  set (v := Z.of_N (a + 18446744073709551616 * b + 340282366920938463463374607431768211456 * N.land c 1)).
  destruct (v <? p) eqn:E; [|discriminate]. apply Z.ltb_lt in E. intros H. injection H as <-.
  assert (Hv : v = Z.of_N a + 2 ^ 64 * Z.of_N b + 2 ^ 128 * Z.of_N (N.land c 1)).
  { unfold v. rewrite !N2Z.inj_add, !N2Z.inj_mul. reflexivity. }
  rewrite <- Hv. split; [exact E|].
  rewrite val_mkfp, Zmult_mod_idemp_l, <- Z.mul_assoc, <- Zmult_mod_idemp_r, mont_rinv_spec, Z.mul_1_r.
  apply Z.mod_small. unfold v. lia.
Qed.

(* ---------- the published constants ---------- *)
Lemma two_inv_spec : fmul (mkfp 2) f_two_inv = fone.
Proof. apply fp_eq. vm_compute. reflexivity. Qed.
Lemma f_S_spec : f_S = 1 /\ f_num_bits = 129 /\ f_capacity = 128.
Proof. vm_compute. repeat split. Qed.
(* the declared generator generates the whole multiplicative group: no smaller exponent gives 1 *)
Lemma gen_pow_p1 : Params.generator ^ (p - 1) mod p = 1.
Proof. rewrite <- powmod_spec by (vm_compute; intuition congruence). vm_compute. reflexivity. Qed.
Lemma gen_order : forall q, In q [2; q0] -> Params.generator ^ ((p - 1) / q) mod p <> 1.
Proof.
  intros q [H|[H|[]]]; subst q.
  - rewrite <- powmod_spec by (vm_compute; intuition congruence). vm_compute. congruence.
  - rewrite <- powmod_spec by (vm_compute; intuition congruence). vm_compute. congruence.
Qed.
Theorem generator_order e : 0 < e < p - 1 -> Params.generator ^ e mod p <> 1.
Proof. apply (no_small_order p Params.generator [2; q0] p_gt_1 prime_factors_p1 gen_pow_p1 gen_order). Qed.
Theorem generator_generates k : 1 <= k < p -> exists i, 0 <= i <= p - 1 /\ k = Params.generator ^ i mod p.
Proof. apply (all_units p Params.generator [2; q0] p_gt_1 prime_factors_p1 gen_pow_p1 gen_order). Qed.
Lemma rou_spec : f_rou <> fone /\ fmul f_rou f_rou = fone /\ fmul f_rou f_rou_inv = fone /\ f_rou = fopp fone.
Proof.
  repeat split; try (apply fp_eq; vm_compute; reflexivity).
  intro H. apply (f_equal val) in H. vm_compute in H. discriminate.
Qed.
Lemma delta_spec : f_delta = fmul f_gen f_gen.
Proof. apply fp_eq. vm_compute. reflexivity. Qed.
Lemma generator_nonresidue : forall b, fmul b b <> f_gen.
Proof.
  intros b Hb. 
  assert (Hb0 : b <> fzero).
  { intro E. subst b. apply (f_equal val) in Hb. vm_compute in Hb. discriminate. }
  (* g^((p-1)/2) = b^(p-1) = 1, contradicting the order of g *)
  apply (generator_order ((p - 1) / 2)); [vm_compute; intuition congruence|].
  pose proof (fermat_fp b Hb0) as Hf.
  replace (p - 1) with (2 * ((p - 1) / 2)) in Hf by (vm_compute; reflexivity).
  rewrite fpow_mul in Hf by (vm_compute; congruence). rewrite fpow_2, Hb in Hf.
  apply (f_equal val) in Hf. rewrite fpow_val in Hf by (vm_compute; congruence).
  unfold f_gen in Hf. rewrite val_mkfp in Hf. rewrite <- Zpower_mod in Hf by apply p_pos. exact Hf.
Qed.
