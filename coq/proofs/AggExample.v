(* A concrete instance of the premises of the aggregation theorems (two measurements, threshold 2; the first reported
   by two clients, the second by one), proved by computation piece by piece. *)
From Coq Require Import ZArith NArith List Permutation Lia Bool.
Import ListNotations.
From StarV Require Import Params Bytes Keccak Strobe Fp Shamir Adss Star Wasm FieldFacts AdssFacts CodecFacts StarFacts WasmFacts AggPerm.
Definition KF := keccak_bytes.
Definition ex_e : bytes := [116]%N.
Definition ex_polys (m : bytes) : list (list fp) :=
  match polys_from KF 2 (sharing_of KF (commune_of KF 2 (sample_local KF m ex_e 2))) with Ok (Some p) => p | _ => [] end.
Definition ex_g (m : bytes) : gspec := {| gm := m; grnd := sample_local KF m ex_e 2; gpolys := ex_polys m |}.
Definition ex_items : list item :=
  [(ex_g [104; 105]%N, (None, mkfp 3)); (ex_g [98]%N, (Some [1; 2]%N, mkfp 9)); (ex_g [104; 105]%N, (Some [7]%N, mkfp 4))].

Lemma ex_polys_ok m :
  (match polys_from KF 2 (sharing_of KF (commune_of KF 2 (sample_local KF m ex_e 2))) with Ok (Some _) => true | _ => false end) = true ->
  polys_from KF 2 (sharing_of KF (commune_of KF 2 (grnd (ex_g m)))) = Ok (Some (gpolys (ex_g m))).
Proof.
  intros H. unfold ex_g, gpolys, grnd, ex_polys.
  destruct (polys_from KF 2 (sharing_of KF (commune_of KF 2 (sample_local KF m ex_e 2)))) as [[p|]| |]; try discriminate H. reflexivity.
Qed.
Lemma ex_p1 : polys_from KF 2 (sharing_of KF (commune_of KF 2 (grnd (ex_g [104; 105]%N)))) = Ok (Some (gpolys (ex_g [104; 105]%N))).
Proof. apply ex_polys_ok. vm_compute. reflexivity. Qed.
Lemma ex_p2 : polys_from KF 2 (sharing_of KF (commune_of KF 2 (grnd (ex_g [98]%N)))) = Ok (Some (gpolys (ex_g [98]%N))).
Proof. apply ex_polys_ok. vm_compute. reflexivity. Qed.
Lemma ex_tags_differ : bytes_eqb (r2 KF (sample_local KF [104; 105]%N ex_e 2)) (r2 KF (sample_local KF [98]%N ex_e 2)) = false.
Proof. vm_compute. reflexivity. Qed.


Ltac fits := unfold fits32; vm_compute; reflexivity.
Lemma ex_h1 : Forall (fun it : item => fits32 (gm (fst it)) /\ client_ok (gm (fst it)) (snd it) /\
                    polys_from KF 2 (sharing_of KF (commune_of KF 2 (grnd (fst it)))) = Ok (Some (gpolys (fst it)))) ex_items.
Proof.
  unfold ex_items. apply Forall_cons; [|apply Forall_cons; [|apply Forall_cons; [|apply Forall_nil]]]; cbn [fst snd].
  - split; [cbn [gm ex_g]; fits|split; [|exact ex_p1]]. unfold client_ok. cbn [fst snd gm ex_g]. split; [fits|exact I].
  - split; [cbn [gm ex_g]; fits|split; [|exact ex_p2]]. unfold client_ok. cbn [fst snd gm ex_g]. split; [fits|fits].
  - split; [cbn [gm ex_g]; fits|split; [|exact ex_p1]]. unfold client_ok. cbn [fst snd gm ex_g]. split; [fits|fits].
Qed.
Lemma ex_fst a : In a ex_items -> fst a = ex_g [104; 105]%N \/ fst a = ex_g [98]%N.
Proof. unfold ex_items; cbn [In]; intros [<-|[<-|[<-|[]]]]; cbn [fst]; [left|right|left]; exact eq_refl. Qed.
Lemma ex_h2 : forall a b, In a ex_items -> In b ex_items -> itag KF a = itag KF b -> fst a = fst b.
Proof.
  intros a b Ha Hb H. unfold itag in H. pose proof ex_tags_differ as D.
  destruct (ex_fst a Ha) as [Ea|Ea]; destruct (ex_fst b Hb) as [Eb|Eb]; rewrite Ea, Eb in H |- *.
  - exact eq_refl.
  - exfalso. cbn [grnd ex_g] in H. rewrite H in D. rewrite bytes_eqb_refl in D. discriminate D.
  - exfalso. cbn [grnd ex_g] in H. rewrite <- H in D. rewrite bytes_eqb_refl in D. discriminate D.
  - exact eq_refl.
Qed.
Lemma ex_h3 : forall T, qualifies KF 2 ex_items T = true ->
     (2 <= N.of_nat (length (nodup fp_eq_dec (map snd (clients_of KF ex_items T)))))%N.
Proof.
  intros T HT. unfold qualifies, clients_of, ex_items in *. cbn [filter] in *.
  unfold itag in *. cbn [fst grnd ex_g] in *.
  destruct (bytes_eqb (r2 KF (sample_local KF [104; 105]%N ex_e 2)) T) eqn:E1;
  destruct (bytes_eqb (r2 KF (sample_local KF [98]%N ex_e 2)) T) eqn:E2; cbn [map snd length filter] in *.
  + apply bytes_eqb_eq in E1. apply bytes_eqb_eq in E2. pose proof ex_tags_differ as D. rewrite E1, <- E2 in D.
    rewrite bytes_eqb_refl in D. discriminate D.
  + vm_compute. discriminate.
  + vm_compute in HT. discriminate HT.
  + vm_compute in HT. discriminate HT.
Qed.
Lemma agg_nonvacuous : honest_items KF 2 ex_items /\
  exists o, aggregate KF 2 ex_e (map (imsg KF ex_e 2) ex_items) = Ok o /\ length o = 1%nat.
Proof. split; [exact (conj ex_h1 (conj ex_h2 ex_h3))|]. eexists. split; [vm_compute; reflexivity|reflexivity]. Qed.
