(* C12  PPOPRF output depends only on (server key, tag, input), never on the blinding.
   Over ANY group given by operations on encodings satisfying GrpLaws (prime order, an explicit premise;
   ristretto255 is assumed to satisfy it).  Freshness of the blinding scalars is OS randomness: measured. *)
From Coq Require Import ZArith NArith List.
Import ListNotations.
From Coq Require Import Znumtheory.
From StarV Require Import Params Bytes Strobe Ggm Ppoprf EllPrime PpFacts SrvFacts.
Open Scope Z_scope.

(* unblinding an evaluation of the blinded point gives the evaluation of the unblinded point, for every
   invertible blinding scalar r and every exponent e (= inverse of the tagged key) *)
Theorem C12_unblind : forall (G : grp), GrpLaws G -> forall (e r : Z) (h : bytes),
  g_valid G h = true -> r mod ell <> 0 ->
  client_unblind G (g_mul G e (g_mul G r h)) r = Ok (g_mul G e h).
Proof. intros G L e r h Hh Hr. exact (unblind_eval G L e r h Hh (sc_inv_spec r Hr)). Qed.

(* the scalar field: the group order the model uses is prime (Pratt certificate), and the model's inversion
   is the field inverse *)
Theorem C12_ell_prime : prime ell.
Proof. exact ell_prime. Qed.
Theorem C12_scalar_inverse : forall a : Z, a mod ell <> 0 -> (sc_inv a * a) mod ell = 1.
Proof. exact sc_inv_spec. Qed.

(* what the server returns is exactly exponent * point with exponent = 1 / (key + PRF(tag)), whatever the
   history of the instance, as long as the tag is registered and unpunctured (C14_eval) *)
Theorem C12_server_exponent : forall (F : list N -> list N) (G : grp) (s0 : server) (seed0 seed1 : bytes)
  (h : list N) (p : bytes) (md : N) (r : Z),
  sv_ggm s0 = ginit bytes seed0 seed1 -> g_valid G p = true ->
  pk_get (pk_md (sv_pk s0)) md <> None -> ~ In (md_bits md) (map md_bits h) ->
  server_eval F G (after F s0 h) p md false r =
    inr (g_mul G (sc_inv (sc_add (sv_key s0) (sc_of_bytes (tag_value F s0 seed0 seed1 md)))) p, None).
Proof.
  intros F G s0 seed0 seed1 h p md r Hg Hp Hreg Hnp.
  rewrite (eval_after F G s0 seed0 seed1 h p md false r Hg). rewrite Hp. cbn [negb].
  destruct (pk_get (pk_md (sv_pk s0)) md); [|congruence].
  destruct (GgmFacts.in_dec_bits (md_bits md) (map md_bits h)); [contradiction|reflexivity].
Qed.

(* a blinded request equals the unblinded input point only for the scalar 1 *)
Theorem C12_blind_hides : forall (G : grp), GrpLaws G -> forall (r : Z) (h : bytes),
  g_valid G h = true -> h <> g_id G -> (g_mul G r h = h <-> r mod ell = 1).
Proof. exact blind_is_identity_iff. Qed.

(* outputs differ between tags / servers exactly when the exponents differ *)
Theorem C12_exponent_sensitive : forall (G : grp), GrpLaws G -> forall (e e' : Z) (p : bytes),
  g_valid G p = true -> p <> g_id G -> g_mul G e p = g_mul G e' p -> e mod ell = e' mod ell.
Proof. exact eval_exponent_injective. Qed.

(* the finalised output is a hash of (input, tag, unblinded point): same triple, same output *)
Theorem C12_finalize : forall (F : list N -> list N) (input : bytes) (md : N) (u : bytes),
  client_finalize F input md u = firstn Params.pp_finalize_len (strobe_hash F (input ++ [md] ++ u) Params.lbl_pp_finalize).
Proof. reflexivity. Qed.



(* every request for a tag is answered alike whatever OTHER tags were punctured in between (the punctured tag's own
   requests are refused, C14): the answer, hence the client's unblinded point and finalised output, does not depend
   on the puncture history *)
From StarV Require Import SrvInv.
Theorem C12_history_independent : forall (F : list N -> list N) (G : grp) (s0 : server) (seed0 seed1 : bytes) (h : list N)
  (p : bytes) (md : N) (v : bool) (r : Z),
  sv_ggm s0 = ginit bytes seed0 seed1 -> ~ In (md_bits md) (map md_bits h) ->
  server_eval F G (after F s0 h) p md v r = server_eval F G s0 p md v r.
Proof. exact eval_history_independent. Qed.
