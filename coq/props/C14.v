(* C14  Randomness server answers iff tag registered and unpunctured, under any history.  Statements only. *)
From Coq Require Import ZArith NArith List.
Import ListNotations.
From StarV Require Import Params Bytes Keccak Strobe Ggm Ppoprf Scenario GgmFacts SrvFacts.

(* every history over {evaluate, puncture, clone, export+import} on a family of instances: each instance is
   the creation state with the punctures of its own lineage applied (clones and imports copy the lineage) *)
Theorem C14_instances : forall (G : grp) (s0 : server) (ops : list sop) (ls : list (list N)),
  fst (srv_run G (map (after keccak_bytes s0) ls) ops) = map (after keccak_bytes s0) (lineages ls ops).
Proof. intros G s0. exact (run_lineages keccak_bytes G eq_refl s0). Qed.

(* key, public key and PRG keys never change; the GGM key is the fold of the lineage's punctures *)
Theorem C14_constant_fields : forall (F : list N -> list N) (s0 : server) (h : list N),
  sv_key (after F s0 h) = sv_key s0 /\ sv_pk (after F s0 h) = sv_pk s0 /\
  sv_k0 (after F s0 h) = sv_k0 s0 /\ sv_k1 (after F s0 h) = sv_k1 s0 /\
  sv_ggm (after F s0 h) = fold_left (step bytes (strobe_prg F (sv_k0 s0) (sv_k1 s0))) (map md_bits h) (sv_ggm s0).
Proof. exact after_fields. Qed.

(* the answer of an instance with lineage h: an error for undecodable points, unregistered tags and tags
   punctured in h; otherwise always the same point (and a proof when asked), independent of h *)
Theorem C14_eval : forall (F : list N -> list N) (G : grp) (s0 : server) (seed0 seed1 : bytes) (h : list N)
  (p : bytes) (md : N) (v : bool) (r : Z),
  sv_ggm s0 = ginit bytes seed0 seed1 ->
  server_eval F G (after F s0 h) p md v r =
    if negb (g_valid G p) then inl BadPointEncoding
    else match pk_get (pk_md (sv_pk s0)) md with
         | None => inl BadTag
         | Some _ =>
             if in_dec_bits (md_bits md) (map md_bits h) then inl PNoPrefixFound
             else
               let tk := sc_add (sv_key s0) (sc_of_bytes (tag_value F s0 seed0 seed1 md)) in
               let ep := g_mul G (sc_inv tk) p in
               if v then match combined_pk G (sv_pk s0) md with
                         | inl e => inl e
                         | inr pv => inr (ep, Some (new_batch F G tk pv [ep] [p] r))
                         end
               else inr (ep, None)
         end.
Proof. exact eval_after. Qed.

(* puncturing one tag never affects another: tags are told apart by their bit strings *)
Theorem C14_tags_distinct : forall a b : N, (a < 256)%N -> (b < 256)%N -> md_bits a = md_bits b -> a = b.
Proof. exact md_bits_inj. Qed.

(* export + import: reading the exported bytes back gives exactly the exporter's state (key, public key, PRG keys,
   retained prefixes with seeds, punctured list), whatever follows the state in the buffer; so the copy that the
   history theorem above uses for export+import is what the byte-level reader computes.  The premise is a
   boolean (lengths fit their 64-bit headers, tags sorted, 32-byte fields, canonical key) that the correspondence
   run evaluates on every exported state. *)
From StarV Require Import KeyStateFacts.
Theorem C14_export_import : forall (s : server) (rest : bytes),
  server_okb s = true -> server_from_bincode (server_to_bincode s ++ rest) = Some s.
Proof. exact server_roundtrip_b. Qed.
Theorem C14_export_import_spec : forall (s : server) (rest : bytes),
  server_ok s -> server_from_bincode (server_to_bincode s ++ rest) = Some s.
Proof. exact server_roundtrip. Qed.
(* non-vacuity: a server after two punctures (one of them an extreme tag) meets the premise and is read back *)
Example C14_export_import_example :
  let s0 := {| sv_key := 5; sv_pk := {| pk_base := repeat 1%N 32; pk_md := [(0%N, repeat 2%N 32); (7%N, repeat 3%N 32); (255%N, repeat 9%N 32)] |};
               sv_k0 := repeat 4%N 32; sv_k1 := repeat 6%N 32; sv_ggm := ginit bytes (repeat 7%N 32) (repeat 8%N 32) |} in
  let s := after keccak_bytes s0 [7%N; 255%N] in
  server_okb s = true /\ server_from_bincode (server_to_bincode s) = Some s /\ length (gPunctured bytes (sv_ggm s)) = 2%nat.
Proof. vm_compute. repeat split. Qed.

(* ... and the premise holds of EVERY state a server can reach: created with a canonical key, a well-formed public
   key and 32-byte PRG keys and seeds, then any sequence of punctures (fewer than 2^60 of them) - so export + import
   is the identity at every point of every history, with no run-time premise left *)
From StarV Require Import PpFacts SrvInv.
Theorem C14_export_import_reachable : forall (F : list N -> list N) (s0 : server) (seed0 seed1 : bytes) (h : list N) (rest : bytes),
  0 <= sv_key s0 < ell -> pk_wf (sv_pk s0) ->
  length (sv_k0 s0) = 32%nat -> length (sv_k1 s0) = 32%nat ->
  sv_ggm s0 = ginit bytes seed0 seed1 -> length seed0 = 32%nat -> length seed1 = 32%nat ->
  (N.of_nat (length h) < 1152921504606846976)%N ->
  server_from_bincode (server_to_bincode (after F s0 h) ++ rest) = Some (after F s0 h).
Proof. exact export_import_reachable. Qed.
