(* C06  Secret sharing is textbook Shamir over GF(2^128+12451).  Statements only. *)
From Coq Require Import ZArith NArith List.
Import ListNotations.
From StarV Require Import Params Bytes Fp PolyDefs Shamir FieldFacts Lagrange ShamirFacts LimbPrim LimbGen FpLimbs LimbFacts LimbShamir LimbDeal LimbLift LimbOrd.

(* every share is a point (x, f_1 x, ..., f_k x) on the dealt polynomials *)
Theorem C06_share_is_point : forall (polys : list (list fp)) (x : fp),
  sx (evaluate polys x) = x /\ sy (evaluate polys x) = map (fun pl => horner fp fzero fadd fmul pl x) polys.
Proof. intros; split; reflexivity. Qed.

(* the iterator hands out x = 1, 2, 3, ... (never 0 for fewer than p shares) *)
Theorem C06_iterator_points : forall (polys : list (list fp)) (n i : nat), (i < n)%nat ->
  nth_error (eval_iter polys fzero n) i = Some (evaluate polys (fadd fzero (mkfp (Z.of_nat (S i))))).
Proof. intros polys n i. exact (eval_iter_nth polys n fzero i). Qed.

(* random points are never zero (fix F6) *)
Theorem C06_gen_nonzero : forall (St : Type) (next64 : St -> St * N) (fuel n : nat) (s s' : St) (x : fp),
  gen_point St next64 fuel n s = (s', Some x) -> x <> fzero.
Proof. exact gen_point_nonzero. Qed.

(* k polynomials of threshold coefficients each: the constant terms are the secret's elements in
   order, all other coefficients are consecutive, separate draws of the supplied source *)
Theorem C06_dealer_structure : forall (St : Type) (next64 : St -> St * N) (fuel : nat) (t : N)
  (secret : bytes) (s s' : St) (polys : list (list fp)),
  dealer_rng St next64 fuel t secret s = (s', Ok (Some polys)) ->
  decode_all (chunks24 secret) = Some (map (fun pl => last pl fzero) polys) /\
  Forall (fun pl => length pl = S (N.to_nat (t - 1))) polys /\
  length polys = length (chunks24 secret) /\
  draw_n St next64 fuel (length (chunks24 secret) * N.to_nat (t - 1)) s
    = (s', Some (concat (map (@removelast fp) polys))).
Proof. intros St next64 fuel t secret. exact (deal_polys_spec St next64 fuel t (chunks24 secret)). Qed.

(* a secret with an out-of-range element is refused, never silently reduced *)
Theorem C06_refuse_out_of_range : forall (St : Type) (next64 : St -> St * N) (fuel : nat) (t : N) (secret : bytes) (s : St),
  decode_all (chunks24 secret) = None ->
  snd (dealer_rng St next64 fuel t secret s) = Err \/ snd (dealer_rng St next64 fuel t secret s) = Ok None.
Proof. intros St next64 fuel t secret. exact (deal_polys_refuses St next64 fuel t (chunks24 secret)). Qed.
Theorem C06_accept_in_range : forall (St : Type) (next64 : St -> St * N) (fuel : nat) (t : N) (secret : bytes) (s : St) es,
  decode_all (chunks24 secret) = Some es ->
  snd (dealer_rng St next64 fuel t secret s) <> Err /\ snd (dealer_rng St next64 fuel t secret s) <> Panic.
Proof. intros St next64 fuel t secret. exact (deal_polys_accepts St next64 fuel t (chunks24 secret)). Qed.

(* Lagrange interpolation at zero, in the shape the code computes it, over Fp *)
Theorem C06_lagrange : forall (pts cs : list fp), NoDup pts -> (length cs <= length pts)%nat ->
  interp_pairs fp fzero fone fadd fmul fsub finv feqb (map (fun a => (a, horner fp fzero fadd fmul cs a)) pts)
  = horner fp fzero fadd fmul cs fzero.
Proof. exact (lagrange_horner fp fzero fone fadd fmul fsub fopp fdiv finv feqb fp_field feqb_eq). Qed.

(* any collection of shares on polynomials of at most t coefficients that contains t distinct points -
   in any order, with duplicates and surplus - recovers exactly the constant terms *)
Theorem C06_recover : forall (polys : list (list fp)) (t : N) (shs : list share),
  (1 <= t)%N ->
  Forall (fun pl => (N.of_nat (length pl) <= t)%N) polys ->
  Forall (on_polys polys) shs ->
  (t <= N.of_nat (length (dedup [] shs)))%N ->
  recover t shs = Ok (flat_map (fun pl => to_repr (horner fp fzero fadd fmul pl fzero)) polys).
Proof. exact recover_correct. Qed.
(* the number of distinct points is what counts: it is at least the size of any duplicate-free set of x *)
Theorem C06_distinct_count : forall (l : list share) (pts : list fp),
  NoDup pts -> incl pts (map sx l) -> (length pts <= length (dedup [] l))%nat.
Proof. exact dedup_count. Qed.

Theorem C06_refuse_too_few : forall (t : N) (shs : list share),
  (N.of_nat (length (dedup [] shs)) < t)%N -> recover t shs = Err.
Proof. exact recover_too_few. Qed.
Theorem C06_refuse_unequal : forall (t : N) (s0 : share) (rest : list share) (s : share),
  In s rest -> length (sy s) <> length (sy s0) -> recover t (s0 :: rest) = Err.
Proof. exact recover_unequal. Qed.
Theorem C06_refuse_zero_threshold : forall shs, recover 0 shs = Err.
Proof. exact recover_zero_threshold. Qed.
Theorem C06_recover_never_panics : forall t shs, recover t shs <> Panic.
Proof. exact recover_never_panics. Qed.

Example C06_nonvacuous :
  recover 2 [evaluate [[mkfp 5; mkfp 9]] (mkfp 1); evaluate [[mkfp 5; mkfp 9]] (mkfp 2)] = Ok (to_repr (mkfp 9)).
Proof. vm_compute. reflexivity. Qed.

(* ---- "all values agree with an independent big-integer implementation", as a theorem about the limb code: the Horner
   evaluation of the dealer and the Lagrange interpolation of recovery, instantiated with the limb operations ff_derive
   generates (model/LimbGen.v, regenerated from the expanded source) - on ANY coefficients, points and values given as
   limbs below the modulus - produce limbs below the modulus that represent exactly what the big-integer model computes
   (lrel t u: t is valid and stands for the field element u) *)
Theorem C06_limbs_evaluate : forall (cs : list limbs) (cs' : list fp) (x : limbs) (x' : fp),
  Forall2 lrel cs cs' -> lrel x x' -> lrel (lhorner cs x) (fhorner cs' x').
Proof. exact lhorner_correct. Qed.
Theorem C06_limbs_interpolate : forall (l : list (limbs * limbs)) (l' : list (fp * fp)),
  Forall2 prel l l' -> lrel (linterp_pairs l) (finterp_pairs l') /\ lrel (linterp_pairs l) (finterp_pairs_fast l').
Proof. intros l l' H. split; [exact (linterp_correct l l' H)|exact (linterp_fast l l' H)]. Qed.
(* the `invert().unwrap()` inside interpolate never panics: every inverted difference is non-zero *)
Theorem C06_limbs_interpolate_no_unwrap_panic : forall (pts : list limbs) (a b : limbs),
  Forall lvalid pts -> lvalid a -> In b (others limbs leqb pts a) -> linvert (lsub b a) <> None.
Proof. exact linterp_no_unwrap_panic. Qed.
(* the dealer at the limb level: a round of Fp::random in the limb code is the sampler of the big-integer model (so the
   coefficients drawn are the same field elements), and every share value computed by the limb code represents the
   model's share value *)
Theorem C06_limbs_random_is_model_sampler : forall a b c : N,
  (a < 18446744073709551616)%N -> (b < 18446744073709551616)%N -> (c < 18446744073709551616)%N ->
  match lrandom_round (Z.of_N a) (Z.of_N b) (Z.of_N c), fp_of_limbs a b c with
  | Some t, Some x => lvalid t /\ labs t = x
  | None, None => True
  | _, _ => False
  end.
Proof. exact lrandom_round_is_fp_of_limbs. Qed.
Theorem C06_limbs_share_values : forall (polys : list (list limbs)) (polys' : list (list fp)) (x : limbs) (x' : fp),
  Forall2 (Forall2 lrel) polys polys' -> lrel x x' ->
  lrel (fst (levaluate polys x)) (sx (evaluate polys' x')) /\
  Forall2 lrel (snd (levaluate polys x)) (sy (evaluate polys' x')).
Proof. exact levaluate_correct. Qed.

(* the key under which recover remembers a share point (the to_repr bytes of x): two points have equal keys iff they are the
   same field element iff their limbs are equal - so the limb code de-duplicates exactly as the model does with field equality *)
Theorem C06_limbs_dedup_key : forall a b : limbs, lvalid a -> lvalid b ->
  (lto_repr a = lto_repr b <-> labs a = labs b) /\ (labs a = labs b <-> a = b).
Proof. exact ldedup_key. Qed.
