(* C16  ADSS sharing is deterministic up to the share point; recovery rebuilds it.
   Statements only; every proof is `exact <lemma>`.  F is ANY permutation with byte-valued output
   (Keccak-f as modelled is one: keccak_bytes_wf). *)
From Coq Require Import ZArith NArith List.
Import ListNotations.
From StarV Require Import Params Bytes Keccak Strobe Fp Shamir Adss FieldFacts ShamirFacts AdssFacts.

(* any selection of shares of one sharing (T = None) holding at least t distinct points - any order,
   duplicates, surplus - recovers exactly (t, M, R); M and R of any length *)
Theorem C16_recover : forall (F : list N -> list N), (forall l, wf (F l)) ->
  forall (c : commune) (xs : list fp) (shs : list ashare),
  cT c = None -> (1 <= cA c)%N ->
  shares_at F c xs = Ok (Some shs) -> xs <> [] ->
  (cA c <= N.of_nat (length (nodup fp_eq_dec xs)))%N ->
  arecover F shs = Ok c.
Proof. exact shares_recover. Qed.

(* everything in a share except its point is a function of (t, M, R, T); the y values lie on
   polynomials that are themselves a function of (t, M, R, T) *)
Theorem C16_deterministic : forall (F : list N -> list N) (c : commune) (xs : list fp) (shs : list ashare),
  shares_at F c xs = Ok (Some shs) ->
  exists polys, polys_from F (cA c) (sharing_of F c) = Ok (Some polys) /\
  Forall2 (fun x s => aA s = cA c /\ aS s = evaluate polys x /\ aC s = hC (sharing_of F c) /\
                      aD s = hD (sharing_of F c) /\ aJ s = hJ (sharing_of F c)) xs shs.
Proof. exact shares_static. Qed.

(* the recovered sharing is the original one, so shares made from it are shares of the original
   (same polynomial) and combine with the old ones *)
Theorem C16_reshare : forall (F : list N -> list N), (forall l, wf (F l)) ->
  forall (c c' : commune) (xs xs' : list fp) (shs : list ashare),
  cT c = None -> (1 <= cA c)%N ->
  shares_at F c xs = Ok (Some shs) -> xs <> [] ->
  (cA c <= N.of_nat (length (nodup fp_eq_dec xs)))%N ->
  arecover F shs = Ok c' ->
  shares_at F c' xs' = shares_at F c xs'.
Proof.
  intros F HF c c' xs xs' shs HT Ht Hs Hne Hcnt Hr.
  rewrite (shares_recover F HF c xs shs HT Ht Hs Hne Hcnt) in Hr. injection Hr as <-. reflexivity.
Qed.

(* threshold 0 never recovers, whatever the collection *)
Theorem C16_zero_threshold : forall (F : list N -> list N) (s : ashare) (rest : list ashare),
  aA s = 0%N -> arecover F (s :: rest) = Err.
Proof. exact arecover_zero_threshold. Qed.

(* a collection whose first share was made under (t, M, R, T) recovers that sharing (T = None) or
   exhibits two different sharings with equal 64-byte MACs; in particular shares made under a custom
   transcript T <> None are rejected unless such a coincidence exists *)
Theorem C16_transcript : forall (F : list N -> list N)
  (c : commune) (x : fp) (polys : list (list fp)) (rest : list ashare) (c' : commune),
  polys_from F (cA c) (sharing_of F c) = Ok (Some polys) ->
  arecover F (mk_share (cA c) (sharing_of F c) polys x :: rest) = Ok c' ->
  c' = c \/ MacCoincidence F c c'.
Proof. exact recover_authentic. Qed.

Theorem C16_never_panics : forall (F : list N -> list N) (shs : list ashare), arecover F shs <> Panic.
Proof. exact arecover_never_panics. Qed.

(* the premises are satisfiable: Keccak-f as modelled is byte-valued, and the sampler does return *)
Theorem C16_premise_keccak : forall l, wf (keccak_bytes l).
Proof. exact keccak_bytes_wf. Qed.
Example C16_nonvacuous :
  exists shs, shares_at keccak_bytes {| cA := 2; cM := [1; 2; 3]%N; cR := [5]%N; cT := None |} [mkfp 7; mkfp 9] = Ok (Some shs)
              /\ length shs = 2%nat.
Proof. eexists. split; [vm_compute; reflexivity|reflexivity]. Qed.

(* mechanism of the known finding C16/short-sharing (same root cause as C05/short-sharing): the interpolated key
   enters the outcome of recovery only through what it decrypts C and D to; points taken from a sharing under another
   transcript give another key, and the collection is accepted exactly when that key decrypts alike - always when
   message and coins are empty *)
Theorem C16_key_bound_through_plaintext : forall (F : list N -> list N) (s s' : ashare) (rest rest' : list ashare) (keyb keyb' : bytes),
  aA s = aA s' -> aC s = aC s' -> aD s = aD s' -> aJ s = aJ s' ->
  Shamir.recover (aA s) (map aS (s :: rest)) = Ok keyb -> Shamir.recover (aA s') (map aS (s' :: rest')) = Ok keyb' ->
  (Params.adss_key_take <= length keyb)%nat -> (Params.adss_key_take <= length keyb')%nat ->
  adec F (firstn Params.adss_key_take keyb) (aC s) (aD s) = adec F (firstn Params.adss_key_take keyb') (aC s) (aD s) ->
  arecover F (s :: rest) = arecover F (s' :: rest').
Proof. exact arecover_key_via_plaintext. Qed.
