(* C16: placeholder while the proof files are being written *)
From StarV Require Import Bytes.
Theorem C16_placeholder : True. Proof. exact I. Qed.
