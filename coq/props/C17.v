(* C17  The WASM string API is a faithful wrapper of the core protocol.  Statements only (any permutation F). *)
From Coq Require Import ZArith NArith List.
Import ListNotations.
From StarV Require Import Params Bytes Strobe Fp Shamir Adss Star Wasm FieldFacts AdssFacts CodecFacts StarFacts WasmFacts.

(* create_share returns {"key": "<b64>", "share": "<b64>", "tag": "<b64>"} where the three fields are the key,
   a share and the tag the core library derives for (measurement, epoch, threshold) *)
Theorem C17_create_share : forall (F : list N -> list N) (m : bytes) (t : N) (epoch : bytes) (x : fp) (js : bytes),
  create_share F m t epoch x = Ok (Some js) -> js <> [] ->
  exists k sh tg,
    js = Params.wasm_json_p0 ++ b64_encode k ++ Params.wasm_json_p1 ++ b64_encode (ashare_to_bytes sh)
         ++ Params.wasm_json_p2 ++ b64_encode tg ++ Params.wasm_json_p3 /\
    k = derive_ske_key F (r0 F (sample_local F m epoch t)) epoch /\ tg = r2 F (sample_local F m epoch t) /\
    share_at F (commune_of F t (sample_local F m epoch t)) x = Ok (Some sh).
Proof. exact create_share_spec. Qed.

(* base64 as used: decoding an encoding gives the bytes back; only canonical encodings are accepted;
   the alphabet needs no JSON escaping, so the output is well-formed JSON *)
Theorem C17_base64_roundtrip : forall bs : bytes, wf bs -> b64_decode (b64_encode bs) = Some bs.
Proof. exact b64_roundtrip. Qed.
Theorem C17_base64_canonical : forall s bs : bytes, b64_decode s = Some bs -> s = b64_encode bs.
Proof. exact b64_decode_canonical. Qed.
Theorem C17_json_safe : forall bs : bytes, Forall json_safe (b64_encode bs).
Proof. exact b64_encode_safe. Qed.
Theorem C17_json_frame :
  Params.wasm_json_p0 = [123; 34; 107; 101; 121; 34; 58; 32; 34]%N /\
  Params.wasm_json_p3 = [34; 125]%N.
Proof. split; reflexivity. Qed.

(* group_shares is share recovery composed with base64 and the key derivation for the given epoch;
   undecodable input yields nothing; it never panics *)
Theorem C17_group_shares : forall (F : list N -> list N) (ser epoch : bytes) (shs : list ashare),
  decode_chunks (split_nl [] ser) = Ok shs ->
  group_shares F ser epoch =
    match share_recover F shs with
    | Ok c => Ok (Some (b64_encode (derive_ske_key F (cM c) epoch)))
    | Err => Ok None
    | Panic => Panic
    end.
Proof. exact group_shares_spec. Qed.
Theorem C17_group_shares_malformed : forall (F : list N -> list N) (ser epoch : bytes),
  decode_chunks (split_nl [] ser) = Err -> group_shares F ser epoch = Ok None.
Proof. exact group_shares_malformed. Qed.
Theorem C17_group_shares_total : forall (F : list N -> list N) (ser epoch : bytes), group_shares F ser epoch <> Panic.
Proof. exact group_shares_total. Qed.

(* end to end: the shares the clients of one measurement obtain from create_share (their `share` fields,
   newline-separated, in any selection with t distinct points, repeats allowed), handed to group_shares with
   the clients' epoch, yield exactly the base64 of the key every contributing client holds *)
Theorem C17_group_of_created : forall (F : list N -> list N), (forall l, wf (F l)) ->
  forall (m : bytes) (t : N) (epoch : bytes) (xs : list fp) (shs : list ashare),
  (1 <= t < two32)%N -> wf epoch ->
  shares_at F (commune_of F t (sample_local F m epoch t)) xs = Ok (Some shs) -> xs <> [] ->
  (t <= N.of_nat (length (nodup fp_eq_dec xs)))%N ->
  group_shares F (join_nl (map (fun s => b64_encode (ashare_to_bytes s)) shs)) epoch
  = Ok (Some (b64_encode (derive_ske_key F (r0 F (sample_local F m epoch t)) epoch))).
Proof. exact group_of_created. Qed.

(* a different epoch gives the clients' key only if two digests agree in their first 16 bytes *)
Theorem C17_other_epoch : forall (F : list N -> list N) (r e e' : bytes),
  derive_ske_key F r e = derive_ske_key F r e' ->
  (r, e) = (r, e') \/ TruncatedDigestCollision F Params.lbl_star_derive_ske_key Params.star_key_len.
Proof. intros F r e e'. exact (key_injective F r e r e'). Qed.

(* fewer distinct shares than the threshold recorded in the first share, however many repeats pad the list:
   the grouping call returns nothing (and likewise for a threshold of 0) *)
Theorem C17_group_too_few : forall (F : list N -> list N) (ser epoch : bytes) (s : ashare) (rest : list ashare),
  decode_chunks (split_nl [] ser) = Ok (s :: rest) ->
  (N.of_nat (length (dedup [] (map aS (s :: rest)))) < aA s)%N ->
  group_shares F ser epoch = Ok None.
Proof.
  intros F ser epoch s rest Hd Hn. rewrite (group_shares_spec F ser epoch (s :: rest) Hd).
  unfold share_recover. rewrite (arecover_too_few F s rest Hn). reflexivity.
Qed.
Theorem C17_group_zero_threshold : forall (F : list N -> list N) (ser epoch : bytes) (s : ashare) (rest : list ashare),
  decode_chunks (split_nl [] ser) = Ok (s :: rest) -> aA s = 0%N -> group_shares F ser epoch = Ok None.
Proof.
  intros F ser epoch s rest Hd Hz. rewrite (group_shares_spec F ser epoch (s :: rest) Hd).
  unfold share_recover. rewrite (arecover_zero_threshold F s rest Hz). reflexivity.
Qed.
