(* C01  Threshold recovery: >= t matching reports always reveal measurement and aux.  Statements only. *)
From Coq Require Import ZArith NArith List.
Import ListNotations.
From StarV Require Import Params Bytes Keccak Strobe Fp Shamir Adss Star FieldFacts AdssFacts CodecFacts StarFacts.

(* For ANY permutation F with byte-valued output, any measurement m and epoch e (any bytes, m shorter
   than 2^32), any threshold 1 <= t < 2^32, ANY 32-byte-or-not client randomness rnd, and any family of
   clients (associated data: absent, empty or any length that fits the 32-bit framing; share point x):
   - every report is unchanged by to_bytes / from_bytes;
   - every collection `picked` drawn from the reports (subset, permutation, repetitions, surplus) whose
     shares contain t distinct points recovers the shared value;
   - with the key derived from the recovered value and the epoch, EVERY report decrypts to exactly the
     measurement and the associated data (None / Some [] / Some bytes kept apart) its client supplied.
   Premise: the report list was produced (the coefficient sampler returned). *)
Theorem C01_recovery : forall (F : list N -> list N), (forall l, wf (F l)) ->
  forall (m e : bytes) (t : N) (rnd : bytes) (clients : list (option bytes * fp)) (msgs : list message),
  (1 <= t < two32)%N -> fits32 m -> Forall (client_ok m) clients ->
  star_reports F m e t rnd clients = Ok (Some msgs) ->
  Forall (fun mm => message_from_bytes (message_to_bytes mm) = Ok mm) msgs /\
  (forall picked, incl picked msgs -> picked <> [] ->
     (t <= N.of_nat (length (nodup fp_eq_dec (map (fun mm => sx (aS (mShare mm))) picked))))%N ->
     share_recover F (map mShare picked) = Ok (commune_of F t rnd)) /\
  Forall2 (fun mm cl => parse_payload_strict
             (ct_decrypt F (derive_ske_key F (cM (commune_of F t rnd)) e) (mCt mm) Params.lbl_agg_decrypt)
             = Ok (m, fst cl)) msgs clients.
Proof. exact star_end_to_end. Qed.

(* the statement does not depend on where rnd came from: in particular locally derived randomness *)
Theorem C01_local_randomness : forall (F : list N -> list N), (forall l, wf (F l)) ->
  forall (m e : bytes) (t : N) (clients : list (option bytes * fp)) (msgs : list message),
  (1 <= t < two32)%N -> fits32 m -> Forall (client_ok m) clients ->
  star_reports F m e t (sample_local F m e t) clients = Ok (Some msgs) ->
  forall picked, incl picked msgs -> picked <> [] ->
     (t <= N.of_nat (length (nodup fp_eq_dec (map (fun mm => sx (aS (mShare mm))) picked))))%N ->
     share_recover F (map mShare picked) = Ok (commune_of F t (sample_local F m e t)).
Proof.
  intros F HF m e t clients msgs Ht Hm Hcl Hs.
  exact (proj1 (proj2 (star_end_to_end F HF m e t (sample_local F m e t) clients msgs Ht Hm Hcl Hs))).
Qed.

(* ingredients, any F *)
Theorem C01_cipher_roundtrip : forall (F : list N -> list N) (k d l : bytes), ct_decrypt F k (ct_new F k d l) l = d.
Proof. exact ct_roundtrip. Qed.
Theorem C01_payload_framing : forall (m : bytes) (aux : option bytes), fits32 m ->
  match aux with Some a => fits32 a | None => True end -> parse_payload_strict (payload m aux) = Ok (m, aux).
Proof. exact payload_parse. Qed.
Theorem C01_labels_agree : Params.lbl_agg_decrypt = Params.lbl_star_encrypt.
Proof. reflexivity. Qed.

Example C01_nonvacuous :
  exists msgs, star_reports keccak_bytes [104; 105]%N [116]%N 2 (sample_local keccak_bytes [104; 105]%N [116]%N 2)
                 [(None, mkfp 3); (Some []%N, mkfp 4)] = Ok (Some msgs) /\ length msgs = 2%nat.
Proof. eexists. split; [vm_compute; reflexivity|reflexivity]. Qed.
