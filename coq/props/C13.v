(* C13  Evaluation proofs are complete (and serialisation-stable); soundness against tampering and nonce
   freshness are exercised against the Rust on every run (fault campaign), completeness is proved. *)
From Coq Require Import ZArith NArith List.
Import ListNotations.
From StarV Require Import Params Bytes Strobe Ggm Ppoprf EllPrime PpFacts.
Open Scope Z_scope.

(* any batch, any key, any nonce, any hash (any F): the proof produced for Q_i = key * P_i under the public
   value key * G verifies *)
Theorem C13_complete : forall (F : list N -> list N) (G : grp), GrpLaws G -> forall (key r : Z) (ps : list bytes),
  Forall (fun p => g_valid G p = true) ps ->
  verify_batch F G (new_batch F G key (g_mul G key (g_base G)) ps (map (g_mul G key) ps) r)
               (g_mul G key (g_base G)) ps (map (g_mul G key) ps) = true.
Proof. exact verify_new_batch. Qed.

(* special soundness of the underlying DLEQ relation: two transcripts that open the same commitments under
   different challenges force Z = key * M.  Contrapositive: for an evaluation NOT computed with the committed
   key, given commitments admit at most one challenge - the Fiat-Shamir hash must hit it *)
Theorem C13_special_soundness : forall (G : grp), GrpLaws G -> forall (k : Z) (m z : bytes) (c s c' s' d : Z),
  g_valid G m = true -> g_valid G z = true -> g_base G <> g_id G ->
  g_add G (g_mul G s (g_base G)) (g_mul G c (g_mul G k (g_base G)))
    = g_add G (g_mul G s' (g_base G)) (g_mul G c' (g_mul G k (g_base G))) ->
  g_add G (g_mul G s m) (g_mul G c z) = g_add G (g_mul G s' m) (g_mul G c' z) ->
  (d * (c' - c)) mod ell = 1 ->
  z = g_mul G k m.
Proof. exact dleq_special_soundness. Qed.
(* with ell prime, any two DIFFERENT challenges do *)
Theorem C13_special_soundness_prime : forall (G : grp), GrpLaws G -> forall (k : Z) (m z : bytes) (c s c' s' : Z),
  g_valid G m = true -> g_valid G z = true -> g_base G <> g_id G ->
  g_add G (g_mul G s (g_base G)) (g_mul G c (g_mul G k (g_base G)))
    = g_add G (g_mul G s' (g_base G)) (g_mul G c' (g_mul G k (g_base G))) ->
  g_add G (g_mul G s m) (g_mul G c z) = g_add G (g_mul G s' m) (g_mul G c' z) ->
  (c' - c) mod ell <> 0 ->
  z = g_mul G k m.
Proof.
  intros G L k m z c s c' s' Hm Hz HB E1 E2 Hc.
  exact (dleq_special_soundness G L k m z c s c' s' (sc_inv (c' - c)) Hm Hz HB E1 E2 (sc_inv_spec (c' - c) Hc)).
Qed.

(* the proof survives its binary form *)
Theorem C13_proof_roundtrip : forall p : proof, 0 <= pr_c p < ell -> 0 <= pr_s p < ell ->
  proof_from_bincode (proof_to_bincode p) = inr p.
Proof. exact proof_roundtrip. Qed.

(* a missing proof, an undecodable point or an unregistered tag is a failed verification, never a crash *)
Theorem C13_verify_rejects_malformed : forall (F : list N -> list N) (G : grp) (pk : pubkey) (i o : bytes) (md : N),
  client_verify F G pk i o None md = false.
Proof. reflexivity. Qed.
