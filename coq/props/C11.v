(* C11  Forward security, structurally: after any history of punctures the retained key material contains
   no node on the path to a punctured input, and every unpunctured input has exactly one retained ancestor
   carrying the right seed.  That a holder of the remaining seeds cannot recompute a punctured value is
   one-wayness of the PRG and is not provable; the theorem is the structural fact the property names. *)
From Coq Require Import NArith Arith Bool List.
Import ListNotations.
From StarV Require Import Params Bytes Ggm Ppoprf GgmFacts.

Theorem C11_no_ancestor : forall (Seed : Type) (prg : bool -> Seed -> Seed) (s0 s1 : Seed) (n : nat) (h : list bits)
  (e : bits * Seed) (x : bits),
  1 <= n -> Forall (fun y => length y = n) h ->
  In e (gPrefixes Seed (fold_left (step Seed prg) h (ginit Seed s0 s1))) -> In x h -> starts_with (fst e) x = false.
Proof. exact history_no_ancestor. Qed.

Theorem C11_unique_cover : forall (Seed : Type) (prg : bool -> Seed -> Seed) (s0 s1 : Seed) (n : nat) (h : list bits) (x : bits),
  1 <= n -> Forall (fun y => length y = n) h -> length x = n -> ~ In x h ->
  exists e, cov Seed x (gPrefixes Seed (fold_left (step Seed prg) h (ginit Seed s0 s1))) = [e] /\
            snd e = nv Seed prg s0 s1 (fst e).
Proof. exact history_unique_cover. Qed.

(* the fresh key keeps only the two depth-1 nodes: the root secret is never stored *)
Theorem C11_root_dropped : forall (Seed : Type) (s0 s1 : Seed),
  gPrefixes Seed (ginit Seed s0 s1) = [([false], s0); ([true], s1)] /\ gPunctured Seed (ginit Seed s0 s1) = [].
Proof. intros; split; reflexivity. Qed.

(* every retained seed is the seed of its node: nothing else (no ancestor seed, no spare material) is kept *)
Theorem C11_retained_seeds : forall (Seed : Type) (prg : bool -> Seed -> Seed) (s0 s1 : Seed) (n : nat) (h : list bits) (e : bits * Seed),
  1 <= n -> Forall (fun y => length y = n) h ->
  In e (gPrefixes Seed (fold_left (step Seed prg) h (ginit Seed s0 s1))) ->
  fst e <> [] /\ length (fst e) <= n /\ snd e = nv Seed prg s0 s1 (fst e).
Proof.
  intros Seed prg s0 s1 n h e Hn HL He.
  exact (inv_seed Seed prg s0 s1 n _ (proj1 (history_inv Seed prg s0 s1 n h Hn HL)) e He).
Qed.

(* the state exported for key synchronisation is the encoding of exactly: the OPRF key, the public key, the two
   PRG keys, the retained (prefix, seed) pairs and the punctured inputs - nothing else (checked byte for byte
   against the Rust's export on every run); with C11_no_ancestor it therefore holds no node on a punctured path *)
Theorem C11_export_contents : forall s : server,
  server_to_bincode s =
  sc_to_bytes (sv_key s) ++ pk_to_bincode (sv_pk s) ++
  (bytes_of_le 8 2 ++ sv_k0 s ++ sv_k1 s
   ++ bytes_of_le 8 (N.of_nat (length (gPrefixes bytes (sv_ggm s))))
   ++ flat_map (fun ps => bitvec_to_bincode (fst ps) ++ vec_u8_to_bincode (snd ps)) (gPrefixes bytes (sv_ggm s))
   ++ bytes_of_le 8 (N.of_nat (length (gPunctured bytes (sv_ggm s))))
   ++ flat_map bitvec_to_bincode (gPunctured bytes (sv_ggm s))).
Proof. reflexivity. Qed.

(* ... and the server that imports those bytes holds exactly the exporter's retained prefixes, seeds and punctured
   list - nothing is re-derived on import - so the no-ancestor and unique-cover statements above carry over to the
   importing instance at every point of a history *)
From StarV Require Import KeyStateFacts.
Theorem C11_imported_state : forall (s : server) (rest : bytes), server_okb s = true ->
  option_map sv_ggm (server_from_bincode (server_to_bincode s ++ rest)) = Some (sv_ggm s).
Proof. intros s rest H. rewrite (server_roundtrip_b s rest H). reflexivity. Qed.
