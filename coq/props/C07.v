(* C07  The share field is the integers mod 2^128+12451 with one canonical encoding.  Statements only. *)
From Coq Require Import ZArith Znumtheory NArith List Field.
Import ListNotations.
From StarV Require Import Params Bytes Fp Primality FieldFacts ShamirFacts.
Open Scope Z_scope.

(* the modulus the source declares is 2^128 + 12451 and is prime (Pratt certificate, checked by the kernel) *)
Theorem C07_modulus : Fp.p = 2 ^ 128 + 12451.
Proof. exact p_eq. Qed.
Theorem C07_prime : prime Fp.p.
Proof. exact p_prime. Qed.

(* the model operations are literally big-integer arithmetic mod p on canonical representatives *)
Theorem C07_ops_are_mod_p : forall a b : fp,
  val (fadd a b) = (val a + val b) mod p /\ val (fsub a b) = (val a - val b) mod p /\
  val (fmul a b) = (val a * val b) mod p /\ val (fopp a) = (- val a) mod p /\
  val (fdouble a) = (val a + val a) mod p /\ val (fsquare a) = (val a * val a) mod p /\
  0 <= val a < p.
Proof. intros a b. repeat split; try reflexivity; apply val_range. Qed.
Theorem C07_canonical : forall a b : fp, val a = val b -> a = b.
Proof. exact fp_eq. Qed.

(* ... and they form a field *)
Theorem C07_field : field_theory fzero fone fadd fmul fsub fopp fdiv finv (@eq fp).
Proof. exact fp_field. Qed.
Theorem C07_inverse : forall a : fp, a <> fzero -> fmul (finv a) a = fone.
Proof. exact finv_l. Qed.
Theorem C07_pow : forall (a : fp) (e : Z), 0 <= e -> val (fpow a e) = val a ^ e mod p.
Proof. exact fpow_val. Qed.
Theorem C07_fermat : forall k, 1 <= k < p -> k ^ (p - 1) mod p = 1.
Proof. exact fermat. Qed.
Theorem C07_sqrt_sound : forall a r : fp, fsqrt a = Some r -> fmul r r = a.
Proof. exact fsqrt_sound. Qed.
Theorem C07_sqrt_complete : forall b : fp, exists r, fsqrt (fmul b b) = Some r.
Proof. exact fsqrt_complete. Qed.

(* exactly one 24-byte little-endian encoding per element; everything else is rejected *)
Theorem C07_encode_decode : forall a : fp, from_repr (to_repr a) = Some a /\ length (to_repr a) = 24%nat.
Proof. intros a. split; [apply from_to_repr|apply length_to_repr]. Qed.
Theorem C07_one_encoding : forall (bs : bytes) (a : fp), wf bs -> from_repr bs = Some a -> to_repr a = bs.
Proof. exact from_repr_unique. Qed.
Theorem C07_reject : forall bs : bytes,
  from_repr bs = None <-> length bs <> 24%nat \/ p <= Z.of_N (le_of_bytes bs).
Proof. exact from_repr_none. Qed.

(* ff_derive's random: three u64 limbs, top limb masked to one bit, rejected unless below p, and the
   accepted limbs are the Montgomery form of the returned element *)
Theorem C07_random_limbs : forall (a b c : N) (x : fp), fp_of_limbs a b c = Some x ->
  let v := Z.of_N a + 2 ^ 64 * Z.of_N b + 2 ^ 128 * Z.of_N (N.land c 1) in
  v < p /\ (val x * 2 ^ 192) mod p = v.
Proof. exact fp_of_limbs_spec. Qed.

(* the published constants, over the generator the source declares (Params.generator) *)
Theorem C07_generator_order : forall e, 0 < e < p - 1 -> Params.generator ^ e mod p <> 1.
Proof. exact generator_order. Qed.
Theorem C07_generator_generates : forall k, 1 <= k < p -> exists i, 0 <= i <= p - 1 /\ k = Params.generator ^ i mod p.
Proof. exact generator_generates. Qed.
Theorem C07_generator_nonresidue : forall b : fp, fmul b b <> f_gen.
Proof. exact generator_nonresidue. Qed.
Theorem C07_constants :
  fmul (mkfp 2) f_two_inv = fone /\ f_S = 1 /\ f_num_bits = 129 /\ f_capacity = 128 /\
  f_rou <> fone /\ fmul f_rou f_rou = fone /\ fmul f_rou f_rou_inv = fone /\ f_rou = fopp fone /\
  f_delta = fmul f_gen f_gen /\ Params.repr_little_endian = true /\ Params.fp_limbs = 3%nat /\
  Params.field_element_len = 24%nat.
Proof.
  split; [exact two_inv_spec|]. destruct f_S_spec as (A & B & C). destruct rou_spec as (D & E & G & H).
  pose proof delta_spec. repeat split; assumption.
Qed.
