(* C07  The share field is the integers mod 2^128+12451 with one canonical encoding.  Statements only. *)
From Coq Require Import ZArith Znumtheory NArith List Field.
Import ListNotations.
From StarV Require Import Params Bytes Fp Primality FieldFacts ShamirFacts LimbPrim LimbGen FpLimbs LimbFacts LimbLift LimbOrd.
Open Scope Z_scope.

(* the modulus the source declares is 2^128 + 12451 and is prime (Pratt certificate, checked by the kernel) *)
Theorem C07_modulus : Fp.p = 2 ^ 128 + 12451.
Proof. exact p_eq. Qed.
Theorem C07_prime : prime Fp.p.
Proof. exact p_prime. Qed.

(* the model operations are literally big-integer arithmetic mod p on canonical representatives *)
Theorem C07_ops_are_mod_p : forall a b : fp,
  val (fadd a b) = (val a + val b) mod p /\ val (fsub a b) = (val a - val b) mod p /\
  val (fmul a b) = (val a * val b) mod p /\ val (fopp a) = (- val a) mod p /\
  val (fdouble a) = (val a + val a) mod p /\ val (fsquare a) = (val a * val a) mod p /\
  0 <= val a < p.
Proof. intros a b. repeat split; try reflexivity; apply val_range. Qed.
Theorem C07_canonical : forall a b : fp, val a = val b -> a = b.
Proof. exact fp_eq. Qed.

(* ... and they form a field *)
Theorem C07_field : field_theory fzero fone fadd fmul fsub fopp fdiv finv (@eq fp).
Proof. exact fp_field. Qed.
Theorem C07_inverse : forall a : fp, a <> fzero -> fmul (finv a) a = fone.
Proof. exact finv_l. Qed.
Theorem C07_pow : forall (a : fp) (e : Z), 0 <= e -> val (fpow a e) = val a ^ e mod p.
Proof. exact fpow_val. Qed.
Theorem C07_fermat : forall k, 1 <= k < p -> k ^ (p - 1) mod p = 1.
Proof. exact fermat. Qed.
Theorem C07_sqrt_sound : forall a r : fp, fsqrt a = Some r -> fmul r r = a.
Proof. exact fsqrt_sound. Qed.
Theorem C07_sqrt_complete : forall b : fp, exists r, fsqrt (fmul b b) = Some r.
Proof. exact fsqrt_complete. Qed.

(* exactly one 24-byte little-endian encoding per element; everything else is rejected *)
Theorem C07_encode_decode : forall a : fp, from_repr (to_repr a) = Some a /\ length (to_repr a) = 24%nat.
Proof. intros a. split; [apply from_to_repr|apply length_to_repr]. Qed.
Theorem C07_one_encoding : forall (bs : bytes) (a : fp), wf bs -> from_repr bs = Some a -> to_repr a = bs.
Proof. exact from_repr_unique. Qed.
Theorem C07_reject : forall bs : bytes,
  from_repr bs = None <-> length bs <> 24%nat \/ p <= Z.of_N (le_of_bytes bs).
Proof. exact from_repr_none. Qed.

(* ff_derive's random: three u64 limbs, top limb masked to one bit, rejected unless below p, and the
   accepted limbs are the Montgomery form of the returned element *)
Theorem C07_random_limbs : forall (a b c : N) (x : fp), fp_of_limbs a b c = Some x ->
  let v := Z.of_N a + 2 ^ 64 * Z.of_N b + 2 ^ 128 * Z.of_N (N.land c 1) in
  v < p /\ (val x * 2 ^ 192) mod p = v.
Proof. exact fp_of_limbs_spec. Qed.

(* the published constants, over the generator the source declares (Params.generator) *)
Theorem C07_generator_order : forall e, 0 < e < p - 1 -> Params.generator ^ e mod p <> 1.
Proof. exact generator_order. Qed.
Theorem C07_generator_generates : forall k, 1 <= k < p -> exists i, 0 <= i <= p - 1 /\ k = Params.generator ^ i mod p.
Proof. exact generator_generates. Qed.
Theorem C07_generator_nonresidue : forall b : fp, fmul b b <> f_gen.
Proof. exact generator_nonresidue. Qed.
Theorem C07_constants :
  fmul (mkfp 2) f_two_inv = fone /\ f_S = 1 /\ f_num_bits = 129 /\ f_capacity = 128 /\
  f_rou <> fone /\ fmul f_rou f_rou = fone /\ fmul f_rou f_rou_inv = fone /\ f_rou = fopp fone /\
  f_delta = fmul f_gen f_gen /\ Params.repr_little_endian = true /\ Params.fp_limbs = 3%nat /\
  Params.field_element_len = 24%nat.
Proof.
  split; [exact two_inv_spec|]. destruct f_S_spec as (A & B & C). destruct rou_spec as (D & E & G & H).
  pose proof delta_spec. repeat split; assumption.
Qed.

(* ---- the limb-level code that ff_derive generates for `struct Fp` (model/LimbGen.v is written from the macro-expanded
   source on every run; model/FpLimbs.v holds the loop-shaped helpers): on ALL operands - any three 64-bit limbs below
   the modulus - every operation returns limbs below the modulus that represent, in Montgomery form, exactly what
   big-integer arithmetic mod p gives.  `labs a` is the field element a limb triple stands for: lval a * 2^-192 mod p. *)
Theorem C07_limbs_ring_ops : forall a b : limbs, lvalid a -> lvalid b ->
  (lvalid (ladd a b) /\ labs (ladd a b) = fadd (labs a) (labs b)) /\
  (lvalid (lsub a b) /\ labs (lsub a b) = fsub (labs a) (labs b)) /\
  (lvalid (lmul a b) /\ labs (lmul a b) = fmul (labs a) (labs b)) /\
  (lvalid (lneg a) /\ labs (lneg a) = fopp (labs a)) /\
  (lvalid (ldouble a) /\ labs (ldouble a) = fdouble (labs a)) /\
  (lvalid (lsquare a) /\ labs (lsquare a) = fsquare (labs a)).
Proof.
  intros a b Ha Hb. repeat split;
    first [apply (ladd_correct a b Ha Hb) | apply (lsub_correct a b Ha Hb) | apply (lmul_correct a b Ha Hb)
          | apply (lneg_correct a Ha) | apply (ldouble_correct a Ha) | apply (lsquare_correct a Ha)].
Qed.
(* the representation is injective: limb-wise equality (what `==` and ct_eq compare) is field equality *)
Theorem C07_limbs_eq : forall a b : limbs, lvalid a -> lvalid b -> (leqb a b = true <-> labs a = labs b).
Proof.
  intros a b Ha Hb. rewrite leqb_spec. split; [intros ->; reflexivity|apply labs_inj; assumption].
Qed.
(* invert: the generated addition chain raises to p - 2, refuses exactly zero, and is the field inverse *)
Theorem C07_limbs_invert : forall a : limbs, lvalid a ->
  match linvert a with
  | None => labs a = fzero
  | Some r => lvalid r /\ labs a <> fzero /\ labs r = finv (labs a)
  end.
Proof. exact linvert_correct. Qed.
Theorem C07_limbs_invert_chain : chain_exp invert_chain = p - 2 /\ chain_exp sqrt_chain = (p + 1) / 4.
Proof. split; [exact invert_chain_exp|exact sqrt_chain_exp]. Qed.
(* sqrt: candidate a^((p+1)/4) through the generated chain, accepted iff it squares to the argument *)
Theorem C07_limbs_sqrt : forall a : limbs, lvalid a ->
  match lsqrt a with
  | None => fsqrt (labs a) = None
  | Some r => lvalid r /\ fsqrt (labs a) = Some (labs r)
  end.
Proof. exact lsqrt_correct. Qed.
(* Montgomery reduction itself: for any six limbs whose value is below p * 2^192 *)
Theorem C07_limbs_mont_reduce : forall r0 r1 r2 r3 r4 r5,
  wf64 r0 -> wf64 r1 -> wf64 r2 -> wf64 r3 -> wf64 r4 -> wf64 r5 ->
  val6 r0 r1 r2 r3 r4 r5 < p * (W * W * W) ->
  let r := gl_mont_reduce r0 r1 r2 r3 r4 r5 in
  lwf r /\ lval r < p /\ exists K, lval r * (W * W * W) = val6 r0 r1 r2 r3 r4 r5 + K * p.
Proof. exact mont_reduce_spec. Qed.
(* to_repr writes the canonical integer of the represented element; from_repr accepts exactly the limbs below p and
   returns the element they spell; From<u64>; one round of `random` *)
Theorem C07_limbs_to_repr : forall a : limbs, lvalid a -> lvalid (lto_canon a) /\ lval (lto_canon a) = val (labs a).
Proof. exact lto_canon_correct. Qed.
Theorem C07_limbs_from_repr : forall r : limbs, lwf r ->
  match lfrom_canon r with
  | Some t => lval r < p /\ lvalid t /\ labs t = mkfp (lval r)
  | None => p <= lval r
  end.
Proof. exact lfrom_canon_correct. Qed.
Theorem C07_limbs_from_u64 : forall v, wf64 v -> lvalid (lfrom_u64 v) /\ labs (lfrom_u64 v) = mkfp v.
Proof. exact lfrom_u64_correct. Qed.
Theorem C07_limbs_random : forall w0 w1 w2 t, wf64 w0 -> wf64 w1 -> wf64 w2 ->
  lrandom_round w0 w1 w2 = Some t -> lvalid t /\ t = (w0, w1, Z.land w2 1).
Proof. exact lrandom_round_correct. Qed.
(* the constants the macro computed from the three attributes mean what the PrimeField interface says *)
Theorem C07_limbs_constants :
  lval R = W3 mod p /\ lval R2 = (W3 * W3) mod p /\ (INV * 12451 + 1) mod W = 0 /\
  lvalid TWO_INV /\ labs TWO_INV = f_two_inv /\ lvalid GENERATOR /\ labs GENERATOR = f_gen /\
  lvalid ROOT_OF_UNITY /\ labs ROOT_OF_UNITY = f_rou /\ lvalid ROOT_OF_UNITY_INV /\ labs ROOT_OF_UNITY_INV = f_rou_inv /\
  lvalid DELTA /\ labs DELTA = f_delta /\ GEN_S = f_S /\ GEN_MODULUS_BITS = f_num_bits /\
  lval MODULUS_LIMBS = Params.modulus /\ Params.fp_limbs = 3%nat.
Proof. exact limb_constants. Qed.
(* non-vacuity: the premises are met by concrete limbs (ONE and TWO_INV in Montgomery form) *)
Example C07_limbs_nonvacuous : lvalid lone /\ lvalid TWO_INV /\ lmul lone TWO_INV = TWO_INV /\ ladd TWO_INV TWO_INV = lone.
Proof.
  split; [exact lone_valid|]. split; [apply limb_constants|]. split; vm_compute; reflexivity.
Qed.
(* pow_vartime: square-and-multiply over the exponent's u64 words (least significant word first) *)
Theorem C07_limbs_pow_vartime : forall (a : limbs) (exp : list Z), lvalid a -> Forall wf64 exp ->
  lvalid (lpow_vartime a exp) /\ labs (lpow_vartime a exp) = fpow (labs a) (words_val exp).
Proof. exact lpow_vartime_correct. Qed.

(* the 24-byte codec of the limb code, byte for byte the big-integer codec *)
Theorem C07_limbs_to_repr_bytes : forall a : limbs, lvalid a -> lto_repr a = to_repr (labs a).
Proof. exact lto_repr_correct. Qed.
Theorem C07_limbs_from_repr_bytes : forall bs : bytes, wf bs ->
  match lfrom_repr bs, from_repr bs with
  | Some t, Some x => lvalid t /\ labs t = x
  | None, None => True
  | _, _ => False
  end.
Proof. exact lfrom_repr_correct. Qed.
(* lifting: every expression over the operators of the type (variables are any limbs below the modulus) evaluates in the
   limb code to the Montgomery form of its big-integer value, and fails (invert of zero, an out-of-range u64) exactly when
   the big-integer evaluation does *)
Theorem C07_limbs_lift : forall (env : list limbs) (e : fexpr), Forall lvalid env ->
  orel (eval_l env e) (eval_f (map labs env) e).
Proof. exact eval_lift. Qed.

(* impl Ord for Fp (generated): the order of the canonical integers *)
Theorem C07_limbs_ord : forall a b : limbs, lvalid a -> lvalid b -> lcmp a b = (val (labs a) ?= val (labs b)).
Proof. exact lcmp_correct. Qed.
