(* C04  Tags and keys are a function of exactly (measurement, epoch, threshold).  Statements only.
   Injectivity is in reduction form: equal outputs mean equal inputs or an explicit pair of different
   argument lists (key, [ad_1; ...]) of the STROBE digest with equal output. *)
From Coq Require Import ZArith NArith List.
Import ListNotations.
From StarV Require Import Params Bytes Strobe Fp Shamir Adss Star StarFacts.

(* every client of one (measurement, epoch, threshold, randomness): same tag, same key (the ciphertext is
   the payload under that key), same share fields except the point; the point is the client's own *)
Theorem C04_deterministic : forall (F : list N -> list N) (m e : bytes) (t : N) (rnd : bytes)
  (clients : list (option bytes * fp)) (msgs : list message),
  star_reports F m e t rnd clients = Ok (Some msgs) ->
  exists polys, polys_from F t (sharing_of F (commune_of F t rnd)) = Ok (Some polys) /\
  Forall2 (fun mm cl =>
     mTag mm = r2 F rnd /\
     mCt mm = ct_new F (derive_ske_key F (r0 F rnd) e) (payload m (fst cl)) Params.lbl_star_encrypt /\
     aA (mShare mm) = t /\ aS (mShare mm) = evaluate polys (snd cl) /\
     aC (mShare mm) = hC (sharing_of F (commune_of F t rnd)) /\
     aD (mShare mm) = hD (sharing_of F (commune_of F t rnd)) /\
     aJ (mShare mm) = hJ (sharing_of F (commune_of F t rnd))) msgs clients.
Proof. exact reports_static. Qed.

(* the WASM entry point (share_with_local_randomness) derives the same key, tag and share *)
Theorem C04_wasm_material : forall (F : list N -> list N) (m e : bytes) (t : N) (x : fp) (k : bytes) (sh : ashare) (tg : bytes),
  wasm_material F m e t x = Ok (Some (k, sh, tg)) ->
  k = derive_ske_key F (r0 F (sample_local F m e t)) e /\ tg = r2 F (sample_local F m e t) /\
  share_at F (commune_of F t (sample_local F m e t)) x = Ok (Some sh).
Proof. exact wasm_material_spec. Qed.

(* the framing: measurement is the key, epoch and threshold are two separate operations *)
Theorem C04_framing : forall (F : list N -> list N) (m e : bytes) (t : N),
  sample_local F m e t = strobe_digest F m [e; le32 t] Params.lbl_star_sample_local.
Proof. reflexivity. Qed.

Theorem C04_randomness_injective : forall (F : list N -> list N) (m e : bytes) (t : N) (m' e' : bytes) (t' : N),
  (t < two32)%N -> (t' < two32)%N ->
  sample_local F m e t = sample_local F m' e' t' ->
  (m, e, t) = (m', e', t') \/ DigestCollision F Params.lbl_star_sample_local.
Proof. exact sample_local_injective. Qed.
Theorem C04_tag_injective : forall (F : list N -> list N) (rnd rnd' : bytes),
  r2 F rnd = r2 F rnd' -> rnd = rnd' \/ DigestCollision F Params.lbl_star_derive_randoms.
Proof. exact tag_injective. Qed.
Theorem C04_key_seed_injective : forall (F : list N -> list N) (rnd rnd' : bytes),
  r0 F rnd = r0 F rnd' -> rnd = rnd' \/ DigestCollision F Params.lbl_star_derive_randoms.
Proof. exact r0_injective. Qed.
Theorem C04_key_injective : forall (F : list N -> list N) (r e r' e' : bytes),
  derive_ske_key F r e = derive_ske_key F r' e' ->
  (r, e) = (r', e') \/ TruncatedDigestCollision F Params.lbl_star_derive_ske_key Params.star_key_len.
Proof. exact key_injective. Qed.
