(* C02  Sub-threshold confidentiality.  Statements only.  The counting and the information-theoretic
   parts are unconditional; "never returns another secret" is in reduction form (MacCoincidence);
   pseudo-randomness of the coefficients and "not in the clear" are measured by the check, not proved. *)
From Coq Require Import ZArith NArith List.
Import ListNotations.
From StarV Require Import Params Bytes Strobe Fp PolyDefs Shamir Adss FieldFacts Lagrange ShamirFacts AdssFacts.

(* fewer distinct points than the threshold recorded in the first share: refused, whatever else is there
   (repeats and foreign shares do not add distinct points of this polynomial; they only count as points) *)
Theorem C02_count : forall (F : list N -> list N) (s : ashare) (rest : list ashare),
  (N.of_nat (length (dedup [] (map aS (s :: rest)))) < aA s)%N -> arecover F (s :: rest) = Err.
Proof. exact arecover_too_few. Qed.
Theorem C02_zero_threshold : forall (F : list N -> list N) (s : ashare) (rest : list ashare),
  aA s = 0%N -> arecover F (s :: rest) = Err.
Proof. exact arecover_zero_threshold. Qed.

(* a threshold field rewritten to t' (so that fewer points are interpolated), or foreign points mixed in:
   whatever is returned is authenticated under the REWRITTEN threshold, so it is the original sharing only
   if t' = t; otherwise two different sharings share a MAC *)
Theorem C02_forged_threshold : forall (F : list N -> list N) (c : commune) (x : fp) (polys : list (list fp))
  (t' : N) (rest : list ashare) (c' : commune),
  polys_from F (cA c) (sharing_of F c) = Ok (Some polys) ->
  arecover F ({| aA := t'; aS := evaluate polys x; aC := hC (sharing_of F c); aD := hD (sharing_of F c);
                 aJ := hJ (sharing_of F c) |} :: rest) = Ok c' ->
  cA c' = t' /\ (t' <> cA c -> MacCoincidence F c c').
Proof. exact forged_threshold. Qed.

(* the polynomial: exactly t coefficients, constant term the key element, the others consecutive draws *)
Theorem C02_poly_structure : forall (St : Type) (next64 : St -> St * N) (fuel : nat) (t : N)
  (secret : bytes) (s s' : St) (polys : list (list fp)),
  dealer_rng St next64 fuel t secret s = (s', Ok (Some polys)) ->
  Forall (fun pl => length pl = S (N.to_nat (t - 1))) polys /\
  draw_n St next64 fuel (length (chunks24 secret) * N.to_nat (t - 1)) s
    = (s', Some (concat (map (@removelast fp) polys))).
Proof.
  intros St next64 fuel t secret s s' polys H.
  destruct (deal_polys_spec St next64 fuel t (chunks24 secret) s s' polys H) as (_ & A & _ & B). split; assumption.
Qed.

(* Shamir's perfect secrecy, algebraic form, over the proved field Fp: any collection of shares at distinct
   non-zero points that is one short (or more) is consistent with EVERY candidate secret s' - there is a
   polynomial with at most (number of shares + 1) coefficients, constant term s', through all of them;
   (peval: coefficients lowest degree first; the code's Horner order is its reverse, Lagrange.horner_rev) *)
Theorem C02_perfect_secrecy : forall (pts : list fp) (y : fp -> fp) (s' : fp), NoDup pts -> ~ In fzero pts ->
  exists cs, (length cs <= S (length pts))%nat /\ peval fp fzero fadd fmul cs fzero = s' /\
             forall a, In a pts -> peval fp fzero fadd fmul cs a = y a.
Proof. exact (any_secret_consistent fp fzero fone fadd fmul fsub fopp fdiv finv feqb fp_field feqb_eq). Qed.
(* and t points determine the polynomial: two polynomials of at most t coefficients that agree on t distinct
   points agree everywhere *)
Theorem C02_t_points_determine : forall (pts cs cs' : list fp), NoDup pts ->
  (length cs <= length pts)%nat -> (length cs' <= length pts)%nat ->
  (forall a, In a pts -> peval fp fzero fadd fmul cs a = peval fp fzero fadd fmul cs' a) ->
  forall x, peval fp fzero fadd fmul cs x = peval fp fzero fadd fmul cs' x.
Proof. exact (interpolation_unique fp fzero fone fadd fmul fsub fopp fdiv finv feqb fp_field feqb_eq). Qed.
