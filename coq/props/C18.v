(* C18  Reference aggregation server.  Statements only (any permutation F with byte-valued output).
   "exactly the associated data attached" is FALSE for empty associated data (refutation proved; known
   finding C18/empty-aux).  Worker-thread independence is rayon's contract: the model is sequential and the
   check compares it with the Rust under pools of 1..16 threads and shuffled inputs. *)
From Coq Require Import ZArith NArith List.
Import ListNotations.
From StarV Require Import Params Bytes Strobe Fp Shamir Adss Star Wasm FieldFacts AdssFacts CodecFacts StarFacts WasmFacts.

(* one bucket of honest reports of a measurement with t distinct share points yields that measurement with,
   per client, the associated data it attached (empty associated data reported as absent) *)
Theorem C18_bucket : forall (F : list N -> list N), (forall l, wf (F l)) ->
  forall (m e : bytes) (t : N) (rnd : bytes) (clients : list (option bytes * fp)) (msgs : list message),
  (1 <= t < two32)%N -> fits32 m -> Forall (client_ok m) clients -> clients <> [] ->
  star_reports F m e t rnd clients = Ok (Some msgs) ->
  (t <= N.of_nat (length (nodup fp_eq_dec (map snd clients))))%N ->
  agg_bucket F e msgs = Ok (m, map (fun cl => norm_aux (fst cl)) clients).
Proof. exact agg_bucket_honest. Qed.

(* the output is one entry per tag bucket of at least `threshold` reports *)
Theorem C18_structure : forall (F : list N -> list N) (t : N) (epoch : bytes) (msgs : list message),
  aggregate F t epoch msgs =
  all_ok (map (fun b => agg_bucket F epoch (snd b))
              (filter (fun b => (t <=? N.of_nat (length (snd b)))%N) (collect msgs))).
Proof. reflexivity. Qed.

(* the buckets: one per distinct tag, in the order tags are first seen, each holding exactly the reports
   that carry the tag, in input order (so a measurement appears at most once, and none of its reports is lost
   or duplicated) *)
Theorem C18_buckets : forall msgs : list message,
  collect msgs = map (fun T => (T, filter (has_tag T) msgs)) (first_tags msgs).
Proof. exact collect_spec. Qed.
Theorem C18_tags_once : forall msgs : list message,
  NoDup (first_tags msgs) /\ (forall T, ~ In T (first_tags msgs) -> filter (has_tag T) msgs = []).
Proof. exact first_tags_inv. Qed.

Theorem C18_exact_aux_refuted : exists (m : bytes) (aux : option bytes),
  parse_payload (payload m aux) = Ok (m, None) /\ aux <> None.
Proof. exact exact_aux_refuted. Qed.
Theorem C18_lenient_payload : forall (m : bytes) (aux : option bytes), fits32 m ->
  match aux with Some a => fits32 a | None => True end ->
  parse_payload (payload m aux) = Ok (m, norm_aux aux).
Proof. exact parse_payload_lenient. Qed.
