(* C18  Reference aggregation server.  Statements only (any permutation F with byte-valued output).
   "exactly the associated data attached" is FALSE for empty associated data (refutation proved; known
   finding C18/empty-aux).  Worker-thread independence is rayon's contract: the model is sequential and the
   check compares it with the Rust under pools of 1..16 threads and shuffled inputs. *)
From Coq Require Import ZArith NArith List Permutation.
Import ListNotations.
From StarV Require Import Params Bytes Strobe Fp Shamir Adss Star Wasm FieldFacts AdssFacts CodecFacts StarFacts WasmFacts.

(* one bucket of honest reports of a measurement with t distinct share points yields that measurement with,
   per client, the associated data it attached (empty associated data reported as absent) *)
Theorem C18_bucket : forall (F : list N -> list N), (forall l, wf (F l)) ->
  forall (m e : bytes) (t : N) (rnd : bytes) (clients : list (option bytes * fp)) (msgs : list message),
  (1 <= t < two32)%N -> fits32 m -> Forall (client_ok m) clients -> clients <> [] ->
  star_reports F m e t rnd clients = Ok (Some msgs) ->
  (t <= N.of_nat (length (nodup fp_eq_dec (map snd clients))))%N ->
  agg_bucket F e msgs = Ok (m, map (fun cl => norm_aux (fst cl)) clients).
Proof. exact agg_bucket_honest. Qed.

(* the output is one entry per tag bucket of at least `threshold` reports *)
Theorem C18_structure : forall (F : list N -> list N) (t : N) (epoch : bytes) (msgs : list message),
  aggregate F t epoch msgs =
  all_ok (map (fun b => agg_bucket F epoch (snd b))
              (filter (fun b => (t <=? N.of_nat (length (snd b)))%N) (collect msgs))).
Proof. reflexivity. Qed.

(* the buckets: one per distinct tag, in the order tags are first seen, each holding exactly the reports
   that carry the tag, in input order (so a measurement appears at most once, and none of its reports is lost
   or duplicated) *)
Theorem C18_buckets : forall msgs : list message,
  collect msgs = map (fun T => (T, filter (has_tag T) msgs)) (first_tags msgs).
Proof. exact collect_spec. Qed.
Theorem C18_tags_once : forall msgs : list message,
  NoDup (first_tags msgs) /\ (forall T, ~ In T (first_tags msgs) -> filter (has_tag T) msgs = []).
Proof. exact first_tags_inv. Qed.

(* THE statement: every report honest, groups told apart by their tags, every group that reaches the threshold
   has t distinct share points.  Then the output is, in the order tags are first seen, exactly one entry per
   group with at least t reports, carrying that group's measurement and, per client in input order, the
   associated data it attached (empty reported as absent); groups below the threshold contribute nothing *)
Theorem C18_aggregate : forall (F : list N -> list N), (forall l, wf (F l)) -> forall (e : bytes) (t : N) (items : list item),
  (1 <= t < two32)%N ->
  Forall (fun it => fits32 (gm (fst it)) /\ client_ok (gm (fst it)) (snd it) /\
                    polys_from F t (sharing_of F (commune_of F t (grnd (fst it)))) = Ok (Some (gpolys (fst it)))) items ->
  (forall a b, In a items -> In b items -> itag F a = itag F b -> fst a = fst b) ->
  (forall T, qualifies F t items T = true ->
     (t <= N.of_nat (length (nodup fp_eq_dec (map snd (clients_of F items T)))))%N) ->
  aggregate F t e (map (imsg F e t) items) =
  Ok (map (fun T => (gm_of F items T, map (fun cl => norm_aux (fst cl)) (clients_of F items T)))
          (filter (qualifies F t items) (first_tags (map (imsg F e t) items)))).
Proof. exact aggregate_honest. Qed.

(* input order: a permutation of the reports leaves the set of tags, which groups qualify, and each group's
   multiset of clients unchanged - so the output is the same multiset of (measurement, multiset of aux) *)
Theorem C18_perm_tags : forall l l' : list message, Permutation l l' -> Permutation (first_tags l) (first_tags l').
Proof. exact first_tags_perm. Qed.
Theorem C18_perm_clients : forall (F : list N -> list N) (items items' : list item) (T : bytes),
  Permutation items items' -> Permutation (clients_of F items T) (clients_of F items' T).
Proof. exact clients_perm. Qed.
Theorem C18_perm_qualifies : forall (F : list N -> list N) (t : N) (items items' : list item) (T : bytes),
  Permutation items items' -> qualifies F t items T = qualifies F t items' T.
Proof. exact qualifies_perm. Qed.

(* ... as ONE statement: for honest reports (premises of C18_aggregate), any permutation of the input gives an
   output whose entries are a permutation of the original entries, each with the same measurement and a
   permutation of its associated data *)
From StarV Require Import AggPerm.
Theorem C18_order_independent : forall (F : list N -> list N), (forall l, wf (F l)) ->
  forall (e : bytes) (t : N) (items items' : list item),
  (1 <= t < two32)%N -> honest_items F t items -> Permutation items items' ->
  aggregate F t e (map (imsg F e t) items) = Ok (out_of F e t items) /\
  aggregate F t e (map (imsg F e t) items') = Ok (out_of F e t items') /\
  out_equiv (out_of F e t items) (out_of F e t items').
Proof. exact aggregate_perm. Qed.

Theorem C18_exact_aux_refuted : exists (m : bytes) (aux : option bytes),
  parse_payload (payload m aux) = Ok (m, None) /\ aux <> None.
Proof. exact exact_aux_refuted. Qed.
Theorem C18_lenient_payload : forall (m : bytes) (aux : option bytes), fits32 m ->
  match aux with Some a => fits32 a | None => True end ->
  parse_payload (payload m aux) = Ok (m, norm_aux aux).
Proof. exact parse_payload_lenient. Qed.

(* non-vacuity of the premises of C18_aggregate / C18_order_independent: two measurements at threshold 2, the first
   reported by two clients (one without associated data), the second by one; exactly one entry comes out *)
From StarV Require Import Keccak AggExample.
Example C18_nonvacuous : honest_items keccak_bytes 2 ex_items /\
  exists o, aggregate keccak_bytes 2 ex_e (map (imsg keccak_bytes ex_e 2) ex_items) = Ok o /\ length o = 1%nat.
Proof. exact agg_nonvacuous. Qed.
