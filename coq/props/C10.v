(* C10  Puncturing removes exactly the punctured inputs; all other PRF values persist.
   For ANY tree depth n >= 1 (the code fixes 8), ANY seed type and two-way PRG, ANY two top-level seeds,
   and ANY history (list) of punctures of any length, in any order, with repetitions.  Statements only. *)
From Coq Require Import NArith Arith Bool List.
Import ListNotations.
From StarV Require Import Params Ggm GgmFacts SrvFacts.

(* after the history h, input x evaluates iff it was never punctured, and then to exactly the value it had
   on the fresh key (nv: the iterated PRG from the top-level seeds) *)
Theorem C10_history_eval : forall (Seed : Type) (prg : bool -> Seed -> Seed) (s0 s1 : Seed) (n : nat) (h : list bits) (x : bits),
  1 <= n -> Forall (fun y => length y = n) h -> length x = n ->
  geval Seed prg (fold_left (step Seed prg) h (ginit Seed s0 s1)) x
  = if in_dec_bits x h then None else Some (nv Seed prg s0 s1 x).
Proof. exact history_eval. Qed.

(* in every reachable state: puncturing a fresh input succeeds and adds exactly that input; puncturing an
   input again is refused and leaves the key unchanged *)
Theorem C10_puncture_fresh : forall (Seed : Type) (prg : bool -> Seed -> Seed) (s0 s1 : Seed) (n : nat) (g : gstate Seed) (x : bits),
  Inv Seed prg s0 s1 n g -> length x = n -> ~ In x (gPunctured Seed g) ->
  exists g', gpuncture Seed prg g x = (g', None) /\ Inv Seed prg s0 s1 n g' /\ gPunctured Seed g' = gPunctured Seed g ++ [x].
Proof. exact puncture_fresh. Qed.
Theorem C10_puncture_again : forall (Seed : Type) (prg : bool -> Seed -> Seed) (s0 s1 : Seed) (n : nat) (g : gstate Seed) (x : bits),
  Inv Seed prg s0 s1 n g -> length x = n -> In x (gPunctured Seed g) ->
  gpuncture Seed prg g x = (g, Some NoPrefixFound).
Proof. exact puncture_again. Qed.
Theorem C10_reachable_invariant : forall (Seed : Type) (prg : bool -> Seed -> Seed) (s0 s1 : Seed) (n : nat) (h : list bits),
  1 <= n -> Forall (fun x => length x = n) h ->
  Inv Seed prg s0 s1 n (fold_left (step Seed prg) h (ginit Seed s0 s1)) /\
  (forall y, In y (gPunctured Seed (fold_left (step Seed prg) h (ginit Seed s0 s1))) <-> In y h).
Proof. exact history_inv. Qed.

(* inputs of the wrong length are refused without touching the key *)
Theorem C10_wrong_length : forall (Seed : Type) (prg : bool -> Seed -> Seed) (g : gstate Seed) (input : list N),
  length input <> Params.ggm_inp_len ->
  ggm_eval Seed prg g input = inr BadInputLength /\ ggm_puncture Seed prg g input = (g, Some BadInputLength).
Proof.
  intros Seed prg g input H. unfold ggm_eval, ggm_puncture.
  destruct (Nat.eqb (length input) Params.ggm_inp_len) eqn:E; [apply Nat.eqb_eq in E; contradiction|split; reflexivity].
Qed.

(* distinct inputs have distinct values unless the PRG collides on two different (bit, seed) pairs
   (or the two top-level seeds coincide) *)
Theorem C10_distinct : forall (Seed : Type) (prg : bool -> Seed -> Seed) (s0 s1 : Seed)
  (eqs : forall a b : Seed, {a = b} + {a <> b}) (x y : bits),
  x <> [] -> length x = length y -> nv Seed prg s0 s1 x = nv Seed prg s0 s1 y ->
  x = y \/ PrgCollision Seed prg \/ s0 = s1.
Proof. exact values_distinct. Qed.

(* the code's instance: one input byte = depth 8, through the byte interface with its length check *)
Theorem C10_code_depth : forall (Seed : Type) (prg : bool -> Seed -> Seed) (s0 s1 : Seed) (h : list N) (x : N),
  ggm_eval Seed prg (fold_left (bpunct Seed prg) h (ginit Seed s0 s1)) [x] =
    if in_dec_bits (md_bits x) (map md_bits h) then inr NoPrefixFound
    else inl (Some (nv Seed prg s0 s1 (md_bits x))).
Proof. exact ggm_bytes_history. Qed.
Theorem C10_bytes_are_distinct_inputs : forall a b : N, (a < 256)%N -> (b < 256)%N -> md_bits a = md_bits b -> a = b.
Proof. exact md_bits_inj. Qed.

(* the byte interface of the code: 8 bits per input byte, least significant first *)
Theorem C10_input_bits : input_bits [5%N] = [true; false; true; false; false; false; false; false].
Proof. reflexivity. Qed.
