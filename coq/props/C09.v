(* C09  Data from other parties never crashes the receiver.  The model marks every place where the
   Rust would panic (slice index out of range, unwrap) with the outcome Panic; these theorems say that
   outcome is unreachable, for every input.  Statements only. *)
From Coq Require Import ZArith NArith List.
Import ListNotations.
From StarV Require Import Params Bytes Fp Shamir Adss Star FieldFacts ShamirFacts AdssFacts CodecFacts.

Theorem C09_load_bytes : forall bs : bytes, load_bytes bs <> Panic.
Proof. exact load_bytes_total. Qed.
Theorem C09_sharks_share : forall bs : bytes, share_from_bytes bs <> Panic.
Proof. exact share_from_bytes_total. Qed.
Theorem C09_adss_share : forall bs : bytes, ashare_from_bytes bs <> Panic.
Proof. exact ashare_from_bytes_total. Qed.
Theorem C09_report : forall bs : bytes, message_from_bytes bs <> Panic.
Proof. exact message_from_bytes_total. Qed.
Theorem C09_sharks_recover : forall (t : N) (shs : list share), Shamir.recover t shs <> Panic.
Proof. exact recover_never_panics. Qed.
(* any list of shares: no y coordinates, thresholds 0 and 2^32-1, anything *)
Theorem C09_adss_recover : forall (F : list N -> list N) (shs : list ashare), arecover F shs <> Panic.
Proof. exact arecover_never_panics. Qed.

(* the WASM grouping call: any string of share fields, any epoch *)
From StarV Require Import Strobe Wasm WasmFacts Ppoprf.
Theorem C09_group_shares : forall (F : list N -> list N) (ser epoch : bytes), group_shares F ser epoch <> Panic.
Proof. exact group_shares_total. Qed.

(* The ppoprf loaders, Server::eval and Client::verify are modelled as functions into sums / options / bool with
   no Panic alternative (after the fix commits the Rust has no unwrap left on those paths; the malformed streams
   are run under catch_unwind on every check).  One function that consumes another party's data is different:
   Client::unblind returns a bare point and unwraps the decompression of the server's answer, so it panics on an
   undecodable evaluation output.  Refuted clause, listed as known finding C09/unblind-undecodable (a repair has
   to change the function's signature, which the existing tests call). *)
Theorem C09_unblind_refuted : forall (G : grp) (p : bytes) (r : Z), g_valid G p = false -> client_unblind G p r = Panic.
Proof. intros G p r H. unfold client_unblind. rewrite H. reflexivity. Qed.
Theorem C09_unblind_only_then : forall (G : grp) (p : bytes) (r : Z), g_valid G p = true -> client_unblind G p r <> Panic.
Proof. intros G p r H. unfold client_unblind. rewrite H. discriminate. Qed.
