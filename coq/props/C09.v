(* C09  Data from other parties never crashes the receiver.  The model marks every place where the
   Rust would panic (slice index out of range, unwrap) with the outcome Panic; these theorems say that
   outcome is unreachable, for every input.  Statements only. *)
From Coq Require Import ZArith NArith List.
Import ListNotations.
From StarV Require Import Params Bytes Fp Shamir Adss Star FieldFacts ShamirFacts AdssFacts CodecFacts.

Theorem C09_load_bytes : forall bs : bytes, load_bytes bs <> Panic.
Proof. exact load_bytes_total. Qed.
Theorem C09_sharks_share : forall bs : bytes, share_from_bytes bs <> Panic.
Proof. exact share_from_bytes_total. Qed.
Theorem C09_adss_share : forall bs : bytes, ashare_from_bytes bs <> Panic.
Proof. exact ashare_from_bytes_total. Qed.
Theorem C09_report : forall bs : bytes, message_from_bytes bs <> Panic.
Proof. exact message_from_bytes_total. Qed.
Theorem C09_sharks_recover : forall (t : N) (shs : list share), Shamir.recover t shs <> Panic.
Proof. exact recover_never_panics. Qed.
(* any list of shares: no y coordinates, thresholds 0 and 2^32-1, anything *)
Theorem C09_adss_recover : forall (F : list N -> list N) (shs : list ashare), arecover F shs <> Panic.
Proof. exact arecover_never_panics. Qed.
