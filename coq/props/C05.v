(* C05  Authenticated recovery: the result is the shared message or an error, never else.  Statements only.
   The clause that rests on the MAC is in reduction form: either the property's conclusion, or an explicit
   pair of DIFFERENT sharings (T, t, M, R) with EQUAL 64-byte STROBE MACs. *)
From Coq Require Import ZArith NArith List.
Import ListNotations.
From StarV Require Import Params Bytes Strobe Fp Shamir Adss FieldFacts ShamirFacts AdssFacts.

(* ANY collection whose first share is an honest share of the sharing c: Ok c' implies c' = c *)
Theorem C05_authentic : forall (F : list N -> list N) (c : commune) (x : fp) (polys : list (list fp))
  (rest : list ashare) (c' : commune),
  polys_from F (cA c) (sharing_of F c) = Ok (Some polys) ->
  arecover F (mk_share (cA c) (sharing_of F c) polys x :: rest) = Ok c' ->
  c' = c \/ MacCoincidence F c c'.
Proof. exact recover_authentic. Qed.

(* stronger: the authentication tag alone binds the result.  ANY first share carrying the tag of the sharing c -
   with its threshold, point, value, encrypted message or encrypted coins altered in any way - recovers c itself
   or exhibits a MAC coincidence; it never yields another message *)
Theorem C05_honest_tag_binds : forall (F : list N -> list N) (c : commune) (s : ashare) (rest : list ashare) (c' : commune),
  aJ s = snd (send_mac F (transcript_of F c) Params.mac_length) ->
  arecover F (s :: rest) = Ok c' -> c' = c \/ MacCoincidence F c c'.
Proof. exact honest_tag_binds. Qed.

(* whatever is recovered carries a MAC that verifies: for an ARBITRARY first share *)
Theorem C05_recovered_is_authenticated : forall (F : list N -> list N) (s : ashare) (rest : list ashare) (c' : commune),
  arecover F (s :: rest) = Ok c' ->
  cT c' = None /\ cA c' = aA s /\ verify F c' (aJ s) = true.
Proof.
  intros F s rest c' H. destruct (arecover_ok_inv F s rest c' H) as (A & B & C & _). repeat split; assumption.
Qed.

(* an altered authentication tag on the supplying share is always rejected *)
Theorem C05_tamper_J : forall (F : list N -> list N) (s : ashare) (rest : list ashare) (c' : commune) (J' : bytes),
  arecover F (s :: rest) = Ok c' -> length J' = Params.mac_length -> J' <> aJ s -> length (aJ s) = Params.mac_length ->
  arecover F ({| aA := aA s; aS := aS s; aC := aC s; aD := aD s; aJ := J' |} :: rest) = Err.
Proof. exact arecover_tamper_J. Qed.

(* threshold, encrypted message, encrypted coins and tag of non-first shares are ignored *)
Theorem C05_nonfirst_fields_ignored : forall (F : list N -> list N) (s : ashare) (rest rest' : list ashare),
  map aS rest = map aS rest' -> arecover F (s :: rest) = arecover F (s :: rest').
Proof. exact arecover_nonfirst_ignored. Qed.

(* mechanism of the known finding C05/empty-sharing: when the first share carries empty C and D, the outcome does
   not depend on the interpolated key (so altered points / values cannot be noticed); the result is still the
   shared (empty) message or an error *)
Theorem C05_empty_sharing_key_unbound : forall (F : list N -> list N) (s : ashare) (rest : list ashare) (keyb : bytes),
  aC s = [] -> aD s = [] -> Shamir.recover (aA s) (map aS (s :: rest)) = Ok keyb ->
  (Params.adss_key_take <= length keyb)%nat ->
  arecover F (s :: rest) =
    if verify F {| cA := aA s; cM := []; cR := []; cT := None |} (aJ s)
    then Ok {| cA := aA s; cM := []; cR := []; cT := None |} else Err.
Proof. exact arecover_empty_key_unbound. Qed.

(* the general mechanism behind both known findings' acceptance of an altered point / value: the key is bound only
   through the plaintexts it yields.  If the first shares agree except for point and value and the two interpolated
   keys decrypt (C, D) alike, the outcomes are equal; for n = |C| + |D| bytes a wrong key does so with probability
   about 2^(-8n) - certainly for n = 0, once in 256 for a one-byte message without coins, negligibly from 16 bytes on *)
Theorem C05_key_bound_through_plaintext : forall (F : list N -> list N) (s s' : ashare) (rest rest' : list ashare) (keyb keyb' : bytes),
  aA s = aA s' -> aC s = aC s' -> aD s = aD s' -> aJ s = aJ s' ->
  Shamir.recover (aA s) (map aS (s :: rest)) = Ok keyb -> Shamir.recover (aA s') (map aS (s' :: rest')) = Ok keyb' ->
  (Params.adss_key_take <= length keyb)%nat -> (Params.adss_key_take <= length keyb')%nat ->
  adec F (firstn Params.adss_key_take keyb) (aC s) (aD s) = adec F (firstn Params.adss_key_take keyb') (aC s) (aD s) ->
  arecover F (s :: rest) = arecover F (s' :: rest').
Proof. exact arecover_key_via_plaintext. Qed.

Theorem C05_never_panics : forall (F : list N -> list N) (shs : list ashare), arecover F shs <> Panic.
Proof. exact arecover_never_panics. Qed.
