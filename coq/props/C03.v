(* C03  Associated data stays confidential below threshold (no keystream reuse).
   The keystream clause is FALSE of the code as it stands: the refutation is proved here and the
   finding is listed in known_findings.json (C03/keystream-first-block).  Statements only. *)
From Coq Require Import ZArith NArith List.
Import ListNotations.
From StarV Require Import Params Bytes Keccak Strobe Fp Shamir Adss Star StarFacts.

(* for ANY permutation F: ciphertext byte i (i < 166, the STROBE-128 rate) is payload byte i XOR a byte
   that depends on the key and the label only *)
Theorem C03_first_block_stream : forall (F : list N -> list N) (k l p : bytes) (i : nat),
  (i < length p)%nat -> (i < rate)%nat ->
  nth i (ct_new F k p l) 0%N = N.lxor (nth i (st (ks_state F k l)) 0%N) (nth i p 0%N).
Proof. exact first_block_stream. Qed.

(* hence two payloads under one key leak their XOR in the first 166 bytes: the property's third clause fails
   for EVERY pair of reports of one measurement (same key), whatever the associated data *)
Theorem C03_keystream_reuse_refuted : forall (F : list N -> list N) (k l p1 p2 : bytes) (i : nat),
  (i < length p1)%nat -> (i < length p2)%nat -> (i < rate)%nat ->
  N.lxor (nth i (ct_new F k p1 l) 0%N) (nth i (ct_new F k p2 l) 0%N) = N.lxor (nth i p1 0%N) (nth i p2 0%N).
Proof. exact keystream_reuse. Qed.

(* and the same after any common prefix of the two payloads: the relation continues up to the end of the
   STROBE block that contains the first differing byte (the states agree until then) *)
Theorem C03_keystream_reuse_after_prefix : forall (F : list N -> list N) (k l pre p1 p2 : bytes) (i : nat),
  (pos (state_after F k l pre) + i < rate)%nat -> (i < length p1)%nat -> (i < length p2)%nat ->
  N.lxor (nth (length pre + i) (ct_new F k (pre ++ p1) l) 0%N) (nth (length pre + i) (ct_new F k (pre ++ p2) l) 0%N)
  = N.lxor (nth i p1 0%N) (nth i p2 0%N).
Proof. exact keystream_reuse_after_prefix. Qed.

(* the class of the known finding is exactly "positions below 166" *)
Theorem C03_known_class_bound : rate = 166%nat.
Proof. reflexivity. Qed.

(* the reports of one measurement do share the key: it is a function of (client randomness, epoch) only *)
Theorem C03_shared_key : forall (F : list N -> list N) (m e : bytes) (t : N) (rnd : bytes)
  (clients : list (option bytes * fp)) (msgs : list message),
  star_reports F m e t rnd clients = Ok (Some msgs) ->
  exists polys, polys_from F t (sharing_of F (commune_of F t rnd)) = Ok (Some polys) /\
  Forall2 (fun mm cl =>
     mTag mm = r2 F rnd /\
     mCt mm = ct_new F (derive_ske_key F (r0 F rnd) e) (payload m (fst cl)) Params.lbl_star_encrypt /\
     aA (mShare mm) = t /\ aS (mShare mm) = evaluate polys (snd cl) /\
     aC (mShare mm) = hC (sharing_of F (commune_of F t rnd)) /\
     aD (mShare mm) = hD (sharing_of F (commune_of F t rnd)) /\
     aJ (mShare mm) = hJ (sharing_of F (commune_of F t rnd))) msgs clients.
Proof. exact reports_static. Qed.

(* concrete witness on the real permutation: 'hi', epoch 't', two different one-byte aux *)
Example C03_witness :
  let k := derive_ske_key keccak_bytes (r0 keccak_bytes (sample_local keccak_bytes [104; 105]%N [116]%N 2)) [116]%N in
  let c1 := ct_new keccak_bytes k (payload [104; 105]%N (Some [1]%N)) Params.lbl_star_encrypt in
  let c2 := ct_new keccak_bytes k (payload [104; 105]%N (Some [2]%N)) Params.lbl_star_encrypt in
  xor_bytes c1 c2 = xor_bytes (payload [104; 105]%N (Some [1]%N)) (payload [104; 105]%N (Some [2]%N)).
Proof. vm_compute. reflexivity. Qed.
