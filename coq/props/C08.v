(* C08  Wire encodings of shares and reports round-trip and reject malformed input.  Statements only. *)
From Coq Require Import ZArith NArith List.
Import ListNotations.
From StarV Require Import Params Bytes Fp Shamir Adss Star FieldFacts ShamirFacts CodecFacts.

Theorem C08_sharks_roundtrip : forall s : share, share_from_bytes (share_to_bytes s) = Ok s.
Proof. exact share_roundtrip. Qed.
Theorem C08_chunk_roundtrip : forall (s rest : bytes), fits32 s -> load_bytes (store_bytes s ++ rest) = Ok s.
Proof. exact load_store_bytes. Qed.
Theorem C08_share_roundtrip : forall s : ashare, ashare_wf s -> ashare_from_bytes (ashare_to_bytes s) = Ok s.
Proof. exact ashare_roundtrip. Qed.
Theorem C08_report_roundtrip : forall m : message, message_wf m -> message_from_bytes (message_to_bytes m) = Ok m.
Proof. exact message_roundtrip. Qed.

(* layout facts: 4-byte little-endian prefixes, 24-byte little-endian elements *)
Theorem C08_layout_chunk : forall s : bytes,
  store_bytes s = le32 (N.of_nat (length s) mod two32) ++ s /\ length (store_bytes s) = (4 + length s)%nat.
Proof. intros s. split; [reflexivity|apply store_bytes_length]. Qed.
Theorem C08_layout_share : forall s : ashare,
  ashare_to_bytes s = le32 (aA s) ++ store_bytes (to_repr (sx (aS s)) ++ flat_map to_repr (sy (aS s)))
                        ++ store_bytes (aC s) ++ store_bytes (aD s) ++ aJ s.
Proof. reflexivity. Qed.
Theorem C08_layout_report : forall m : message,
  message_to_bytes m = store_bytes (mCt m) ++ store_bytes (ashare_to_bytes (mShare m)) ++ store_bytes (mTag m).
Proof. reflexivity. Qed.
Theorem C08_element : forall a : fp, length (to_repr a) = 24%nat /\ from_repr (to_repr a) = Some a.
Proof. intros a. split; [apply length_to_repr|apply from_to_repr]. Qed.

(* an accepted chunk is a slice of the input, delimited by its header *)
Theorem C08_chunk_accepts : forall bs s : bytes, load_bytes bs = Ok s ->
  (4 + length s <= length bs)%nat /\ s = firstn (length s) (skipn 4 bs) /\ le_of_bytes (firstn 4 bs) = N.of_nat (length s).
Proof. exact load_bytes_ok. Qed.
(* out-of-range field elements are rejected, in any position *)
Theorem C08_reject_out_of_range : forall bs : bytes,
  from_repr bs = None <-> length bs <> 24%nat \/ (p <= Z.of_N (le_of_bytes bs))%Z.
Proof. exact from_repr_none. Qed.
(* accepted strings are canonical encodings up to ignored bytes: the Shamir chunk may carry fewer than 24
   trailing bytes (a partial field element), a report may be followed by arbitrary trailing bytes; nothing
   else.  Re-encoding therefore differs from the input only by dropping those bytes and adjusting the
   enclosing length prefixes *)
Theorem C08_sharks_canon : forall (bs : bytes) (s : share), wf bs -> share_from_bytes bs = Ok s ->
  exists tail, bs = share_to_bytes s ++ tail /\ (length tail < 24)%nat.
Proof. exact share_from_bytes_canon. Qed.
Theorem C08_share_canon : forall (bs : bytes) (s : ashare), wf bs -> ashare_from_bytes bs = Ok s ->
  exists tail, (length tail < 24)%nat /\ length (aJ s) = Params.mac_length /\
    bs = le32 (aA s) ++ store_bytes (share_to_bytes (aS s) ++ tail) ++ store_bytes (aC s) ++ store_bytes (aD s) ++ aJ s.
Proof. exact ashare_from_bytes_canon. Qed.
Theorem C08_report_canon : forall (bs : bytes) (m : message), wf bs -> message_from_bytes bs = Ok m ->
  exists tail trailing, (length tail < 24)%nat /\
    bs = store_bytes (mCt m)
         ++ store_bytes (le32 (aA (mShare m)) ++ store_bytes (share_to_bytes (aS (mShare m)) ++ tail)
                         ++ store_bytes (aC (mShare m)) ++ store_bytes (aD (mShare m)) ++ aJ (mShare m))
         ++ store_bytes (mTag m) ++ trailing.
Proof. exact message_from_bytes_canon. Qed.

(* the decoders are total: malformed input is an error value, never a panic *)
Theorem C08_decoders_total : forall bs : bytes,
  load_bytes bs <> Panic /\ share_from_bytes bs <> Panic /\ ashare_from_bytes bs <> Panic /\ message_from_bytes bs <> Panic.
Proof.
  intros bs. repeat split;
    [apply load_bytes_total|apply share_from_bytes_total|apply ashare_from_bytes_total|apply message_from_bytes_total].
Qed.
