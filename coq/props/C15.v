(* C15  PPOPRF public keys and proofs survive their binary form, points and evaluations their JSON form; size
   limits.  The JSON decoder modelled is the canonical grammar only (exactly what serde_json writes); the Rust
   accepts more (whitespace, key order, a missing proof member), so the claim is one-directional there: what
   the model accepts, the Rust accepts with the same value (checked on every run).  Statements only. *)
From Coq Require Import ZArith NArith List Sorted.
Import ListNotations.
From StarV Require Import Params Bytes Strobe Ggm Ppoprf PpFacts JsonFacts.
Open Scope Z_scope.

Theorem C15_pk_roundtrip : forall pk : pubkey, pk_wf pk -> pk_from_bincode (pk_to_bincode pk) = inr pk.
Proof. exact pk_roundtrip. Qed.
Theorem C15_proof_roundtrip : forall p : proof, 0 <= pr_c p < ell -> 0 <= pr_s p < ell ->
  proof_from_bincode (proof_to_bincode p) = inr p.
Proof. exact proof_roundtrip. Qed.
(* inputs above the documented limits are refused *)
Theorem C15_pk_too_big : forall data : bytes,
  (Params.max_serialized_pk_size < N.of_nat (length data))%N -> pk_from_bincode data = inl TooBig.
Proof. exact pk_too_big. Qed.
Theorem C15_proof_too_big : forall data : bytes,
  (Params.max_serialized_proof_size < N.of_nat (length data))%N -> proof_from_bincode data = inl TooBig.
Proof. exact proof_too_big. Qed.
(* every public key (at most 256 one-byte tags) fits under the limit the source declares *)
Theorem C15_pk_fits : forall pk : pubkey,
  Forall (fun e => length (snd e) = 32%nat) (pk_md pk) -> length (pk_base pk) = 32%nat -> (length (pk_md pk) <= 256)%nat ->
  (N.of_nat (length (pk_to_bincode pk)) <= 8488)%N /\ (8488 <= Params.max_serialized_pk_size)%N.
Proof. exact pk_fits. Qed.

(* JSON forms: parsing what is written gives the value back, for every point and every evaluation with or
   without proof *)
Theorem C15_json_point_roundtrip : forall l : bytes, length l = 32%nat -> wf l -> json_point_decode (json_array l) = Some l.
Proof. exact json_point_roundtrip. Qed.
Theorem C15_json_evaluation_roundtrip : forall (out : bytes) (pr : option proof),
  length out = 32%nat -> wf out ->
  match pr with Some p => 0 <= pr_c p < ell /\ 0 <= pr_s p < ell | None => True end ->
  json_evaluation_decode (json_evaluation out pr) = Some (out, pr).
Proof. exact json_evaluation_roundtrip. Qed.
