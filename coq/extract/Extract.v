(* Extraction of the executable model to OCaml.  Only ExtrOcamlBasic is used
   (bool, option, unit, list, prod, sumbool mapped to OCaml's own types); nat, positive, N and Z
   stay the extracted inductive types. *)
From Coq Require Import Extraction ExtrOcamlBasic.
From Coq Require Import ZArith NArith List.
From StarV Require Import Params Bytes Keccak Strobe Fp LimbPrim LimbGen FpLimbs PolyDefs Shamir Adss Star Ggm Wasm Ppoprf Scenario.
Extraction Language OCaml.
Extraction "../ocaml/model.ml"
  N.of_nat N.to_nat Z.of_N Z.to_N N.add N.mul Nat.add Nat.mul
  Params.modulus Params.generator
  Bytes.le_of_bytes Bytes.bytes_of_le
  keccak_bytes
  Strobe.strobe_digest Strobe.strobe_hash
  Fp.p Fp.val Fp.mkfp Fp.fadd Fp.fsub Fp.fmul Fp.fopp Fp.fdouble Fp.fsquare Fp.finv Fp.fpow Fp.fsqrt Fp.feqb
  Fp.f_num_bits Fp.f_capacity Fp.f_S Fp.f_two_inv Fp.f_gen Fp.f_rou Fp.f_rou_inv Fp.f_delta
  Fp.to_repr Fp.from_repr Fp.fp_of_limbs Fp.powmod
  FpLimbs.ladd FpLimbs.lsub FpLimbs.lmul FpLimbs.lneg FpLimbs.ldouble FpLimbs.lsquare FpLimbs.linvert FpLimbs.lsqrt
  FpLimbs.lpow_vartime FpLimbs.lfrom_repr FpLimbs.lto_repr FpLimbs.lto_canon FpLimbs.lfrom_u64 FpLimbs.lrandom_round FpLimbs.leqb FpLimbs.lis_odd FpLimbs.lcmp
  FpLimbs.lone LimbGen.R2 LimbGen.TWO_INV LimbGen.GENERATOR LimbGen.ROOT_OF_UNITY LimbGen.ROOT_OF_UNITY_INV LimbGen.DELTA LimbGen.MODULUS_LIMBS
  Shamir.share_to_bytes Shamir.share_from_bytes Shamir.recover
  Adss.sharing_of Adss.load_bytes Adss.load_u32 Adss.store_bytes Adss.ashare_to_bytes Adss.ashare_from_bytes
  Star.wasm_material Star.message_to_bytes Star.message_from_bytes Star.parse_payload
  Scenario.sharks_deal Scenario.decode_shares Scenario.adss_shares Scenario.adss_recover Scenario.adss_coeffs
  Ggm.ginit Ggm.input_bits Scenario.ggm_run Scenario.ggm_step
  Wasm.b64_encode Wasm.b64_decode Scenario.wasm_create Scenario.wasm_group Scenario.agg_run
  Ppoprf.sc_of_bytes Ppoprf.sc_to_bytes Ppoprf.sc_canonical Ppoprf.sc_inv Ppoprf.pk_to_bincode Ppoprf.pk_from_bincode
  Ppoprf.json_evaluation Ppoprf.json_evaluation_decode Ppoprf.json_array Ppoprf.json_point_decode Ppoprf.server_to_bincode Ppoprf.server_from_bincode Ppoprf.server_okb Ppoprf.proof_to_bincode Ppoprf.proof_from_bincode Ppoprf.client_unblind Ppoprf.combined_pk
  Scenario.srv_run Scenario.srv_step Scenario.pp_server_new Scenario.pp_client_blind Scenario.pp_client_finalize Scenario.pp_client_verify Scenario.pp_hash_to_group
  Scenario.star_scenario Scenario.star_recover_from Scenario.star_derive.
