(* ppoprf/src/ggm.rs: the GGM puncturable PRF with its list of retained prefixes.
   Generic in the seed type and the two-way PRG; bit strings are in Lsb0 order. Definitions only. *)
From Coq Require Import NArith Arith Bool List.
Import ListNotations.
From StarV Require Import Params Bytes Strobe.

Definition bits := list bool.

Fixpoint starts_with (p x : bits) : bool :=
  match p, x with
  | [], _ => true
  | a :: p', b :: x' => Bool.eqb a b && starts_with p' x'
  | _ :: _, [] => false
  end.
Fixpoint bits_eqb (a b : bits) : bool :=
  match a, b with
  | [], [] => true
  | x :: a', y :: b' => Bool.eqb x y && bits_eqb a' b'
  | _, _ => false
  end.

Inductive gerr := NoPrefixFound | AlreadyPunctured | BadInputLength.

Section GGM.
Variable Seed : Type.
Variable prg : bool -> Seed -> Seed.    (* prgs[bit].eval(seed) *)

Record gstate := { gPrefixes : list (bits * Seed); gPunctured : list bits }.

Definition bit_eval (bs : bits) (s : Seed) : Seed := fold_left (fun acc b => prg b acc) bs s.

(* first retained prefix, in list order, that the input starts with *)
Definition find_prefix (pf : list (bits * Seed)) (x : bits) : option (bits * Seed) :=
  find (fun ps => starts_with (fst ps) x) pf.

Definition geval (g : gstate) (x : bits) : option Seed :=
  match find_prefix (gPrefixes g) x with
  | Some (p, sd) => Some (bit_eval (skipn (length p) x) sd)
  | None => None
  end.

(* siblings of the nodes on the path from `acc` (seed sd) down along r, root side first *)
Fixpoint sib_rec (acc : bits) (sd : Seed) (r : bits) : list (bits * Seed) :=
  match r with
  | [] => []
  | b :: r' => (acc ++ [negb b], prg (negb b) sd) :: sib_rec (acc ++ [b]) (prg b sd) r'
  end.
(* the loop of GGM::puncture pushes them from the leaf upwards *)
Definition new_prefixes (p : bits) (sd : Seed) (x : bits) : list (bits * Seed) :=
  rev (sib_rec p sd (skipn (length p) x)).

Fixpoint remove_first (p : bits) (l : list (bits * Seed)) : option (list (bits * Seed)) :=
  match l with
  | [] => None
  | e :: t => if bits_eqb (fst e) p then Some t
              else match remove_first p t with Some t' => Some (e :: t') | None => None end
  end.

Definition gpuncture (g : gstate) (x : bits) : gstate * option gerr :=
  match find_prefix (gPrefixes g) x with
  | None => (g, Some NoPrefixFound)
  | Some (p, sd) =>
      if existsb (bits_eqb p) (gPunctured g) then (g, Some AlreadyPunctured)
      else match remove_first p (gPrefixes g) with
           | Some rest => ({| gPrefixes := rest ++ new_prefixes p sd x; gPunctured := gPunctured g ++ [x] |}, None)
           | None => (g, Some NoPrefixFound)
           end
  end.

(* initial key: the two depth-1 nodes *)
Definition ginit (s0 s1 : Seed) : gstate :=
  {| gPrefixes := [([false], s0); ([true], s1)]; gPunctured := [] |}.
End GGM.

(* input bytes -> bits, Lsb0 within each byte *)
Fixpoint byte_bits (n : nat) (b : N) : bits :=
  match n with O => [] | S n' => N.odd b :: byte_bits n' (N.div2 b) end.
Definition input_bits (bs : bytes) : bits := flat_map (byte_bits 8) bs.

(* the byte-level interface with its length check *)
Section Bytes.
Variable Seed : Type.
Variable prg : bool -> Seed -> Seed.
Definition ggm_eval (g : gstate Seed) (input : bytes) : option Seed + gerr :=
  if Nat.eqb (length input) Params.ggm_inp_len then
    match geval Seed prg g (input_bits input) with Some v => inl (Some v) | None => inr NoPrefixFound end
  else inr BadInputLength.
Definition ggm_puncture (g : gstate Seed) (input : bytes) : gstate Seed * option gerr :=
  if Nat.eqb (length input) Params.ggm_inp_len then gpuncture Seed prg g (input_bits input)
  else (g, Some BadInputLength).
End Bytes.

(* the concrete PRG: Strobe "ggm eval (ppoprf)"; key; ad(seed); rng 32 *)
Definition strobe_prg (F : list N -> list N) (k0 k1 : bytes) (b : bool) (seed : bytes) : bytes :=
  snd (rng_fill F (ad F (key F (new F Params.lbl_ggm_eval) (if b then k1 else k0)) seed) Params.ggm_seed_len).
