(* adss/src/lib.rs (after the fix commits): chunk helpers, share layout, share and recover.
   Generic in the STROBE permutation F.  Definitions only. *)
From Coq Require Import ZArith NArith Bool List.
Import ListNotations.
From StarV Require Import Params Bytes Strobe Fp Shamir.

Definition store_bytes (s : bytes) : bytes := le32 (N.of_nat (length s) mod two32) ++ s.
Definition load_u32 (bs : bytes) : option N :=
  if Nat.eqb (length bs) 4 then Some (le_of_bytes bs) else None.
(* load_bytes: 4-byte header then that many bytes; None when short *)
Definition load_bytes (bs : bytes) : outcome bytes :=
  if Nat.ltb (length bs) 4 then Err
  else
    let! hd := slice_to bs 4 in
    match load_u32 hd with
    | None => Err
    | Some len =>
        if (N.of_nat (length bs - 4) <? len)%N then Err
        else slice bs 4 (4 + N.to_nat len)
    end.

Record ashare := { aA : N; aS : share; aC : bytes; aD : bytes; aJ : bytes }.

Definition ashare_to_bytes (s : ashare) : bytes :=
  le32 (aA s) ++ store_bytes (share_to_bytes (aS s)) ++ store_bytes (aC s) ++ store_bytes (aD s) ++ aJ s.

Definition ashare_from_bytes (bs : bytes) : outcome ashare :=
  if Nat.ltb (length bs) Params.access_structure_length then Err   (* slice.get(..4)? *)
  else
    let! ab := slice_to bs Params.access_structure_length in
    match load_u32 ab with
    | None => Err
    | Some a =>
      let! sl := slice_from bs Params.access_structure_length in
      let! sb := load_bytes sl in
      let! sl := slice_from sl (4 + length sb) in
      let! c := load_bytes sl in
      let! sl := slice_from sl (4 + length c) in
      let! d := load_bytes sl in
      let! sl := slice_from sl (4 + length d) in
      if Nat.eqb (length sl) Params.mac_length then
        let! s := share_from_bytes sb in
        Ok {| aA := a; aS := s; aC := c; aD := d; aJ := sl |}
      else Err
    end.

Section WithF.
Variable F : list N -> list N.

Record commune := { cA : N; cM : bytes; cR : bytes; cT : option strobe }.

Definition base_transcript (T : option strobe) : strobe :=
  match T with Some s => s | None => new F Params.lbl_adss end.
(* (A, M, R, T) absorbed into the transcript *)
Definition transcript_of (c : commune) : strobe :=
  let tr := base_transcript (cT c) in
  let tr := ad F tr (le32 (cA c)) in
  let tr := ad F tr (cM c) in
  key F tr (cR c).

(* everything Commune::share computes before the share point is drawn *)
Record sharing := { hJ : bytes; hK : bytes; hC : bytes; hD : bytes; hL : strobe }.
Definition sharing_of (c : commune) : sharing :=
  let tr := transcript_of c in
  let '(tr, J) := send_mac F tr Params.mac_length in
  let '(tr, K) := prf F tr Params.adss_key_len in
  let ks := key F (new F Params.lbl_adss_encrypt) K in
  let '(ks, C) := send_enc F ks (cM c) in
  let '(ks, D) := send_enc F ks (cR c) in
  {| hJ := J; hK := K; hC := C; hD := D; hL := tr |}.

Definition sampler_fuel : nat := 128.
(* the polynomials dealt from K || 0^16 with the transcript RNG *)
Definition polys_from (t : N) (h : sharing) : outcome (option (list (list fp))) :=
  snd (dealer_rng strobe (rng_next_u64 F) sampler_fuel t (hK h ++ zeros Params.adss_key_pad) (hL h)).
Definition polys_of (c : commune) : outcome (option (list (list fp))) := polys_from (cA c) (sharing_of c).

(* Commune::share with the share point x as an explicit input (the code draws it from OsRng) *)
Definition mk_share (t : N) (h : sharing) (polys : list (list fp)) (x : fp) : ashare :=
  {| aA := t; aS := evaluate polys x; aC := hC h; aD := hD h; aJ := hJ h |}.
(* shares at several points; the sharing and the polynomials are computed once *)
Definition shares_at (c : commune) (xs : list fp) : outcome (option (list ashare)) :=
  let h := sharing_of c in
  match polys_from (cA c) h with
  | Ok (Some polys) => Ok (Some (map (mk_share (cA c) h polys) xs))
  | Ok None => Ok None
  | Err => Err
  | Panic => Panic
  end.
Definition share_at (c : commune) (x : fp) : outcome (option ashare) :=
  match shares_at c [x] with
  | Ok (Some (s :: _)) => Ok (Some s)
  | Ok _ => Ok None
  | Err => Err
  | Panic => Panic
  end.

Definition verify (c : commune) (J : bytes) : bool := snd (recv_mac F (transcript_of c) J).

Definition arecover (shs : list ashare) : outcome commune :=
  match shs with
  | [] => Err
  | s :: _ =>
      let! keyb := Shamir.recover (aA s) (map aS shs) in
      if Nat.ltb (length keyb) Params.adss_key_take then Err   (* key.get(..16).ok_or(..)? *)
      else
        let! K := slice_to keyb Params.adss_key_take in
        let ks := key F (new F Params.lbl_adss_encrypt) K in
        let '(ks, M) := recv_enc F ks (aC s) in
        let '(ks, R) := recv_enc F ks (aD s) in
        let c := {| cA := aA s; cM := M; cR := R; cT := None |} in
        if verify c (aJ s) then Ok c else Err
  end.
End WithF.


Strategy 100 [sharing_of transcript_of polys_from shares_at arecover verify].
