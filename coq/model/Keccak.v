From Coq Require Import NArith Arith List Lia.
Import ListNotations.

Definition mask64 : N := 18446744073709551615%N.
Definition rotl64 (x : N) (n : N) : N :=
  N.land (N.lor (N.shiftl x n) (N.shiftr x (64 - n))) mask64.

Definition rc : list N := [
 0x0000000000000001; 0x0000000000008082; 0x800000000000808a; 0x8000000080008000;
 0x000000000000808b; 0x0000000080000001; 0x8000000080008081; 0x8000000000008009;
 0x000000000000008a; 0x0000000000000088; 0x0000000080008009; 0x000000008000000a;
 0x000000008000808b; 0x800000000000008b; 0x8000000000008089; 0x8000000000008003;
 0x8000000000008002; 0x8000000000000080; 0x000000000000800a; 0x800000008000000a;
 0x8000000080008081; 0x8000000000008080; 0x0000000080000001; 0x8000000080008008]%N.

Definition rho_off : list N := [
  0; 1; 62; 28; 27;
  36; 44; 6; 55; 20;
  3; 10; 43; 25; 39;
  41; 45; 15; 21; 8;
  18; 2; 61; 56; 14]%N.

Definition nth0 (l : list N) (i : nat) : N := nth i l 0%N.

Definition theta (a : list N) : list N :=
  let c := map (fun x : nat => N.lxor (N.lxor (N.lxor (N.lxor (nth0 a x) (nth0 a (x+5))) (nth0 a (x+10))) (nth0 a (x+15))) (nth0 a (x+20))) (seq 0 5) in
  let d := map (fun x : nat => N.lxor (nth0 c (Nat.modulo (x+4) 5)) (rotl64 (nth0 c (Nat.modulo (x+1) 5)) 1%N)) (seq 0 5) in
  map (fun i : nat => N.lxor (nth0 a i) (nth0 d (Nat.modulo i 5))) (seq 0 25).

Definition rho_pi (a : list N) : list N :=
  map (fun j : nat =>
         let X := (Nat.modulo j 5) in let Y := (Nat.div j 5) in
         let y := X in
         let x := (Nat.modulo (3*Y + y) 5) in
         rotl64 (nth0 a (x + 5*y)) (nth0 rho_off (x + 5*y))) (seq 0 25).

Definition chi (b : list N) : list N :=
  map (fun i : nat => let x := (Nat.modulo i 5) in let y := (Nat.div i 5) in
         N.lxor (nth0 b i)
           (N.land (N.lxor (nth0 b (Nat.modulo (x+1) 5 + 5*y)) mask64) (nth0 b (Nat.modulo (x+2) 5 + 5*y)))) (seq 0 25).

Definition iota (r : N) (a : list N) : list N :=
  match a with [] => [] | h :: t => N.lxor h r :: t end.

Definition round (a : list N) (r : N) : list N := iota r (chi (rho_pi (theta a))).
Definition keccak_f (a : list N) : list N := fold_left round rc a.


(* the permutation on the 200-byte STROBE state *)
Fixpoint chunks8 (n : nat) (bs : list N) : list (list N) :=
  match n with O => [] | S n' => firstn 8 bs :: chunks8 n' (skipn 8 bs) end.
Fixpoint le_of_bytes8 (bs : list N) : N :=
  match bs with [] => 0%N | b :: t => (b + 256 * le_of_bytes8 t)%N end.
Fixpoint bytes_of_le8 (n : nat) (v : N) : list N :=
  match n with O => [] | S n' => (v mod 256)%N :: bytes_of_le8 n' (v / 256)%N end.
Definition keccak_bytes (st : list N) : list N :=
  flat_map (bytes_of_le8 8) (keccak_f (map le_of_bytes8 (chunks8 25 st))).
