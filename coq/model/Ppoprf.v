(* ppoprf/src/ppoprf.rs over an abstract group given by its operations on 32-byte encodings (an oracle
   at run time: curve25519-dalek's ristretto255).  Scalars are integers mod ell, concrete.
   Generic in the STROBE permutation F.  Definitions only. *)
From Coq Require Import ZArith NArith Arith Bool List.
Import ListNotations.
From StarV Require Import Params Bytes Strobe Fp Ggm.
Open Scope Z_scope.

Definition ell : Z := 2 ^ 252 + 27742317777372353535851937790883648493.
Definition sc_of_bytes (bs : bytes) : Z := Z.of_N (le_of_bytes bs) mod ell.   (* from_bytes_mod_order(_wide) *)
Definition sc_to_bytes (s : Z) : bytes := bytes_of_le 32 (Z.to_N s).
Definition sc_canonical (bs : bytes) : option Z :=
  if Nat.eqb (length bs) 32 then
    let v := Z.of_N (le_of_bytes bs) in if v <? ell then Some v else None
  else None.
Definition sc_add (a b : Z) : Z := (a + b) mod ell.
Definition sc_sub (a b : Z) : Z := (a - b) mod ell.
Definition sc_mul (a b : Z) : Z := (a * b) mod ell.
(* Scalar::invert is x^(ell-2): 0 for 0 *)
Definition sc_inv (a : Z) : Z :=
  match egcd 600 ell (a mod ell) 0 1 with Some u => u mod ell | None => powmod a (ell - 2) ell end.

Inductive perr := BadTag | PNoPrefixFound | PAlreadyPunctured | PBadInputLength | TooBig | Bincode | BadPointEncoding.
Definition of_gerr (e : gerr) : perr :=
  match e with NoPrefixFound => PNoPrefixFound | AlreadyPunctured => PAlreadyPunctured | BadInputLength => PBadInputLength end.

Record grp := {
  g_valid : bytes -> bool;          (* CompressedRistretto::decompress succeeds *)
  g_mul : Z -> bytes -> bytes;      (* scalar * point, on valid encodings *)
  g_add : bytes -> bytes -> bytes;
  g_base : bytes;
  g_id : bytes;
  g_hash : bytes -> bytes           (* RistrettoPoint::from_uniform_bytes of 64 bytes *)
}.

Section PP.
Variable F : list N -> list N.
Variable G : grp.

Definition hash_to_scalar (input label : bytes) : Z := sc_of_bytes (strobe_hash F input label).

Record proof := { pr_c : Z; pr_s : Z }.

(* compute_composites: seed from the public value and the context string, then one scalar per pair *)
Definition composite_seed (b : bytes) : bytes :=
  strobe_hash F (be16 (N.of_nat Params.compressed_point_len) ++ b
                 ++ be16 (N.of_nat (length Params.pp_context_string)) ++ Params.pp_context_string) Params.lbl_pp_seed.
Definition composite_scalar (seed : bytes) (i : nat) (c d : bytes) : Z :=
  hash_to_scalar (be16 (N.of_nat (length seed)) ++ seed ++ be16 (N.of_nat i)
                  ++ be16 (N.of_nat Params.compressed_point_len) ++ c
                  ++ be16 (N.of_nat Params.compressed_point_len) ++ d) Params.lbl_pp_composite.
Fixpoint composites_loop (seed : bytes) (with_z : bool) (i : nat) (cs ds : list bytes) (m z : bytes) : bytes * bytes :=
  match cs, ds with
  | c :: cs', d :: ds' =>
      let di := composite_scalar seed i c d in
      let m' := g_add G (g_mul G di c) m in
      let z' := if with_z then g_add G (g_mul G di d) z else z in
      composites_loop seed with_z (S i) cs' ds' m' z'
  | _, _ => (m, z)
  end.
Definition compute_composites (key : option Z) (b : bytes) (cs ds : list bytes) : bytes * bytes :=
  let seed := composite_seed b in
  let '(m, z) := composites_loop seed (match key with None => true | Some _ => false end) 0 cs ds (g_id G) (g_id G) in
  match key with Some k => (m, g_mul G k m) | None => (m, z) end.

Definition challenge (pv m z t2 t3 : bytes) : Z :=
  let l := be16 (N.of_nat Params.compressed_point_len) in
  hash_to_scalar (l ++ pv ++ l ++ m ++ l ++ z ++ l ++ t2 ++ l ++ t3) Params.lbl_pp_challenge.

(* ProofDLEQ::new_batch with the nonce r as an input (the code draws it from OsRng) *)
Definition new_batch (key : Z) (pv : bytes) (ps qs : list bytes) (r : Z) : proof :=
  let '(m, z) := compute_composites (Some key) pv ps qs in
  let t2 := g_mul G r (g_base G) in
  let t3 := g_mul G r m in
  let c := challenge pv m z t2 t3 in
  {| pr_c := c; pr_s := sc_sub r (sc_mul c key) |}.
Definition verify_batch (p : proof) (pv : bytes) (ps qs : list bytes) : bool :=
  let '(m, z) := compute_composites None pv ps qs in
  let t2 := g_add G (g_mul G (pr_s p) (g_base G)) (g_mul G (pr_c p) pv) in
  let t3 := g_add G (g_mul G (pr_s p) m) (g_mul G (pr_c p) z) in
  pr_c p =? challenge pv m z t2 t3.

(* ---------- public key ---------- *)
Record pubkey := { pk_base : bytes; pk_md : list (N * bytes) }.   (* BTreeMap: sorted by tag, one entry per tag *)
Fixpoint pk_get (l : list (N * bytes)) (md : N) : option bytes :=
  match l with [] => None | (k, v) :: t => if N.eqb k md then Some v else pk_get t md end.
Fixpoint pk_insert (l : list (N * bytes)) (md : N) (v : bytes) : list (N * bytes) :=
  match l with
  | [] => [(md, v)]
  | (k, w) :: t => if N.eqb k md then (md, v) :: t else if (md <? k)%N then (md, v) :: (k, w) :: t else (k, w) :: pk_insert t md v
  end.
Definition combined_pk (pk : pubkey) (md : N) : perr + bytes :=
  match pk_get (pk_md pk) md with
  | None => inl BadTag
  | Some mdpk => if g_valid G (pk_base pk) && g_valid G mdpk then inr (g_add G (pk_base pk) mdpk) else inl BadPointEncoding
  end.

(* bincode forms *)
Definition le64 (n : N) : bytes := bytes_of_le 8 n.
Definition pk_to_bincode (pk : pubkey) : bytes :=
  pk_base pk ++ le64 (N.of_nat (length (pk_md pk))) ++ flat_map (fun e => fst e :: snd e) (pk_md pk).
Fixpoint pk_entries (fuel : nat) (n : N) (bs : bytes) (acc : list (N * bytes)) : option (list (N * bytes)) :=
  match fuel with
  | O => None
  | S f => if N.eqb n 0 then Some acc
           else match bs with
                | md :: rest => if Nat.leb 32 (length rest)
                                then pk_entries f (n - 1) (skipn 32 rest) (pk_insert acc md (firstn 32 rest))
                                else None
                | [] => None
                end
  end.
Definition pk_from_bincode (data : bytes) : perr + pubkey :=
  if (Params.max_serialized_pk_size <? N.of_nat (length data))%N then inl TooBig
  else if Nat.ltb (length data) 40 then inl Bincode
  else match pk_entries (S (length data)) (le_of_bytes (firstn 8 (skipn 32 data))) (skipn 40 data) [] with
       | Some es => inr {| pk_base := firstn 32 data; pk_md := es |}
       | None => inl Bincode
       end.
Definition proof_to_bincode (p : proof) : bytes := sc_to_bytes (pr_c p) ++ sc_to_bytes (pr_s p).
Definition proof_from_bincode (data : bytes) : perr + proof :=
  if (Params.max_serialized_proof_size <? N.of_nat (length data))%N then inl TooBig
  else if Nat.ltb (length data) 64 then inl Bincode
  else match sc_canonical (firstn 32 data), sc_canonical (firstn 32 (skipn 32 data)) with
       | Some c, Some s => inr {| pr_c := c; pr_s := s |}
       | _, _ => inl Bincode
       end.

(* ---------- server ---------- *)
Record server := { sv_key : Z; sv_pk : pubkey; sv_k0 : bytes; sv_k1 : bytes; sv_ggm : gstate bytes }.
Definition sv_prg (s : server) := strobe_prg F (sv_k0 s) (sv_k1 s).

(* Server::new given the secrets it drew *)
Fixpoint register (s0 : server) (mds : list N) (acc : list (N * bytes)) : perr + list (N * bytes) :=
  match mds with
  | [] => inr acc
  | md :: t => match ggm_eval bytes (sv_prg s0) (sv_ggm s0) [md] with
               | inl (Some tag) => register s0 t (pk_insert acc md (g_mul G (sc_of_bytes tag) (g_base G)))
               | inl None => inl PNoPrefixFound
               | inr e => inl (of_gerr e)
               end
  end.
Definition server_new (key : Z) (k0 k1 s0 s1 : bytes) (mds : list N) : perr + server :=
  let pre := {| sv_key := key; sv_pk := {| pk_base := g_mul G key (g_base G); pk_md := [] |};
                sv_k0 := k0; sv_k1 := k1; sv_ggm := ginit bytes s0 s1 |} in
  match register pre mds [] with
  | inr mdpks => inr {| sv_key := key; sv_pk := {| pk_base := g_mul G key (g_base G); pk_md := mdpks |};
                        sv_k0 := k0; sv_k1 := k1; sv_ggm := ginit bytes s0 s1 |}
  | inl e => inl e
  end.

(* Server::eval; r is the DLEQ nonce used when verifiable *)
Definition server_eval (s : server) (p : bytes) (md : N) (verifiable : bool) (r : Z) : perr + (bytes * option proof) :=
  if negb (g_valid G p) then inl BadPointEncoding
  else match pk_get (pk_md (sv_pk s)) md with
       | None => inl BadTag
       | Some _ =>
           match ggm_eval bytes (sv_prg s) (sv_ggm s) [md] with
           | inr e => inl (of_gerr e)
           | inl None => inl PNoPrefixFound
           | inl (Some tag) =>
               let tk := sc_add (sv_key s) (sc_of_bytes tag) in
               let ep := g_mul G (sc_inv tk) p in
               if verifiable then
                 match combined_pk (sv_pk s) md with
                 | inl e => inl e
                 | inr pv => inr (ep, Some (new_batch tk pv [ep] [p] r))
                 end
               else inr (ep, None)
           end
       end.
Definition server_puncture (s : server) (md : N) : server * option perr :=
  let '(g', r) := ggm_puncture bytes (sv_prg s) (sv_ggm s) [md] in
  ({| sv_key := sv_key s; sv_pk := sv_pk s; sv_k0 := sv_k0 s; sv_k1 := sv_k1 s; sv_ggm := g' |},
   match r with Some e => Some (of_gerr e) | None => None end).

(* ---------- client ---------- *)
Definition hash_to_group (input : bytes) : bytes := g_hash G (strobe_hash F input Params.lbl_pp_client_input).
Definition client_blind (input : bytes) (r : Z) : bytes := g_mul G r (hash_to_group input).
Definition client_unblind (p : bytes) (r : Z) : outcome bytes :=
  if g_valid G p then Ok (g_mul G (sc_inv r) p) else Panic.     (* p.decompress().unwrap() *)
Definition client_finalize (input : bytes) (md : N) (unblinded : bytes) : bytes :=
  firstn Params.pp_finalize_len (strobe_hash F (input ++ [md] ++ unblinded) Params.lbl_pp_finalize).
(* Client::verify after fix F4 *)
Definition client_verify (pk : pubkey) (input output : bytes) (pr : option proof) (md : N) : bool :=
  match pr with
  | None => false
  | Some p =>
      if g_valid G output && g_valid G input then
        match combined_pk pk md with
        | inr pv => verify_batch p pv [output] [input]
        | inl _ => false
        end
      else false
  end.
End PP.

(* ---------- the exported key state (feature key-sync): bincode of (oprf_key, public_key, ggm_key) ----------
   ggm_key = prgs: Vec<[u8;32]>, prefixes: Vec<(BitVec<usize,Lsb0>, Vec<u8>)>, punctured: Vec<BitVec>;
   a BitVec serialises as { order: "bitvec::order::Lsb0", head: {width: 64, index: 0}, bits: u64, data: [u64] } *)
Definition bitvec_order : bytes :=
  [98; 105; 116; 118; 101; 99; 58; 58; 111; 114; 100; 101; 114; 58; 58; 76; 115; 98; 48]%N.
Fixpoint bits_value (bs : bits) : N :=
  match bs with [] => 0%N | b :: t => ((if b then 1 else 0) + 2 * bits_value t)%N end.
Fixpoint words64 (fuel : nat) (bs : bits) : list bytes :=
  match fuel with
  | O => []
  | S f => match bs with
           | [] => []
           | _ => bytes_of_le 8 (bits_value (firstn 64 bs)) :: words64 f (skipn 64 bs)
           end
  end.
Definition bitvec_to_bincode (bs : bits) : bytes :=
  let ws := words64 (S (length bs)) bs in
  bytes_of_le 8 (N.of_nat (length bitvec_order)) ++ bitvec_order ++ [64%N; 0%N]
  ++ bytes_of_le 8 (N.of_nat (length bs)) ++ bytes_of_le 8 (N.of_nat (length ws)) ++ concat ws.
Definition vec_u8_to_bincode (b : bytes) : bytes := bytes_of_le 8 (N.of_nat (length b)) ++ b.
Definition ggm_to_bincode (k0 k1 : bytes) (g : gstate bytes) : bytes :=
  bytes_of_le 8 2 ++ k0 ++ k1
  ++ bytes_of_le 8 (N.of_nat (length (gPrefixes bytes g)))
  ++ flat_map (fun ps => bitvec_to_bincode (fst ps) ++ vec_u8_to_bincode (snd ps)) (gPrefixes bytes g)
  ++ bytes_of_le 8 (N.of_nat (length (gPunctured bytes g)))
  ++ flat_map bitvec_to_bincode (gPunctured bytes g).
Definition server_to_bincode (s : server) : bytes :=
  sc_to_bytes (sv_key s) ++ pk_to_bincode (sv_pk s) ++ ggm_to_bincode (sv_k0 s) (sv_k1 s) (sv_ggm s).

(* ---------- reading the exported key state back (bincode::deserialize::<ServerKeyState>) ----------
   A small reader: every step consumes a prefix and hands back the rest; trailing bytes after the last field are
   allowed (bincode::deserialize does not reject them).  Lengths are compared as N before any conversion to nat. *)
Definition rd_bytes (n : nat) (s : bytes) : option (bytes * bytes) :=
  if Nat.leb n (length s) then Some (firstn n s, skipn n s) else None.
Definition rd_u64 (s : bytes) : option (N * bytes) :=
  match rd_bytes 8 s with Some (b, r) => Some (le_of_bytes b, r) | None => None end.
Fixpoint bits_of_value (n : nat) (v : N) : bits :=
  match n with O => [] | S k => N.odd v :: bits_of_value k (v / 2) end.
Fixpoint rd_words (n : nat) (nbits : nat) (s : bytes) : option (bits * bytes) :=
  match n with
  | O => Some ([], s)
  | S k => match rd_u64 s with
           | None => None
           | Some (w, r) => match rd_words k (nbits - 64) r with
                            | None => None
                            | Some (bs, r') => Some (bits_of_value (Nat.min 64 nbits) w ++ bs, r')
                            end
           end
  end.
Definition bitvec_from_bincode (s : bytes) : option (bits * bytes) :=
  match rd_u64 s with
  | None => None
  | Some (ol, s1) =>
      if negb (N.eqb ol (N.of_nat (length bitvec_order))) then None else
      match rd_bytes (length bitvec_order) s1 with
      | None => None
      | Some (o, s2) =>
          if negb (bytes_eqb o bitvec_order) then None else
          match rd_bytes 2 s2 with
          | None => None
          | Some (hd, s3) =>
              if negb (bytes_eqb hd [64%N; 0%N]) then None else
              match rd_u64 s3 with
              | None => None
              | Some (nb, s4) =>
                  match rd_u64 s4 with
                  | None => None
                  | Some (nw, s5) =>
                      (* the word count must be the one the bit count needs, and the words must be present *)
                      if negb (N.eqb nw ((nb + 63) / 64)) then None
                      else if (N.of_nat (length s5) <? 8 * nw)%N then None
                      else rd_words (N.to_nat nw) (N.to_nat nb) s5
                  end
              end
          end
      end
  end.
Definition vec_u8_from_bincode (s : bytes) : option (bytes * bytes) :=
  match rd_u64 s with
  | None => None
  | Some (n, r) => if (N.of_nat (length r) <? n)%N then None else rd_bytes (N.to_nat n) r
  end.
Fixpoint rd_prefixes (n : nat) (s : bytes) : option (list (bits * bytes) * bytes) :=
  match n with
  | O => Some ([], s)
  | S k => match bitvec_from_bincode s with
           | None => None
           | Some (b, r) => match vec_u8_from_bincode r with
                            | None => None
                            | Some (sd, r') => match rd_prefixes k r' with
                                               | None => None
                                               | Some (l, r'') => Some ((b, sd) :: l, r'')
                                               end
                            end
           end
  end.
Fixpoint rd_bitvecs (n : nat) (s : bytes) : option (list bits * bytes) :=
  match n with
  | O => Some ([], s)
  | S k => match bitvec_from_bincode s with
           | None => None
           | Some (b, r) => match rd_bitvecs k r with
                            | None => None
                            | Some (l, r') => Some (b :: l, r')
                            end
           end
  end.
(* every element takes at least one byte, so a count above the remaining length cannot be satisfied *)
Definition rd_count (s : bytes) : option (nat * bytes) :=
  match rd_u64 s with
  | None => None
  | Some (n, r) => if (N.of_nat (length r) <? n)%N then None else Some (N.to_nat n, r)
  end.
Definition ggm_from_bincode (s : bytes) : option (bytes * bytes * gstate bytes * bytes) :=
  match rd_u64 s with
  | None => None
  | Some (np, s1) =>
      if negb (N.eqb np 2) then None else
      match rd_bytes 32 s1 with
      | None => None
      | Some (k0, s2) =>
          match rd_bytes 32 s2 with
          | None => None
          | Some (k1, s3) =>
              match rd_count s3 with
              | None => None
              | Some (n, s4) =>
                  match rd_prefixes n s4 with
                  | None => None
                  | Some (pf, s5) =>
                      match rd_count s5 with
                      | None => None
                      | Some (m, s6) =>
                          match rd_bitvecs m s6 with
                          | None => None
                          | Some (pu, s7) => Some (k0, k1, {| gPrefixes := pf; gPunctured := pu |}, s7)
                          end
                      end
                  end
              end
          end
      end
  end.
Fixpoint pk_entries_rest (n : nat) (bs : bytes) (acc : list (N * bytes)) : option (list (N * bytes) * bytes) :=
  match n with
  | O => Some (acc, bs)
  | S k => match bs with
           | md :: rest => if Nat.leb 32 (length rest)
                           then pk_entries_rest k (skipn 32 rest) (pk_insert acc md (firstn 32 rest))
                           else None
           | [] => None
           end
  end.
Definition pk_from_bincode_rest (s : bytes) : option (pubkey * bytes) :=
  match rd_bytes 32 s with
  | None => None
  | Some (b, s1) => match rd_count s1 with
                    | None => None
                    | Some (n, s2) => match pk_entries_rest n s2 [] with
                                      | None => None
                                      | Some (es, s3) => Some ({| pk_base := b; pk_md := es |}, s3)
                                      end
                    end
  end.
Definition server_from_bincode (s : bytes) : option server :=
  match rd_bytes 32 s with
  | None => None
  | Some (kb, s1) =>
      match sc_canonical kb with
      | None => None
      | Some k =>
          match pk_from_bincode_rest s1 with
          | None => None
          | Some (pk, s2) =>
              match ggm_from_bincode s2 with
              | None => None
              | Some (k0, k1, g, _) => Some {| sv_key := k; sv_pk := pk; sv_k0 := k0; sv_k1 := k1; sv_ggm := g |}
              end
          end
      end
  end.

(* the states for which export followed by import is proved to be the identity (KeyStateFacts.server_roundtrip) *)
Definition two64 : N := 18446744073709551616%N.
Fixpoint sorted_tags (l : list (N * bytes)) : bool :=
  match l with
  | [] => true
  | (a, _) :: t => match t with [] => true | (b, _) :: _ => (a <? b)%N && sorted_tags t end
  end.
Definition pk_okb (pk : pubkey) : bool :=
  Nat.eqb (length (pk_base pk)) 32 && forallb (fun e => Nat.eqb (length (snd e)) 32) (pk_md pk)
  && sorted_tags (pk_md pk) && Nat.leb (length (pk_md pk)) 256.
Definition small (n : nat) : bool := (N.of_nat n <? two64)%N.
Definition ggm_okb (k0 k1 : bytes) (g : gstate bytes) : bool :=
  Nat.eqb (length k0) 32 && Nat.eqb (length k1) 32
  && forallb (fun ps : bits * bytes => small (length (fst ps)) && small (length (snd ps))) (gPrefixes bytes g)
  && forallb (fun b : bits => small (length b)) (gPunctured bytes g)
  && small (length (gPrefixes bytes g)) && small (length (gPunctured bytes g)).
Definition server_okb (s : server) : bool :=
  (0 <=? sv_key s) && (sv_key s <? ell) && pk_okb (sv_pk s) && ggm_okb (sv_k0 s) (sv_k1 s) (sv_ggm s).

Definition import_export_ok (s : server) : bool :=
  server_okb s && match server_from_bincode (server_to_bincode s) with Some _ => true | None => false end.

(* ---------- JSON forms as serde_json writes them (canonical grammar only: no whitespace, this key order) ----------
   Evaluation: an object with key output (base64 string of the 32-byte point) and key proof (null, or an
   object with keys c and s, each an array of 32 numbers).  Point: an array of 32 numbers.                 *)
From StarV Require Import Wasm.
Definition digit (d : N) : N := (48 + d)%N.
Definition dec_u8 (n : N) : bytes :=
  if (n <? 10)%N then [digit n]
  else if (n <? 100)%N then [digit (n / 10); digit (n mod 10)]
  else [digit (n / 100); digit ((n / 10) mod 10); digit (n mod 10)].
Fixpoint json_nums (l : bytes) : bytes :=
  match l with
  | [] => []
  | [a] => dec_u8 a
  | a :: t => dec_u8 a ++ 44%N :: json_nums t
  end.
Definition json_array (l : bytes) : bytes := 91%N :: json_nums l ++ [93%N].
Definition js_output : bytes := [123; 34; 111; 117; 116; 112; 117; 116; 34; 58; 34]%N.       (* open brace, key output, colon, opening quote *)
Definition js_proof : bytes := [34; 44; 34; 112; 114; 111; 111; 102; 34; 58]%N.              (* closing quote, comma, key proof, colon *)
Definition js_null : bytes := [110; 117; 108; 108]%N.
Definition js_c : bytes := [123; 34; 99; 34; 58]%N. 
Definition js_s : bytes := [44; 34; 115; 34; 58]%N. 
Definition json_evaluation (output : bytes) (pr : option proof) : bytes :=
  js_output ++ b64_encode output ++ js_proof
  ++ match pr with
     | None => js_null
     | Some p => js_c ++ json_array (sc_to_bytes (pr_c p)) ++ js_s ++ json_array (sc_to_bytes (pr_s p)) ++ [125%N]
     end ++ [125%N].

(* parsing the same grammar *)
Definition is_digit (c : N) : bool := ((48 <=? c) && (c <=? 57))%N.
(* one number 0..255 without leading zeros, followed by a non-digit *)
Definition parse_u8 (s : bytes) : option (N * bytes) :=
  match s with
  | d0 :: rest =>
      if is_digit d0 then
        match rest with
        | d1 :: rest1 =>
            if is_digit d1 then
              if N.eqb d0 48 then None
              else match rest1 with
                   | d2 :: rest2 =>
                       if is_digit d2 then
                         match rest2 with
                         | d3 :: _ => if is_digit d3 then None
                                      else let v := ((d0 - 48) * 100 + (d1 - 48) * 10 + (d2 - 48))%N in
                                           if (v <? 256)%N then Some (v, rest2) else None
                         | [] => None
                         end
                       else Some (((d0 - 48) * 10 + (d1 - 48))%N, rest1)
                   | [] => None
                   end
            else Some ((d0 - 48)%N, rest)
        | [] => None
        end
      else None
  | [] => None
  end.
Fixpoint parse_nums (n : nat) (s : bytes) : option (bytes * bytes) :=
  match n with
  | O => None
  | S O => match parse_u8 s with Some (v, rest) => Some ([v], rest) | None => None end
  | S n' => match parse_u8 s with
            | Some (v, c :: rest) => if N.eqb c 44 then
                                       match parse_nums n' rest with Some (vs, r) => Some (v :: vs, r) | None => None end
                                     else None
            | _ => None
            end
  end.
Definition parse_array32 (s : bytes) : option (bytes * bytes) :=
  match s with
  | c :: rest => if N.eqb c 91 then
                   match parse_nums 32 rest with
                   | Some (vs, d :: r) => if N.eqb d 93 then Some (vs, r) else None
                   | _ => None
                   end
                 else None
  | [] => None
  end.
Fixpoint strip_prefix (p s : bytes) : option bytes :=
  match p, s with
  | [], _ => Some s
  | a :: p', b :: s' => if N.eqb a b then strip_prefix p' s' else None
  | _ :: _, [] => None
  end.
Definition json_point_decode (s : bytes) : option bytes :=
  match parse_array32 s with Some (vs, []) => Some vs | _ => None end.
Definition json_evaluation_decode (s : bytes) : option (bytes * option proof) :=
  match strip_prefix js_output s with
  | None => None
  | Some r0 =>
      let b64 := firstn 44 r0 in
      match b64_decode b64, strip_prefix js_proof (skipn 44 r0) with
      | Some out, Some r1 =>
          if negb (Nat.eqb (length out) 32) then None
          else match strip_prefix js_null r1 with
               | Some r2 => if bytes_eqb r2 [125%N] then Some (out, None) else None
               | None =>
                   match strip_prefix js_c r1 with
                   | None => None
                   | Some r2 =>
                       match parse_array32 r2 with
                       | Some (cb, r3) =>
                           match strip_prefix js_s r3 with
                           | Some r4 =>
                               match parse_array32 r4 with
                               | Some (sb, r5) =>
                                   if bytes_eqb r5 [125%N; 125%N] then
                                     match sc_canonical cb, sc_canonical sb with
                                     | Some c, Some s' => Some (out, Some {| pr_c := c; pr_s := s' |})
                                     | _, _ => None
                                     end
                                   else None
                               | None => None
                               end
                           | None => None
                           end
                       | None => None
                       end
                   end
               end
      | _, _ => None
      end
  end.
