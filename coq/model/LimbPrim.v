(* 64-bit limb primitives of ff / ff_derive (ff-0.13 `arith_impl`: mac, adc, sbb over u128 intermediates),
   the u64 operators the generated code uses (wrapping_mul, <<, >>, |), three-limb values, the loop-shaped
   helpers of the generated `impl Fp` (cmp_native, is_valid, add_nocarry, sub_noborrow, reduce) and the
   interpreter of addition chains.  Definitions only; limbs are integers, every operation returns values
   in [0, 2^64) by construction (explicit `mod`), so wrap-around is written into the model. *)
From Coq Require Import ZArith List.
Import ListNotations.
Open Scope Z_scope.

Definition W : Z := 18446744073709551616.          (* 2^64 *)
Definition W2 : Z := 340282366920938463463374607431768211456.   (* 2^128 *)

(* pub const fn mac(a, b, c, carry) -> (u64, u64): a + b*c + carry in u128, split *)
Definition mac (a b c carry : Z) : Z * Z :=
  let ret := a + b * c + carry in (ret mod W, ret / W).
(* pub const fn adc(a, b, carry) *)
Definition adc (a b carry : Z) : Z * Z :=
  let ret := a + b + carry in (ret mod W, ret / W).
(* pub const fn sbb(a, b, borrow): (a as u128).wrapping_sub(b as u128 + (borrow >> 63) as u128) *)
Definition sbb (a b borrow : Z) : Z * Z :=
  let ret := (a - (b + borrow / 9223372036854775808)) mod W2 in (ret mod W, ret / W).

Definition wmul64 (a b : Z) : Z := (a * b) mod W.
Definition shl64 (a n : Z) : Z := (a * 2 ^ n) mod W.
Definition shr64 (a n : Z) : Z := a / 2 ^ n.
Definition lor64 (a b : Z) : Z := Z.lor a b.

Definition limbs : Type := (Z * Z * Z)%type.
Definition lval (a : limbs) : Z := let '(a0, a1, a2) := a in a0 + W * a1 + W2 * a2.
Definition wf64 (x : Z) : Prop := 0 <= x < W.
Definition lwf (a : limbs) : Prop := let '(a0, a1, a2) := a in wf64 a0 /\ wf64 a1 /\ wf64 a2.

(* fn cmp_native: limbs compared from the most significant one down *)
Definition cmp_native (a b : limbs) : comparison :=
  let '(a0, a1, a2) := a in let '(b0, b1, b2) := b in
  if a2 <? b2 then Lt else if b2 <? a2 then Gt else
  if a1 <? b1 then Lt else if b1 <? a1 then Gt else
  if a0 <? b0 then Lt else if b0 <? a0 then Gt else Eq.
Definition is_valid (m a : limbs) : bool := match cmp_native a m with Lt => true | _ => false end.

(* fn add_nocarry: adc over the zipped limbs, the last carry is dropped *)
Definition add_nocarry (a b : limbs) : limbs :=
  let '(a0, a1, a2) := a in let '(b0, b1, b2) := b in
  let '(r0, c) := adc a0 b0 0 in
  let '(r1, c) := adc a1 b1 c in
  let '(r2, _) := adc a2 b2 c in (r0, r1, r2).
(* fn sub_noborrow: sbb over the zipped limbs, the last borrow is dropped *)
Definition sub_noborrow (a b : limbs) : limbs :=
  let '(a0, a1, a2) := a in let '(b0, b1, b2) := b in
  let '(r0, bw) := sbb a0 b0 0 in
  let '(r1, bw) := sbb a1 b1 bw in
  let '(r2, _) := sbb a2 b2 bw in (r0, r1, r2).
(* fn reduce: if !self.is_valid() { self.sub_noborrow(&MODULUS_LIMBS) } *)
Definition reduce (m a : limbs) : limbs := if is_valid m a then a else sub_noborrow a m.

(* addition chains: step k defines t_k; t_0 is the argument *)
Inductive cstep : Type := CSq (i : nat) | CMul (i j : nat).
Section Chain.
  Variable T : Type.
  Variable sq : T -> T.
  Variable mul : T -> T -> T.
  Variable dflt : T.
  (* the environment holds t_n :: ... :: t_0 *)
  Definition cget (env : list T) (i : nat) : T := nth (length env - 1 - i) env dflt.
  Definition cstep_run (env : list T) (s : cstep) : list T :=
    match s with
    | CSq i => sq (cget env i) :: env
    | CMul i j => mul (cget env i) (cget env j) :: env
    end.
  Definition chain_run (ch : list cstep) (x : T) : T := hd dflt (fold_left cstep_run ch [x]).
End Chain.
(* a chain refers only to values already defined *)
Fixpoint chain_ok (n : nat) (ch : list cstep) : bool :=
  match ch with
  | [] => true
  | CSq i :: r => Nat.ltb i n && chain_ok (S n) r
  | CMul i j :: r => Nat.ltb i n && Nat.ltb j n && chain_ok (S n) r
  end.
