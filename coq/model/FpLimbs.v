(* The limb-level implementation of star_sharks::Fp as ff_derive generates it: values are three u64 limbs
   holding the Montgomery form a * 2^192 mod p.  Straight-line parts (mul_assign, square, mont_reduce, the
   addition chains of invert and sqrt, all constants) come from model/LimbGen.v, which gen/gen_limbs.py
   writes from the macro-expanded source on every run; the loop-shaped helpers are written here by hand,
   one definition per generated function.  Definitions only. *)
From Coq Require Import ZArith NArith List Bool.
Import ListNotations.
From StarV Require Import Params Bytes LimbPrim LimbGen.
Open Scope Z_scope.

Definition LM : limbs := MODULUS_LIMBS.
Definition lzero : limbs := (0, 0, 0).          (* const ZERO: Self = Fp([0; 3]) *)
Definition lone : limbs := R.                   (* const ONE: Self = R *)

(* is_zero_vartime / ct_eq: limb-wise comparison of the internal form *)
Definition lis_zero (a : limbs) : bool := let '(a0, a1, a2) := a in (a0 =? 0) && (a1 =? 0) && (a2 =? 0).
Definition leqb (a b : limbs) : bool :=
  let '(a0, a1, a2) := a in let '(b0, b1, b2) := b in (a0 =? b0) && (a1 =? b1) && (a2 =? b2).

(* add_assign: self.add_nocarry(other); self.reduce() *)
Definition ladd (a b : limbs) : limbs := reduce LM (add_nocarry a b).
(* sub_assign: if other.cmp_native(self) == Greater { self.add_nocarry(&MODULUS_LIMBS) }; self.sub_noborrow(other) *)
Definition lsub (a b : limbs) : limbs :=
  let a' := match cmp_native b a with Gt => add_nocarry a LM | _ => a end in sub_noborrow a' b.
(* neg: if !ret.is_zero_vartime() { tmp = MODULUS_LIMBS; tmp.sub_noborrow(&ret); ret = tmp } *)
Definition lneg (a : limbs) : limbs := if lis_zero a then a else sub_noborrow LM a.
(* double: for i in &mut ret.0 { tmp = *i >> 63; *i <<= 1; *i |= last; last = tmp }; ret.reduce() *)
Definition ldouble (a : limbs) : limbs :=
  let '(a0, a1, a2) := a in
  let last := 0 in
  let tmp := shr64 a0 63 in let r0 := lor64 (shl64 a0 1) last in let last := tmp in
  let tmp := shr64 a1 63 in let r1 := lor64 (shl64 a1 1) last in let last := tmp in
  let r2 := lor64 (shl64 a2 1) last in
  reduce LM (r0, r1, r2).
Definition lmul : limbs -> limbs -> limbs := gl_mul.
Definition lsquare : limbs -> limbs := gl_square.

(* invert: CtOption::new(chain(self), !self.is_zero()) *)
Definition linvert_raw (a : limbs) : limbs := chain_run limbs gl_square gl_mul lone invert_chain a.
Definition linvert (a : limbs) : option limbs := if lis_zero a then None else Some (linvert_raw a).
(* sqrt: CtOption::new(sqrt, (sqrt * &sqrt).ct_eq(self)) *)
Definition lsqrt_raw (a : limbs) : limbs := chain_run limbs gl_square gl_mul lone sqrt_chain a.
Definition lsqrt (a : limbs) : option limbs :=
  let s := lsqrt_raw a in if leqb (gl_mul s s) a then Some s else None.

(* pow_vartime (ff::Field, provided method): exponent as u64 words, least significant first;
   for e in exp.rev() { for i in (0..64).rev() { res = res.square(); if (e >> i) & 1 == 1 { res.mul_assign(self) } } } *)
Fixpoint pow_word (a : limbs) (e : Z) (i : nat) (res : limbs) : limbs :=
  match i with
  | O => res
  | S i' => let res := gl_square res in
            let res := if Z.testbit e (Z.of_nat i') then gl_mul res a else res in
            pow_word a e i' res
  end.
Definition lpow_vartime (a : limbs) (exp : list Z) : limbs :=
  fold_left (fun res e => pow_word a e 64 res) (rev exp) lone.

(* random, one round of the loop: three words, top limb masked with 0xffff_ffff_ffff_ffff >> REPR_SHAVE_BITS, kept if valid *)
Definition lrandom_round (w0 w1 w2 : Z) : option limbs :=
  let t := (w0, w1, Z.land w2 (shr64 (W - 1) GEN_REPR_SHAVE_BITS)) in
  if is_valid LM t then Some t else None.

(* from_repr: read_u64_into (little endian), borrow chain against the modulus, r * R2 *)
Definition limbs_of_bytes (bs : bytes) : limbs :=
  (Z.of_N (le_of_bytes (firstn 8 bs)), Z.of_N (le_of_bytes (firstn 8 (skipn 8 bs))), Z.of_N (le_of_bytes (firstn 8 (skipn 16 bs)))).
Definition lfrom_canon (r : limbs) : option limbs :=
  let '(r0, r1, r2) := r in let '(m0, m1, m2) := LM in
  let '(_, bw) := sbb r0 m0 0 in let '(_, bw) := sbb r1 m1 bw in let '(_, bw) := sbb r2 m2 bw in
  if Z.land (bw mod 256) 1 =? 1 then Some (gl_mul r R2) else None.
Definition lfrom_repr (bs : bytes) : option limbs :=
  if Nat.eqb (length bs) 24 then lfrom_canon (limbs_of_bytes bs) else None.
(* to_repr: mont_reduce(self.0[0], self.0[1], self.0[2], 0, 0, 0); write_u64_into (little endian) *)
Definition lto_canon (a : limbs) : limbs := let '(a0, a1, a2) := a in gl_mont_reduce a0 a1 a2 0 0 0.
Definition bytes_of_limbs (a : limbs) : bytes :=
  let '(a0, a1, a2) := a in bytes_of_le 8 (Z.to_N a0) ++ bytes_of_le 8 (Z.to_N a1) ++ bytes_of_le 8 (Z.to_N a2).
Definition lto_repr (a : limbs) : bytes := bytes_of_limbs (lto_canon a).
(* From<u64>: Fp([val, 0, 0]) * R2 *)
Definition lfrom_u64 (v : Z) : limbs := gl_mul (v, 0, 0) R2.
(* impl Ord for Fp: both sides through mont_reduce (out of Montgomery form), then cmp_native *)
Definition lcmp (a b : limbs) : comparison := cmp_native (lto_canon a) (lto_canon b).
(* is_odd: mont_reduce, low bit *)
Definition lis_odd (a : limbs) : bool := let '(r0, _, _) := lto_canon a in Z.odd r0.
