(* STROBE-128 duplex (the subset of strobe-rs 0.10.0 the repository calls), generic in the
   permutation F, and the StrobeRng adapter (strobe_rng.rs, three identical copies).
   Definitions only. *)
From Coq Require Import NArith Arith Bool List.
Import ListNotations.
From StarV Require Import Bytes.

Section Strobe.
Variable F : list N -> list N.
Definition rate : nat := 166.   (* 25*8 - 128/4 - 2 *)

Record strobe := { st : list N; pos : nat; pos_begin : nat; is_recv : option bool }.

Fixpoint upd (l : list N) (i : nat) (f : N -> N) : list N :=
  match l, i with
  | [], _ => []
  | h :: t, O => f h :: t
  | h :: t, S i' => h :: upd t i' f
  end.

Definition run_f (s : strobe) : strobe :=
  let st1 := upd (st s) (pos s) (fun b => N.lxor b (N.of_nat (pos_begin s))) in
  let st2 := upd st1 (pos s + 1) (fun b => N.lxor b 4) in
  let st3 := upd st2 (rate + 1) (fun b => N.lxor b 128) in
  {| st := F st3; pos := 0; pos_begin := 0; is_recv := is_recv s |}.

(* advance the position after a byte has been processed *)
Definition adv (s : strobe) (st' : list N) : strobe :=
  let s' := {| st := st'; pos := S (pos s); pos_begin := pos_begin s; is_recv := is_recv s |} in
  if Nat.eqb (pos s') rate then run_f s' else s'.

Definition cur (s : strobe) : N := nth (pos s) (st s) 0%N.

(* per-byte duplex primitives *)
Definition absorb1 (s : strobe) (b : N) : strobe := adv s (upd (st s) (pos s) (fun x => N.lxor x b)).
Definition overwrite1 (s : strobe) (b : N) : strobe := adv s (upd (st s) (pos s) (fun _ => b)).
Definition absorb_set1 (s : strobe) (b : N) : strobe * N :=
  let c := N.lxor (cur s) b in (adv s (upd (st s) (pos s) (fun _ => c)), c).
Definition copy1 (s : strobe) : strobe * N := (adv s (st s), cur s).
Definition exchange1 (s : strobe) (b : N) : strobe * N :=
  (adv s (upd (st s) (pos s) (fun _ => b)), N.lxor b (cur s)).
Definition squeeze1 (s : strobe) : strobe * N := (adv s (upd (st s) (pos s) (fun _ => 0%N)), cur s).

Definition absorb (s : strobe) (d : bytes) : strobe := fold_left absorb1 d s.
Definition overwrite (s : strobe) (d : bytes) : strobe := fold_left overwrite1 d s.
Fixpoint mapacc {A} (f : strobe -> A -> strobe * N) (s : strobe) (d : list A) : strobe * bytes :=
  match d with
  | [] => (s, [])
  | a :: t => let '(s1, o) := f s a in let '(s2, os) := mapacc f s1 t in (s2, o :: os)
  end.
Fixpoint gen (f : strobe -> strobe * N) (s : strobe) (n : nat) : strobe * bytes :=
  match n with
  | O => (s, [])
  | S n' => let '(s1, o) := f s in let '(s2, os) := gen f s1 n' in (s2, o :: os)
  end.

(* operation flags *)
Definition fI := 1%N. Definition fA := 2%N. Definition fC := 4%N. Definition fT := 8%N. Definition fM := 16%N.
Definition has (fl b : N) : bool := negb (N.eqb (N.land fl b) 0).

Definition begin_op (s : strobe) (fl : N) : strobe :=
  let '(s, fl) :=
    if has fl fT then
      let op_recv := has fl fI in
      let r := match is_recv s with Some r => r | None => op_recv end in
      let fl' := if Bool.eqb r op_recv then N.land fl (N.lxor 255 fI) else N.lor fl fI in
      ({| st := st s; pos := pos s; pos_begin := pos_begin s; is_recv := Some r |}, fl')
    else (s, fl) in
  let old := pos_begin s in
  let s := {| st := st s; pos := pos s; pos_begin := pos s + 1; is_recv := is_recv s |} in
  let s := absorb s [N.of_nat old; fl] in
  if andb (has fl fC) (negb (Nat.eqb (pos s) 0)) then run_f s else s.

Definition fl_ad := fA.
Definition fl_meta_ad := N.lor fA fM.
Definition fl_key := N.lor fA fC.
Definition fl_prf := N.lor fI (N.lor fA fC).
Definition fl_send_enc := N.lor fA (N.lor fC fT).
Definition fl_recv_enc := N.lor fI (N.lor fA (N.lor fC fT)).
Definition fl_send_mac := N.lor fC fT.
Definition fl_recv_mac := N.lor fI (N.lor fC fT).

Definition ad s d := absorb (begin_op s fl_ad) d.
Definition meta_ad s d := absorb (begin_op s fl_meta_ad) d.
Definition key s d := overwrite (begin_op s fl_key) d.
Definition prf s n := gen squeeze1 (begin_op s fl_prf) n.
Definition send_enc s d := mapacc absorb_set1 (begin_op s fl_send_enc) d.
Definition recv_enc s d := mapacc exchange1 (begin_op s fl_recv_enc) d.
Definition send_mac s n := gen copy1 (begin_op s fl_send_mac) n.
Definition recv_mac s (mac : bytes) : strobe * bool :=
  let '(s', o) := mapacc exchange1 (begin_op s fl_recv_mac) mac in
  (s', forallb (N.eqb 0) o).

Definition init_st : list N :=
  [1; N.of_nat rate + 2; 1; 0; 1; 96; 83; 84; 82; 79; 66; 69; 118; 49; 46; 48; 46; 50]%N ++ repeat 0%N (200 - 18).
Definition new (proto : bytes) : strobe :=
  meta_ad {| st := F init_st; pos := 0; pos_begin := 0; is_recv := None |} proto.

(* StrobeRng::fill_bytes: meta_ad(le32 len); prf(len) *)
Definition rng_fill s n := prf (meta_ad s (le32 (N.of_nat n mod two32))) n.
Definition rng_next_u64 (s : strobe) : strobe * N :=
  let '(s', bs) := rng_fill s 8 in (s', le_of_bytes bs).

(* star::strobe_digest (out.len() = 32, ad non-empty are preconditions of the callers) *)
Definition strobe_digest (k : bytes) (ads : list bytes) (label : bytes) : bytes :=
  snd (rng_fill (fold_left ad ads (key (new label) k)) 32).
(* ppoprf::strobe_hash, 64-byte output *)
Definition strobe_hash (input : bytes) (label : bytes) : bytes :=
  snd (rng_fill (key (new label) input) 64).
End Strobe.


(* conversion hints (kernel and tactics): unfold the STROBE operations last *)
Strategy 100 [strobe_digest strobe_hash new key ad meta_ad prf send_enc recv_enc send_mac recv_mac rng_fill rng_next_u64 begin_op].
