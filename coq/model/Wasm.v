(* star-wasm/src/lib.rs (after fix F5) and star/test-utils (the reference aggregation server).
   base64 is the standard alphabet with canonical padding (base64 0.22 STANDARD).  Definitions only. *)
From Coq Require Import ZArith NArith Arith Bool List.
Import ListNotations.
From StarV Require Import Params Bytes Strobe Fp Shamir Adss Star.

(* ---------- base64 ---------- *)
Definition b64_char (v : N) : N :=
  if (v <? 26)%N then (65 + v)%N            (* A-Z *)
  else if (v <? 52)%N then (97 + (v - 26))%N (* a-z *)
  else if (v <? 62)%N then (48 + (v - 52))%N (* 0-9 *)
  else if (v =? 62)%N then 43%N else 47%N.   (* + / *)
Definition b64_val (c : N) : option N :=
  if ((65 <=? c) && (c <=? 90))%N then Some (c - 65)%N
  else if ((97 <=? c) && (c <=? 122))%N then Some (c - 97 + 26)%N
  else if ((48 <=? c) && (c <=? 57))%N then Some (c - 48 + 52)%N
  else if (c =? 43)%N then Some 62%N else if (c =? 47)%N then Some 63%N else None.
Definition pad : N := 61%N.

Fixpoint b64_encode (bs : bytes) : bytes :=
  match bs with
  | [] => []
  | [a] => [b64_char (a / 4); b64_char ((a mod 4) * 16); pad; pad]
  | [a; b] => [b64_char (a / 4); b64_char ((a mod 4) * 16 + b / 16); b64_char ((b mod 16) * 4); pad]
  | a :: b :: c :: rest =>
      b64_char (a / 4) :: b64_char ((a mod 4) * 16 + b / 16) :: b64_char ((b mod 16) * 4 + c / 64) :: b64_char (c mod 64)
      :: b64_encode rest
  end%N.

(* lenient decode of quartets; the strict decoder accepts exactly the canonical encodings *)
Fixpoint b64_decode_raw (fuel : nat) (s : bytes) : option bytes :=
  match fuel with
  | O => None
  | S f =>
    match s with
    | [] => Some []
    | [c0; c1; c2; c3] =>
        match b64_val c0, b64_val c1 with
        | Some v0, Some v1 =>
            if N.eqb c2 pad then (if N.eqb c3 pad then Some [(v0 * 4 + v1 / 16)%N] else None)
            else match b64_val c2 with
                 | Some v2 =>
                     if N.eqb c3 pad then Some [(v0 * 4 + v1 / 16)%N; ((v1 mod 16) * 16 + v2 / 4)%N]
                     else match b64_val c3 with
                          | Some v3 => Some [(v0 * 4 + v1 / 16)%N; ((v1 mod 16) * 16 + v2 / 4)%N; ((v2 mod 4) * 64 + v3)%N]
                          | None => None
                          end
                 | None => None
                 end
        | _, _ => None
        end
    | c0 :: c1 :: c2 :: c3 :: rest =>
        match b64_val c0, b64_val c1, b64_val c2, b64_val c3, b64_decode_raw f rest with
        | Some v0, Some v1, Some v2, Some v3, Some r =>
            Some ((v0 * 4 + v1 / 16)%N :: ((v1 mod 16) * 16 + v2 / 4)%N :: ((v2 mod 4) * 64 + v3)%N :: r)
        | _, _, _, _, _ => None
        end
    | _ => None
    end
  end.
Definition b64_decode (s : bytes) : option bytes :=
  match b64_decode_raw (S (length s)) s with
  | Some bs => if bytes_eqb (b64_encode bs) s then Some bs else None
  | None => None
  end.

(* split on '\n' (always at least one chunk) *)
Fixpoint split_nl (cur : bytes) (s : bytes) : list bytes :=
  match s with
  | [] => [rev cur]
  | c :: t => if N.eqb c 10 then rev cur :: split_nl [] t else split_nl (c :: cur) t
  end.

Section WithF.
Variable F : list N -> list N.

Definition create_share (m : bytes) (t : N) (epoch : bytes) (x : fp) : outcome (option bytes) :=
  match wasm_material F m epoch t x with
  | Ok (Some (k, sh, tg)) =>
      Ok (Some (Params.wasm_json_p0 ++ b64_encode k ++ Params.wasm_json_p1 ++ b64_encode (ashare_to_bytes sh)
                ++ Params.wasm_json_p2 ++ b64_encode tg ++ Params.wasm_json_p3))
  | Ok None => Ok None
  | Err => Ok (Some [])          (* share_result.is_err() => "" *)
  | Panic => Panic
  end.

Fixpoint decode_chunks (l : list bytes) : outcome (list ashare) :=
  match l with
  | [] => Ok []
  | c :: t => match b64_decode c with
              | None => Err
              | Some b => let! s := ashare_from_bytes b in let! r := decode_chunks t in Ok (s :: r)
              end
  end.
(* Some key / None; never a panic after fix F5 *)
Definition group_shares (serialized epoch : bytes) : outcome (option bytes) :=
  match decode_chunks (split_nl [] serialized) with
  | Ok shs => match share_recover F shs with
              | Ok c => Ok (Some (b64_encode (derive_ske_key F (cM c) epoch)))
              | Err => Ok None
              | Panic => Panic
              end
  | Err => Ok None
  | Panic => Panic
  end.

(* ---------- reference aggregation server, sequential ---------- *)
Definition add_to_bucket (tag : bytes) (m : message) :=
  fix go (bs : list (bytes * list message)) : list (bytes * list message) :=
    match bs with
    | [] => [(tag, [m])]
    | (t, ms) :: rest => if bytes_eqb t tag then (t, ms ++ [m]) :: rest else (t, ms) :: go rest
    end.
Definition collect (msgs : list message) : list (bytes * list message) :=
  fold_left (fun bs m => add_to_bucket (mTag m) m bs) msgs [].

Definition agg_bucket (epoch : bytes) (ms : list message) : outcome (bytes * list (option bytes)) :=
  match share_recover F (map mShare ms) with
  | Ok c =>
      let k := derive_ske_key F (cM c) epoch in
      let splits := map (fun mm => parse_payload (ct_decrypt F k (mCt mm) Params.lbl_agg_decrypt)) ms in
      match splits with
      | Ok (tag, _) :: _ =>
          if forallb (fun o => match o with Ok (t, _) => bytes_eqb t tag | _ => false end) splits
          then Ok (tag, map (fun o => match o with Ok (_, a) => a | _ => None end) splits)
          else Panic      (* load_bytes(..).unwrap() or "tag mismatch" *)
      | _ => Panic
      end
  | _ => Panic            (* PossibleShareCollision.unwrap() *)
  end.

Fixpoint all_ok {A} (l : list (outcome A)) : outcome (list A) :=
  match l with
  | [] => Ok []
  | Ok a :: t => let! r := all_ok t in Ok (a :: r)
  | Err :: _ => Err
  | Panic :: _ => Panic
  end.
Definition aggregate (t : N) (epoch : bytes) (msgs : list message) : outcome (list (bytes * list (option bytes))) :=
  all_ok (map (fun b => agg_bucket epoch (snd b))
              (filter (fun b => (t <=? N.of_nat (length (snd b)))%N) (collect msgs))).
End WithF.
