(* star/src/lib.rs: derivations, report generation and layout, recovery.  Generic in F. *)
From Coq Require Import ZArith NArith Bool List.
Import ListNotations.
From StarV Require Import Params Bytes Strobe Fp Shamir Adss.

Record message := { mCt : bytes; mShare : ashare; mTag : bytes }.

Definition message_to_bytes (m : message) : bytes :=
  store_bytes (mCt m) ++ store_bytes (ashare_to_bytes (mShare m)) ++ store_bytes (mTag m).
Definition message_from_bytes (bs : bytes) : outcome message :=
  let! cb := load_bytes bs in
  let! sl := slice_from bs (4 + length cb) in
  let! sb := load_bytes sl in
  let! sh := ashare_from_bytes sb in
  let! sl := slice_from sl (4 + length sb) in
  let! tag := load_bytes sl in
  Ok {| mCt := cb; mShare := sh; mTag := tag |}.

Definition payload (m : bytes) (aux : option bytes) : bytes :=
  store_bytes m ++ match aux with Some a => store_bytes a | None => [] end.

(* how the reference server splits a decrypted payload (test-utils recover_measurements) *)
Definition parse_payload (pt : bytes) : outcome (bytes * option bytes) :=
  match load_bytes pt with
  | Ok m =>
      let! rest := slice_from pt (4 + length m) in
      match rest with
      | [] => Ok (m, None)
      | _ => match load_bytes rest with
             | Ok [] => Ok (m, None)
             | Ok a => Ok (m, Some a)
             | _ => Panic     (* load_bytes(..).unwrap() *)
             end
      end
  | _ => Panic
  end.

(* the documented framing read strictly: len|measurement, then nothing or exactly one len|aux *)
Definition parse_payload_strict (pt : bytes) : outcome (bytes * option bytes) :=
  match load_bytes pt with
  | Ok m =>
      let! rest := slice_from pt (4 + length m) in
      match rest with
      | [] => Ok (m, None)
      | _ => match load_bytes rest with
             | Ok a => if Nat.eqb (length rest) (4 + length a) then Ok (m, Some a) else Err
             | _ => Err
             end
      end
  | _ => Err
  end.

Section WithF.
Variable F : list N -> list N.

Definition digest := strobe_digest F.
Definition sample_local (m e : bytes) (t : N) : bytes :=
  digest m [e; le32 t] Params.lbl_star_sample_local.
Definition derive_random_value (rnd : bytes) (i : N) : bytes :=
  digest rnd [[i]] Params.lbl_star_derive_randoms.
Definition r0 rnd := derive_random_value rnd 0.
Definition r1 rnd := derive_random_value rnd 1.
Definition r2 rnd := derive_random_value rnd 2.
Definition derive_ske_key (r : bytes) (epoch : bytes) : bytes :=
  firstn Params.star_key_len (digest r [epoch] Params.lbl_star_derive_ske_key).

Definition ct_new (k : bytes) (data : bytes) (label : bytes) : bytes :=
  snd (send_enc F (key F (new F label) k) data).
Definition ct_decrypt (k : bytes) (ct : bytes) (label : bytes) : bytes :=
  snd (recv_enc F (key F (new F label) k) ct).

Definition commune_of (t : N) (rnd : bytes) : commune :=
  {| cA := t; cM := r0 rnd; cR := r1 rnd; cT := None |}.

(* Message::generate with the share point as an input *)
Definition generate (m e : bytes) (t : N) (rnd : bytes) (aux : option bytes) (x : fp) : outcome (option message) :=
  match share_at F (commune_of t rnd) x with
  | Ok (Some sh) =>
      let k := derive_ske_key (r0 rnd) e in
      Ok (Some {| mCt := ct_new k (payload m aux) Params.lbl_star_encrypt; mShare := sh; mTag := r2 rnd |})
  | Ok None => Ok None
  | Err => Err
  | Panic => Panic
  end.

(* share_with_local_randomness: (key, share, tag) *)
Definition wasm_material (m e : bytes) (t : N) (x : fp) : outcome (option (bytes * ashare * bytes)) :=
  let rnd := sample_local m e t in
  match share_at F (commune_of t rnd) x with
  | Ok (Some sh) => Ok (Some (derive_ske_key (r0 rnd) e, sh, r2 rnd))
  | Ok None => Ok None
  | Err => Err
  | Panic => Panic
  end.

Definition share_recover := arecover F.

(* n clients of one measurement: the sharing and the key are computed once *)
Definition star_reports (m e : bytes) (t : N) (rnd : bytes) (clients : list (option bytes * fp))
  : outcome (option (list message)) :=
  match shares_at F (commune_of t rnd) (map snd clients) with
  | Ok (Some shs) =>
      let k := derive_ske_key (r0 rnd) e in
      Ok (Some (map (fun p => {| mCt := ct_new k (payload m (fst (fst p))) Params.lbl_star_encrypt;
                                 mShare := snd p; mTag := r2 rnd |}) (combine clients shs)))
  | Ok None => Ok None
  | Err => Err
  | Panic => Panic
  end.
End WithF.


(* thin wrappers around strobe_digest are unfolded first *)
Strategy -10 [sample_local digest derive_random_value r0 r1 r2].
Strategy 100 [star_reports ct_new ct_decrypt].
