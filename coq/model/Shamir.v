(* sharks/src/lib.rs and share_ff.rs: dealing, evaluation, recovery, share codec. Definitions only. *)
From Coq Require Import ZArith NArith Bool List.
Import ListNotations.
From StarV Require Import Params Bytes Fp PolyDefs.

Record share := { sx : fp; sy : list fp }.

Definition fhorner := horner fp fzero fadd fmul.
Definition finterp_pairs := interp_pairs fp fzero fone fadd fmul fsub finv feqb.
(* Evaluation strategy only: the code multiplies the accumulator by x_j * inv (x_j - x_i) factor by factor (one
   inversion per pair of points); here numerators and denominators are accumulated separately and one inversion is
   made per point.  Equal to the code-shaped finterp_pairs for every input (ShamirFacts.finterp_fast_eq), and what
   makes thresholds of several hundred affordable in the extracted model. *)
Definition basis0_fast (a : fp) (l : list fp) : fp :=
  fmul (fold_left fmul l fone) (finv (fold_left (fun acc b => fmul acc (fsub b a)) l fone)).
Definition finterp_pairs_fast (l : list (fp * fp)) : fp :=
  fold_left (fun acc pr => fadd acc (fmul (basis0_fast (fst pr) (others fp feqb (map fst l) (fst pr))) (snd pr))) l fzero.

(* random_polynomial(s, k, rng): k-1 draws (highest degree first), then s *)
Section Deal.
Variable St : Type.
Variable next64 : St -> St * N.
Definition draw := fp_random St next64.

Fixpoint draw_n (fuel : nat) (n : nat) (s : St) : St * option (list fp) :=
  match n with
  | O => (s, Some [])
  | S n' => match draw fuel s with
            | (s1, Some c) => match draw_n fuel n' s1 with
                              | (s2, Some cs) => (s2, Some (c :: cs))
                              | (s2, None) => (s2, None)
                              end
            | (s1, None) => (s1, None)
            end
  end.
Definition random_polynomial (fuel : nat) (sec : fp) (k : N) (s : St) : St * option (list fp) :=
  match draw_n fuel (N.to_nat (k - 1)) s with
  | (s', Some cs) => (s', Some (cs ++ [sec]))
  | (s', None) => (s', None)
  end.

(* chunks of 24 bytes; a trailing partial chunk is ignored (secret.len() / 24) *)
Fixpoint chunks (fuel : nat) (bs : bytes) : list bytes :=
  match fuel with
  | O => []
  | S f => if Nat.leb Params.field_element_len (length bs)
           then firstn Params.field_element_len bs :: chunks f (skipn Params.field_element_len bs)
           else []
  end.
Definition chunks24 (bs : bytes) : list bytes := chunks (length bs) bs.

(* dealer_rng: Err when a chunk is not canonical; None in the middle = sampler out of fuel *)
Fixpoint deal_polys (fuel : nat) (t : N) (els : list bytes) (s : St) : St * outcome (option (list (list fp))) :=
  match els with
  | [] => (s, Ok (Some []))
  | c :: rest =>
      match from_repr c with
      | None => (s, Err)
      | Some e =>
          match random_polynomial fuel e t s with
          | (s1, Some poly) =>
              match deal_polys fuel t rest s1 with
              | (s2, Ok (Some ps)) => (s2, Ok (Some (poly :: ps)))
              | r => r
              end
          | (s1, None) => (s1, Ok None)
          end
      end
  end.
Definition dealer_rng (fuel : nat) (t : N) (secret : bytes) (s : St) := deal_polys fuel t (chunks24 secret) s.

(* Evaluator::gen after fix F6: redraw while the point is zero *)
Fixpoint gen_point (fuel n : nat) (s : St) : St * option fp :=
  match n with
  | O => (s, None)
  | S n' => match draw fuel s with
            | (s1, Some x) => if feqb x fzero then gen_point fuel n' s1 else (s1, Some x)
            | (s1, None) => (s1, None)
            end
  end.
End Deal.

Definition evaluate (polys : list (list fp)) (x : fp) : share :=
  {| sx := x; sy := map (fun pl => fhorner pl x) polys |}.
(* the iterator: x += 1 before each evaluation *)
Fixpoint eval_iter (polys : list (list fp)) (x : fp) (n : nat) : list share :=
  match n with
  | O => []
  | S n' => let x' := fadd x fone in evaluate polys x' :: eval_iter polys x' n'
  end.

(* Vec<u8>::from(&Share) and Share::try_from(&[u8]) *)
Definition share_to_bytes (s : share) : bytes := to_repr (sx s) ++ flat_map to_repr (sy s).
Fixpoint decode_all (l : list bytes) : option (list fp) :=
  match l with
  | [] => Some []
  | c :: t => match from_repr c with
              | Some e => match decode_all t with Some es => Some (e :: es) | None => None end
              | None => None
              end
  end.
Definition share_from_bytes (bs : bytes) : outcome share :=
  if Nat.ltb (length bs) Params.field_element_len then Err
  else
    let! xb := slice_to bs Params.field_element_len in
    match from_repr xb with
    | None => Err
    | Some x =>
        let! yb := slice_from bs Params.field_element_len in
        match decode_all (chunks24 yb) with
        | Some ys => Ok {| sx := x; sy := ys |}
        | None => Err
        end
    end.

(* recover: first occurrence per x, all y of equal length, at least t distinct, first t interpolated *)
Fixpoint dedup (seen : list fp) (l : list share) : list share :=
  match l with
  | [] => []
  | s :: t => if existsb (feqb (sx s)) seen then dedup seen t else s :: dedup (sx s :: seen) t
  end.
Definition interpolate (shs : list share) : outcome bytes :=
  match shs with
  | [] => Err
  | s0 :: _ =>
      Ok (flat_map (fun i => to_repr (finterp_pairs_fast (map (fun s => (sx s, nth i (sy s) fzero)) shs)))
                   (seq 0 (length (sy s0))))
  end.
Definition recover (t : N) (shs : list share) : outcome bytes :=
  match shs with
  | [] => Err
  | s0 :: _ =>
      if forallb (fun s => Nat.eqb (length (sy s)) (length (sy s0))) shs then
        let vals := dedup [] shs in
        if (N.of_nat (length vals) <? t)%N then Err
        else interpolate (firstn (N.to_nat t) vals)
      else Err
  end.
