(* Polynomial evaluation and Lagrange interpolation at zero in the shape the Rust code has,
   over an arbitrary carrier with operations (no laws assumed here).  Definitions only. *)
From Coq Require Import List Bool.
Import ListNotations.

Section PolyDefs.
Variable F : Type.
Variables (f0 f1 : F) (fadd fmul fsub : F -> F -> F) (finv : F -> F) (feqb : F -> F -> bool).

(* coefficients lowest degree first *)
Definition peval (cs : list F) (x : F) : F := fold_right (fun c acc => fadd c (fmul x acc)) f0 cs.
(* the code: coefficients highest degree first, fold(ZERO, |acc, c| acc * x + c) *)
Definition horner (cs : list F) (x : F) : F := fold_left (fun acc c => fadd (fmul acc x) c) cs f0.

Definition others (pts : list F) (a : F) : list F := filter (fun b => negb (feqb b a)) pts.
(* prod over the other points b of  b * inv (b - a), folded from ONE as acc * x *)
Definition basis0 (a : F) (l : list F) : F := fold_left (fun acc b => fmul acc (fmul b (finv (fsub b a)))) l f1.
Definition interp0 (pts : list F) (y : F -> F) : F :=
  fold_left (fun acc a => fadd acc (fmul (basis0 a (others pts a)) (y a))) pts f0.
(* the same sum over explicit (x, y) pairs, which is what the code has in hand *)
Definition interp_pairs (l : list (F * F)) : F :=
  fold_left (fun acc pr => fadd acc (fmul (basis0 (fst pr) (others (map fst l) (fst pr))) (snd pr))) l f0.
End PolyDefs.
