(* Byte strings, little-endian integers, xor.  Definitions only. *)
From Coq Require Import NArith ZArith Arith Bool List.
Import ListNotations.

Definition bytes := list N.
Definition byte_ok (b : N) : bool := (b <? 256)%N.
Definition wf (bs : bytes) : Prop := Forall (fun b => (b < 256)%N) bs.
Definition wfb (bs : bytes) : bool := forallb byte_ok bs.

Fixpoint le_of_bytes (bs : bytes) : N :=
  match bs with [] => 0%N | b :: t => (b + 256 * le_of_bytes t)%N end.
Fixpoint bytes_of_le (n : nat) (v : N) : bytes :=
  match n with O => [] | S n' => (v mod 256)%N :: bytes_of_le n' (v / 256)%N end.

Definition le32 (n : N) : bytes := bytes_of_le 4 n.
Definition be16 (n : N) : bytes := [((n / 256) mod 256)%N; (n mod 256)%N].
Definition u32_max : N := 4294967295%N.
Definition two32 : N := 4294967296%N.

Definition xor_bytes (a b : bytes) : bytes := map (fun p => N.lxor (fst p) (snd p)) (combine a b).

Fixpoint bytes_eqb (a b : bytes) : bool :=
  match a, b with
  | [], [] => true
  | x :: a', y :: b' => N.eqb x y && bytes_eqb a' b'
  | _, _ => false
  end.

Definition zeros (n : nat) : bytes := repeat 0%N n.

(* outcome of a modelled entry point: where the Rust returns, errs, or would panic *)
Inductive outcome (A : Type) : Type :=
| Ok (v : A)
| Err
| Panic.
Arguments Ok {A} v.
Arguments Err {A}.
Arguments Panic {A}.

Definition obind {A B} (o : outcome A) (f : A -> outcome B) : outcome B :=
  match o with Ok v => f v | Err => Err | Panic => Panic end.
Definition of_option {A} (o : option A) : outcome A :=
  match o with Some v => Ok v | None => Err end.
Notation "'let!' x ':=' o 'in' k" := (obind o (fun x => k)) (at level 200, x pattern, right associativity).

(* Rust slice operations; Panic where the index would be out of range *)
Definition slice_to (bs : bytes) (n : nat) : outcome bytes :=
  if n <=? length bs then Ok (firstn n bs) else Panic.
Definition slice_from (bs : bytes) (n : nat) : outcome bytes :=
  if n <=? length bs then Ok (skipn n bs) else Panic.
Definition slice (bs : bytes) (a b : nat) : outcome bytes :=
  if (a <=? b) && (b <=? length bs) then Ok (firstn (b - a) (skipn a bs)) else Panic.
