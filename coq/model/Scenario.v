(* Executable compositions used by the correspondence check (what one case line asks for). *)
From Coq Require Import ZArith NArith Bool List.
Import ListNotations.
From StarV Require Import Params Bytes Keccak Strobe Fp PolyDefs Shamir Adss Star.

Definition KF := keccak_bytes.

(* a scripted random source: a list of u64 words, zero when exhausted *)
Definition script_next (ws : list N) : list N * N :=
  match ws with [] => ([], 0%N) | w :: t => (t, w) end.

(* sharks: deal with a scripted source, take n iterator shares, then one `gen` share *)
Definition sharks_deal (t : N) (secret : bytes) (n : nat) (ws : list N)
  : outcome (option (list share * option share)) :=
  match dealer_rng (list N) script_next 64 t secret ws with
  | (ws1, Ok (Some polys)) =>
      let its := eval_iter polys fzero n in
      match gen_point (list N) script_next 64 64 ws1 with
      | (_, Some x) => Ok (Some (its, Some (evaluate polys x)))
      | (_, None) => Ok (Some (its, None))
      end
  | (_, Ok None) => Ok None
  | (_, Err) => Err
  | (_, Panic) => Panic
  end.

Fixpoint decode_shares (l : list bytes) : outcome (list share) :=
  match l with
  | [] => Ok []
  | b :: t => let! s := share_from_bytes b in let! r := decode_shares t in Ok (s :: r)
  end.
Fixpoint decode_ashares (l : list bytes) : outcome (list ashare) :=
  match l with
  | [] => Ok []
  | b :: t => let! s := ashare_from_bytes b in let! r := decode_ashares t in Ok (s :: r)
  end.

(* custom transcripts are described as (label, [ad_1; ...]) *)
Definition mk_transcript (d : option (bytes * list bytes)) : option strobe :=
  match d with
  | None => None
  | Some (l, ads) => Some (fold_left (ad KF) ads (new KF l))
  end.
Definition adss_shares (t : N) (M R : bytes) (T : option (bytes * list bytes)) (xs : list fp) :=
  shares_at KF {| cA := t; cM := M; cR := R; cT := mk_transcript T |} xs.
Definition adss_coeffs (t : N) (M R : bytes) : outcome (option (list (list fp))) :=
  polys_of KF {| cA := t; cM := M; cR := R; cT := None |}.
Definition adss_recover (l : list bytes) : outcome commune :=
  let! shs := decode_ashares l in arecover KF shs.

(* STAR end to end: n clients of one measurement, every report through to_bytes/from_bytes,
   recovery from the selected reports, then every report decrypted and split *)
Record star_result := {
  srWire : list bytes;
  srRec : outcome bytes;
  srKey : bytes;
  srPay : list (outcome (bytes * option bytes))
}.
Definition star_reports := Star.star_reports KF.
Fixpoint decode_messages (l : list bytes) : outcome (list message) :=
  match l with
  | [] => Ok []
  | b :: t => let! s := message_from_bytes b in let! r := decode_messages t in Ok (s :: r)
  end.
Definition star_recover_from (e : bytes) (wire : list bytes) (sel : list nat) : star_result :=
  match decode_messages wire with
  | Ok msgs =>
      let picked := flat_map (fun i => match nth_error msgs i with Some x => [x] | None => [] end) sel in
      let rec := share_recover KF (map mShare picked) in
      match rec with
      | Ok c =>
          let k := derive_ske_key KF (cM c) e in
          {| srWire := wire; srRec := Ok (cM c); srKey := k;
             srPay := map (fun mm => parse_payload_strict (ct_decrypt KF k (mCt mm) Params.lbl_agg_decrypt)) msgs |}
      | Err => {| srWire := wire; srRec := Err; srKey := []; srPay := [] |}
      | Panic => {| srWire := wire; srRec := Panic; srKey := []; srPay := [] |}
      end
  | Err => {| srWire := wire; srRec := Err; srKey := []; srPay := [] |}
  | Panic => {| srWire := wire; srRec := Panic; srKey := []; srPay := [] |}
  end.
Definition star_scenario (m e : bytes) (t : N) (rnd : bytes) (clients : list (option bytes * fp)) (sel : list nat)
  : outcome (option star_result) :=
  match star_reports m e t rnd clients with
  | Ok (Some msgs) => Ok (Some (star_recover_from e (map message_to_bytes msgs) sel))
  | Ok None => Ok None
  | Err => Err
  | Panic => Panic
  end.

Definition star_derive (m e : bytes) (t : N) : bytes * (bytes * bytes * bytes) * bytes :=
  let rnd := sample_local KF m e t in
  (rnd, (r0 KF rnd, r1 KF rnd, r2 KF rnd), derive_ske_key KF (r0 KF rnd) e).

(* canonical forms evaluated inside the kernel by the per-run anchor *)
Definition anchor_adss_recover (l : list bytes) : list bytes :=
  match adss_recover l with
  | Ok c => let h := sharing_of KF c in [cM c; le32 (cA c); hC h; hD h; hJ h]
  | _ => []
  end.
Definition anchor_star_derive (m e : bytes) (t : N) : list bytes :=
  let '(rnd, (a, b, c), k) := star_derive m e t in [rnd; c; k].
Definition anchor_sharks_recover (t : N) (l : list bytes) : list bytes :=
  match decode_shares l with
  | Ok shs => match Shamir.recover t shs with Ok b => [b] | _ => [] end
  | _ => []
  end.
Definition anchor_fp_bin (op : N) (a b : bytes) : bytes :=
  match from_repr a, from_repr b with
  | Some x, Some y => to_repr (if N.eqb op 0 then fadd x y else if N.eqb op 1 then fsub x y else fmul x y)
  | _, _ => []
  end.

(* GGM histories: e<byte> evaluate, p<byte> puncture, E/P with arbitrary-length input *)
From StarV Require Import Ggm.
Inductive gop := GEval (i : bytes) | GPunct (i : bytes).
Definition gres := (option bytes * option gerr)%type.
Definition ggm_step (k0 k1 : bytes) (g : gstate bytes) (o : gop) : gstate bytes * gres :=
  match o with
  | GEval i => match ggm_eval bytes (strobe_prg KF k0 k1) g i with
               | inl (Some v) => (g, (Some v, None))
               | inl None => (g, (None, Some NoPrefixFound))
               | inr e => (g, (None, Some e))
               end
  | GPunct i => let '(g', r) := ggm_puncture bytes (strobe_prg KF k0 k1) g i in (g', (None, r))
  end.
Fixpoint ggm_run (k0 k1 : bytes) (g : gstate bytes) (ops : list gop) : gstate bytes * list gres :=
  match ops with
  | [] => (g, [])
  | o :: t => let '(g1, r) := ggm_step k0 k1 g o in let '(g2, rs) := ggm_run k0 k1 g1 t in (g2, r :: rs)
  end.

From StarV Require Import Wasm.
Definition wasm_create := create_share KF.
Definition wasm_group := group_shares KF.
Definition agg_run (t : N) (epoch : bytes) (wire : list bytes) : outcome (list (bytes * list (option bytes))) :=
  let! msgs := decode_messages wire in aggregate KF t epoch msgs.

(* ---------- PPOPRF server histories over a family of instances ---------- *)
From StarV Require Import Ppoprf.
Inductive sop :=
| SEval (i : nat) (md : N) (p : bytes) (verifiable : bool) (r : Z)
| SPunct (i : nat) (md : N)
| SClone (i : nat)
| SSync (src dst : nat).     (* export src, import into dst (a fresh instance when dst is new) *)
Inductive sres :=
| REval (r : perr + (bytes * option proof))
| RPunct (r : option perr)
| RDone
| RBad.
Fixpoint set_nth {A} (l : list A) (i : nat) (v : A) : list A :=
  match l, i with
  | [], _ => [v]
  | _ :: t, O => v :: t
  | h :: t, S i' => h :: set_nth t i' v
  end.
Definition srv_step (G : grp) (w : list server) (o : sop) : list server * sres :=
  match o with
  | SEval i md p v r => match nth_error w i with
                        | Some s => (w, REval (server_eval KF G s p md v r))
                        | None => (w, RBad)
                        end
  | SPunct i md => match nth_error w i with
                   | Some s => let '(s', r) := server_puncture KF s md in (set_nth w i s', RPunct r)
                   | None => (w, RBad)
                   end
  | SClone i => match nth_error w i with Some s => (w ++ [s], RDone) | None => (w, RBad) end
  | SSync src dst => match nth_error w src with Some s => (set_nth w dst s, RDone) | None => (w, RBad) end
  end.
Fixpoint srv_run (G : grp) (w : list server) (ops : list sop) : list server * list sres :=
  match ops with
  | [] => (w, [])
  | o :: t => let '(w1, r) := srv_step G w o in let '(w2, rs) := srv_run G w1 t in (w2, r :: rs)
  end.
Definition pp_server_new := server_new KF.
Definition pp_client_blind := client_blind KF.
Definition pp_client_finalize := client_finalize KF.
Definition pp_client_verify := client_verify KF.
Definition pp_hash_to_group := hash_to_group KF.

Definition anchor_ggm (k0 k1 s0 s1 : bytes) (ops : list gop) : list bytes :=
  let '(g, rs) := ggm_run k0 k1 (ginit bytes s0 s1) ops in
  map (fun r : gres => match r with (Some v, _) => v | (None, Some _) => [1%N] | (None, None) => [0%N] end) rs
  ++ flat_map (fun ps => [map (fun b : bool => if b then 1%N else 0%N) (fst ps); snd ps]) (gPrefixes bytes g).

Definition anchor_star_scn (m e : bytes) (t : N) (rnd : option bytes) (clients : list (option bytes * fp)) (sel : list nat) : list bytes :=
  let rnd := match rnd with Some r => r | None => sample_local KF m e t end in
  match star_scenario m e t rnd clients sel with
  | Ok (Some r) => srWire r ++ [match srRec r with Ok x => x | _ => [] end; srKey r]
  | _ => []
  end.
