(* The share field Fp = Z/(Params.modulus) as canonical integers (sigma type with a boolean
   range proof, so Leibniz equality is field equality), its 24-byte little-endian encoding and
   ff_derive's `random`.  Definitions plus the few range lemmas the definitions need. *)
From Coq Require Import ZArith NArith Bool List Lia Eqdep_dec.
Import ListNotations.
From StarV Require Import Params Bytes.
Open Scope Z_scope.

Definition p : Z := Params.modulus.
Definition inb (z : Z) : bool := (0 <=? z) && (z <? p).
Definition fp : Type := { z : Z | inb z = true }.
Definition val (a : fp) : Z := proj1_sig a.

Lemma p_pos : 0 < p. Proof. reflexivity. Qed.
Lemma mod_inb z : inb (z mod p) = true.
Proof.
  unfold inb. pose proof (Z.mod_pos_bound z p p_pos) as H.
  apply andb_true_intro; split; [apply Z.leb_le|apply Z.ltb_lt]; lia.
Qed.
Definition mkfp (z : Z) : fp := exist _ (z mod p) (mod_inb z).

Definition fzero : fp := mkfp 0.
Definition fone : fp := mkfp 1.
Definition fadd (a b : fp) : fp := mkfp (val a + val b).
Definition fsub (a b : fp) : fp := mkfp (val a - val b).
Definition fmul (a b : fp) : fp := mkfp (val a * val b).
Definition fopp (a : fp) : fp := mkfp (- val a).
Definition fdouble (a : fp) : fp := fadd a a.
Definition fsquare (a : fp) : fp := fmul a a.
Definition feqb (a b : fp) : bool := val a =? val b.

(* fast modular exponentiation on Z *)
Fixpoint powmod_pos (a : Z) (e : positive) (n : Z) : Z :=
  match e with
  | xH => a mod n
  | xO e' => let h := powmod_pos a e' n in (h * h) mod n
  | xI e' => let h := powmod_pos a e' n in (a * ((h * h) mod n)) mod n
  end.
Definition powmod (a e n : Z) : Z :=
  match e with Z0 => 1 mod n | Zpos e' => powmod_pos a e' n | Zneg _ => 0 end.
Definition fpow (a : fp) (e : Z) : fp := mkfp (powmod (val a) e p).

(* inversion: extended Euclid (returns None unless it ends with gcd 1), Fermat as fall-back *)
Fixpoint egcd (fuel : nat) (r0 r1 s0 s1 : Z) : option Z :=
  match fuel with
  | O => None
  | S f => if r1 =? 0 then (if r0 =? 1 then Some s0 else None)
           else let q := r0 / r1 in egcd f r1 (r0 - q * r1) s1 (s0 - q * s1)
  end.
Definition zinv (a : Z) : Z :=
  match egcd 400 p a 0 1 with Some u => u mod p | None => powmod a (p - 2) p end.
Definition finv (a : fp) : fp := mkfp (zinv (val a)).
Definition fdiv (a b : fp) : fp := fmul a (finv b).

(* sqrt for p = 3 mod 4, as ff_derive generates it: candidate a^((p+1)/4), accepted iff it squares to a *)
Definition fsqrt (a : fp) : option fp :=
  let r := fpow a ((p + 1) / 4) in if feqb (fmul r r) a then Some r else None.

(* 24-byte little-endian canonical encoding *)
Definition to_repr (a : fp) : bytes := bytes_of_le Params.field_element_len (Z.to_N (val a)).
Definition from_repr (bs : bytes) : option fp :=
  if Nat.eqb (length bs) Params.field_element_len then
    let v := Z.of_N (le_of_bytes bs) in if v <? p then Some (mkfp v) else None
  else None.

(* ff_derive `random`: three u64 words, top limb masked to one bit (REPR_SHAVE_BITS = 63), rejected
   unless < p; the limbs are the Montgomery form, so the value is limbs * 2^-192 mod p *)
Definition mont_rinv : Z := zinv ((2 ^ 192) mod p).
Definition fp_of_limbs (a b c : N) : option fp :=
  let v := Z.of_N (a + 18446744073709551616 * b + 340282366920938463463374607431768211456 * (N.land c 1))%N in
  if v <? p then Some (mkfp (v * mont_rinv)) else None.

Section Rng.
Variable St : Type.
Variable next64 : St -> St * N.
Fixpoint fp_random (fuel : nat) (s : St) : St * option fp :=
  match fuel with
  | O => (s, None)
  | S f =>
      let '(s1, a) := next64 s in let '(s2, b) := next64 s1 in let '(s3, c) := next64 s2 in
      match fp_of_limbs a b c with
      | Some x => (s3, Some x)
      | None => fp_random f s3
      end
  end.
End Rng.

(* the constants the PrimeField interface publishes, computed from the modulus and the generator *)
Definition f_num_bits : Z := Z.log2 p + 1.
Definition f_capacity : Z := f_num_bits - 1.
Fixpoint two_adicity (fuel : nat) (n : Z) : Z :=
  match fuel with
  | O => 0
  | S f => if Z.even n && (0 <? n) then 1 + two_adicity f (n / 2) else 0
  end.
Definition f_S : Z := two_adicity 200 (p - 1).
Definition f_two_inv : fp := finv (mkfp 2).
Definition f_gen : fp := mkfp Params.generator.
Definition f_rou : fp := fpow f_gen ((p - 1) / 2 ^ f_S).
Definition f_rou_inv : fp := finv f_rou.
Definition f_delta : fp := fpow f_gen (2 ^ f_S).
